"""C11 - graph iteration stays well defined while the graph is edited.

Workload: generated histories that interleave next() on 1-4 simultaneous iterators (iter, reversed,
all_nodes / RecursiveGraphIterator in both directions, on Graph and Function, nesting depth <= 2)
with append / extend / insert_before / insert_after (new nodes, moves inside the graph, moves
from another graph), remove, sort.  Oracle: vfpy/c11_exec.py (L1 spec predicates, F sequence
queries) and vfpy/c11_model.py (L2 reference model).  Thorough additionally enumerates every
history of length <= 5 over a reduced alphabet on a 3-node graph with two iterators.
"""

from __future__ import annotations

import json
import random

import onnx_ir  # noqa: F401 - imported at module top so that VF_REPO decides which tree runs

from vfpy.c11_exec import WD, Abort, Run, Violation, execute
from vfpy.ctx import stable_hash
from vfpy.shrink import ddmin

ID = "C11"
LEVEL = "exploration"
RULE = (
    "case = setup (Graph or Function, 0-8 top-level nodes, optional second graph, optional GRAPH/GRAPHS "
    "subgraphs to depth 2, data dependencies, optional graph inputs/initializers/outputs and second node outputs, "
    "1-4 iterators of kinds iter/reversed/recursive fwd/recursive rev) "
    "+ a generated history of 5-60 steps whose edit arguments are chosen relative to the iterators' cursors "
    "(cursor node, its neighbours, visited/unvisited side, other iterator's cursor); non-trivial iff some edit "
    "hit a graph while an iterator was in flight on it and that iterator was stepped afterwards; distinct by "
    "hash of (setup, operations).  Thorough: plus all histories of length <= 5 over the alphabet "
    "{next(it0), next(it1), remove(n), append(n), insert_before(a, n), insert_after(a, n)} on a 3-node graph "
    "with one spare node and iterator pairs (fwd,fwd), (fwd,rev), (rev,rev)."
)
ASSUMPTIONS = [
    "the reference sequence (Python list of node incarnations in vfpy/c11_model.py) is the meaning of 'current sequence'; "
    "multi-node insert_before/insert_after/extend place their nodes one after the other",
    "a recursive traversal yields a node before the nodes of its subgraphs in both directions (attribute order; GRAPHS members "
    "right-to-left when iterating backwards) - the statement fixes no order, this is the documented depth-first order",
    "same-position moves (node re-inserted where it already is) and sort() are not classified by the statement as 'moved' or "
    "'untouched': iterators parked on such a node are judged by L1 and F only, their L2 comparison is report-only",
    "a hang inside one call is diagnosed structurally (sys.monitoring line counter on the linked-list/traversal iterator code: "
    "more loop lines than link boxes ever created); without that counter a hang becomes a shard timeout = inconclusive",
    "membership (`x in graph`, `x in function`) is True exactly for the node objects of the reference sequence: every other "
    "operand (values attached to the graph or produced by its nodes, nodes of nested subgraphs, the owner node, the graph or "
    "function object, a detached node or a string carrying a member's name, None, ints, tuples) is not in it and must not raise",
    "edits are valid calls only (anchor is a member, new nodes are detached or members of the same graph); rejected edits are C06's subject",
]

MAX_VIOLATING_CASES = 12


# =============================================================================================
# setup generation
# =============================================================================================
def gen_setup(rng) -> dict:
    main = rng.choice(["graph", "graph", "function"])
    nested = rng.random() < 0.45
    gdepth = [0, 0]
    init: list[list[int]] = [[], []]
    height: list[int] = []
    attrs: dict[str, list] = {}
    spare: list[int] = []

    def new_node(h: int = 0) -> int:
        height.append(h)
        return len(height) - 1

    def new_graph(depth: int, leaves: int) -> int:
        gdepth.append(depth)
        init.append([new_node(0) for _ in range(leaves)])
        return len(gdepth) - 1

    def make_owner(h: int) -> int:
        """Node of height h: owns graphs of static depth 3-h."""
        o = new_node(h)
        sub_depth = 3 - h
        alist = []
        for _ in range(rng.choice([1, 1, 2])):
            if rng.random() < 0.5:
                gids = [new_graph(sub_depth, rng.choice([0, 1, 2, 2, 3]))]
                alist.append(["G", gids[0]])
            else:
                gids = [new_graph(sub_depth, rng.choice([0, 1, 2, 3])) for _ in range(rng.choice([0, 1, 2, 2, 3]))]
                alist.append(["GS", gids])
            if h == 2:
                for gid in gids:
                    if rng.random() < 0.6:
                        inner = make_owner(1)
                        init[gid].insert(rng.randint(0, len(init[gid])), inner)
        attrs[str(o)] = alist
        return o

    n_main = rng.choice([0, 1, 2, 3, 3, 4, 4, 5, 5, 6, 7, 8])
    n_second = rng.choice([0, 0, 1, 2, 3])
    for _ in range(n_main):
        init[0].append(new_node())
    for _ in range(n_second):
        init[1].append(new_node())
    for _ in range(rng.randint(1, 4)):
        spare.append(new_node())
    if nested:
        for _ in range(rng.choice([1, 1, 2])):
            o = make_owner(rng.choice([1, 2]))
            r = rng.random()
            if r < 0.7:
                init[0].insert(rng.randint(0, len(init[0])), o)
            elif r < 0.85:
                init[1].insert(rng.randint(0, len(init[1])), o)
            else:
                spare.append(o)
    for lst in init[:2]:
        rng.shuffle(lst)
    n = len(height)
    inputs: list[list[int]] = []
    for k in range(n):
        ins = []
        if k and rng.random() < 0.55:
            for _ in range(rng.choice([1, 1, 2])):
                ins.append(rng.randrange(k))
        inputs.append(ins)
    ngraphs = len(gdepth)
    iters = []
    for _ in range(rng.choice([1, 1, 1, 2, 2, 2, 2, 3, 3, 4])):
        if nested:
            kind = rng.choice(["rec_fwd"] * 3 + ["rec_rev"] * 2 + ["fwd"] * 3 + ["rev"] * 2)
        else:
            kind = rng.choice(["fwd"] * 9 + ["rev"] * 7 + ["rec_fwd"] * 2 + ["rec_rev"] * 2)
        r = rng.random()
        g = 0 if r < 0.75 else (1 if r < 0.85 or ngraphs == 2 else rng.randrange(2, ngraphs))
        spec = {"kind": kind, "g": g, "form": rng.randrange(3)}
        if kind.startswith("rec") and attrs and rng.random() < 0.15:
            spec["nodesc"] = [int(rng.choice(sorted(attrs)))]
        iters.append(spec)
    setup = {
        "main": main, "n": n, "gdepth": gdepth, "height": height, "attrs": attrs,
        "init": init, "inputs": inputs, "iters": iters,
    }
    setup.update(gen_io(setup))
    return setup


def gen_io(setup: dict) -> dict:
    """Graph inputs / initializers / outputs and second node outputs: values that are attached to a
    graph without being part of its node sequence.  Drawn from a generator derived from the setup so
    that the history generator's random stream is the same with and without this dimension."""
    r = random.Random("c11-io|" + stable_hash(setup))
    io = {}
    for gid, members in enumerate(setup["init"]):
        if r.random() < 0.6:
            io[str(gid)] = {
                "in": r.choice([0, 1, 1, 2]),
                "init": r.choice([0, 0, 1, 2]),
                "out": sorted(r.sample(members, min(len(members), r.choice([0, 1, 1, 2])))),
                "thru": int(r.random() < 0.2),
            }
    return {"io": io, "nout": [r.choice([1, 1, 1, 2]) for _ in range(setup["n"])]}


# =============================================================================================
# operation generation (looks at the reference model's state only to *choose arguments*)
# =============================================================================================
def _focus(rng, run):
    """(graph id, cursor node or None) an edit should be aimed at."""
    if run.iters and rng.random() < 0.85:
        it = rng.choice(run.iters)
        flats = it.model.flats()
        if flats:
            flat = flats[-1] if rng.random() < 0.7 else rng.choice(flats)
            c = flat.cur
            return flat.g.gid, (None if isinstance(c, str) else c.n)
        return it.gid, None
    return rng.randrange(len(run.cont)), None


def _near(rng, order: list[int], cursor: int | None) -> int:
    """A member chosen relative to the cursor node."""
    if cursor is not None and cursor in order:
        k = order.index(cursor)
        r = rng.random()
        if r < 0.3:
            return cursor
        if r < 0.5 and k + 1 < len(order):
            return order[k + 1]
        if r < 0.65 and k > 0:
            return order[k - 1]
        if r < 0.75 and k + 2 < len(order):
            return rng.choice(order[k + 1:])
        if r < 0.85 and k > 0:
            return rng.choice(order[:k])
    r = rng.random()
    if r < 0.15:
        return order[0]
    if r < 0.3:
        return order[-1]
    return rng.choice(order)


def gen_op(rng, run, p_next: float) -> list:
    if run.iters and rng.random() < p_next:
        return ["next", rng.randrange(len(run.iters))]
    gid, cursor = _focus(rng, run)
    order = run.mg[gid].order()
    detached = [n for n in range(run.N) if run.where[n] is None and run.fits(n, gid)]
    elsewhere = [n for n in range(run.N) if run.where[n] not in (None, gid) and run.fits(n, gid)]

    def pick_nodes(anchor: int | None) -> list[int]:
        out = []
        for _ in range(rng.choice([1, 1, 1, 1, 1, 1, 1, 2, 2, 3])):
            r = rng.random()
            cand = None
            if r < 0.45 and detached:
                cand = rng.choice(detached)
            elif r < 0.85 and order:
                cand = _near(rng, order, cursor)
            elif elsewhere:
                cand = rng.choice(elsewhere)
            elif detached:
                cand = rng.choice(detached)
            if cand is not None and cand != anchor and (cand not in out or rng.random() < 0.1):
                out.append(cand)
        if not out and rng.random() < 0.9:
            pool = [n for n in detached + order + elsewhere if n != anchor]
            if pool:
                out.append(rng.choice(pool))
        return out

    r = rng.random()
    if r < 0.05:
        closure_root = rng.choice([gid, 0, 0])
        return ["sort", closure_root]
    if r < 0.30 and order:
        k = rng.random()
        if k < 0.68:
            nodes = [_near(rng, order, cursor)]
        elif k < 0.95:
            start = order.index(_near(rng, order, cursor))
            nodes = order[start:start + rng.choice([2, 2, 3])] if rng.random() < 0.6 else rng.sample(order, min(len(order), rng.choice([2, 3])))
        else:
            nodes = list(order)
        return ["remove", gid, nodes, int(rng.random() < 0.25), rng.randrange(3)]
    if r < 0.42 or not order:
        if rng.random() < 0.55:
            nodes = pick_nodes(None)
            if nodes:
                return ["append", gid, nodes[0]]
        return ["extend", gid, pick_nodes(None), rng.randrange(2)]
    side = "after" if rng.random() < 0.5 else "before"
    if rng.random() < 0.07 and len(order) >= 2:
        # deliberately degenerate: re-insert a node where it already is
        k = rng.randrange(len(order) - 1)
        if side == "after":
            return ["ins", side, gid, order[k], [order[k + 1]], rng.randrange(4)]
        return ["ins", side, gid, order[k + 1], [order[k]], rng.randrange(4)]
    anchor = _near(rng, order, cursor)
    return ["ins", side, gid, anchor, pick_nodes(anchor), rng.randrange(4)]


# =============================================================================================
# one random case
# =============================================================================================
def _signature(v: Violation, run) -> str:
    """clause | iterator kind | edit kinds of the (shrunk) witness.  Insertions of fresh nodes only
    build the scene; they are left out unless the witness consists of nothing else."""
    kinds = sorted(set(run.kind_log)) if run is not None else []
    core = [k for k in kinds if not k.endswith("(new)") and not k.endswith("(empty)")]
    if core:
        kinds = core
    return f"{v.clause}|{v.itkind}|{'+'.join(kinds) if kinds else 'no-edit'}"


def _same(v: Violation | None, ref: Violation) -> bool:
    return v is not None and v.clause == ref.clause and v.itkind == ref.itkind


def shrink(setup: dict, ops: list, v: Violation):
    """1-minimal history, then fewer iterators and fewer initial nodes, for the same clause."""

    def fails_ops(sub):
        return _same(execute(setup, sub)[0], v)

    ops = [] if fails_ops([]) else ddmin(ops, fails_ops, max_tests=1500)
    # keep only the iterator concerned
    if len(setup["iters"]) > 1 or (v.slot is None and setup["iters"]):
        cand_setups = []
        if v.slot is None:
            cand_setups.append((dict(setup, iters=[]), [op for op in ops if op[0] != "next"]))
        else:
            n_it = len(setup["iters"])
            keep = v.slot % n_it
            new_ops = [(["next", 0] if op[0] == "next" else op) for op in ops if op[0] != "next" or op[1] % n_it == keep]
            cand_setups.append((dict(setup, iters=[setup["iters"][keep]]), new_ops))
        for s2, o2 in cand_setups:
            if _same(execute(s2, o2)[0], v):
                setup, ops = s2, o2
                ops = ddmin(ops, lambda sub: _same(execute(setup, sub)[0], v), max_tests=600)
    # fewer initial nodes
    for gid in range(len(setup["init"])):
        for n in list(setup["init"][gid]):
            init2 = [list(x) for x in setup["init"]]
            init2[gid].remove(n)
            s2 = dict(setup, init=init2)
            if _same(execute(s2, ops)[0], v):
                setup = s2
    # drop data dependencies if irrelevant
    s2 = dict(setup, inputs=[[] for _ in setup["inputs"]])
    if _same(execute(s2, ops)[0], v):
        setup = s2
    # drop graph inputs/initializers/outputs and extra node outputs if irrelevant
    if setup.get("io") or setup.get("nout"):
        for s2 in ({k: x for k, x in setup.items() if k not in ("io", "nout")},
                   dict(setup, io={}), {k: x for k, x in setup.items() if k != "nout"}):
            if _same(execute(s2, ops)[0], v):
                setup = s2
                break
    v2, run2 = execute(setup, ops)
    return setup, ops, v2, run2


def _witness_text(setup: dict, ops: list, run) -> str:
    init = {f"g{g}": m for g, m in enumerate(setup["init"]) if m or g == 0}
    iters = [f"{s['kind']}@g{s['g']}" for s in setup["iters"]]
    trace = " ".join(run.trace[-12:]) if run is not None else ""
    io = f" io={setup['io']}" if setup.get("io") else ""
    return (f"witness: main={setup['main']} init={init} attrs={setup.get('attrs') or {}}{io} iterators={iters} "
            f"ops={json.dumps(ops)} real-yields: {trace}")


def report(ctx, setup: dict, ops: list, v: Violation) -> None:
    s2, o2, v2, run2 = shrink(setup, ops, v)
    unstable = False
    if v2 is None or not _same(v2, v):
        # the broken behaviour is not a function of the history alone (e.g. it depends on the hash
        # order in which Graph.remove walks a set of nodes): keep the unshrunk witness
        unstable = True
        s2, o2 = setup, ops
        v2, run2 = execute(setup, ops)
        if v2 is None:
            ctx.count("unstable_violation")
            v2, run2 = v, None
    ctx.violation(
        f"{v2.clause}|{v2.itkind}|unstable-witness" if unstable else _signature(v2, run2),
        f"{v2.message}\n{_witness_text(s2, o2, run2)}",
        {"setup": s2, "ops": o2, "clause": v2.clause},
    )


def run_random_case(ctx, case: int, max_len: int) -> bool:
    """Returns True if the case violated."""
    rng = ctx.rng(case)
    setup = gen_setup(rng)
    length = rng.choice([5, 8, 12, 16, 20, 25, 30, 40, 50, 60])
    length = min(length, max_len)
    p_next = rng.choice([0.3, 0.4, 0.5, 0.6])
    stats: dict = {}
    ops: list = []
    run = None
    v = None
    try:
        run = Run(setup, stats)
        for gid in run.mg:
            run.check_f(gid)
        for _ in range(length):
            op = gen_op(rng, run, p_next)
            ops.append(op)
            run.step(op)
        run.finish()
    except Violation as e:
        v = e
    except Abort as e:
        stats["aborted_cases"] = stats.get("aborted_cases", 0) + 1
        ctx.note(f"aborted case (report-only): {str(e)[:200]}")
    for k, n in stats.items():
        ctx.count(k, n)
    nontrivial = bool(run is not None and run.nontrivial)
    ctx.evaluation(key=stable_hash([setup, ops]), nontrivial=nontrivial)
    if case < 64:
        ctx.sample({
            "case": case, "main": setup["main"], "init": setup["init"], "attrs": setup["attrs"],
            "iterators": [f"{s['kind']}@g{s['g']}" for s in setup["iters"]], "ops": ops[:25],
            "real_yields": (run.trace[:25] if run is not None else []),
        })
    if v is not None:
        report(ctx, setup, ops, v)
        return True
    return False


# =============================================================================================
# exhaustive bounded space (thorough)
# =============================================================================================
ENUM_CONFIGS = [("fwd", "fwd"), ("fwd", "rev"), ("rev", "rev")]
# bounded spaces: (name, nodes in the universe, maximal history length).  The graph always starts as
# [n0, n1, n2]; with 4 nodes n3 is a spare (detached) node.
ENUM_SPACES = [("3nodes-len5", 3, 5), ("3nodes+spare-len4", 4, 4)]
# in the length-5 space append() takes detached nodes only (append(member) == insert_after(last, member),
# which is in the alphabet); the length-4 space has append() of every node.


def _enum_setup(cfg, n_nodes: int) -> dict:
    return {
        "main": "graph", "n": n_nodes, "gdepth": [0], "height": [0] * n_nodes, "attrs": {},
        "init": [[0, 1, 2]], "inputs": [[] for _ in range(n_nodes)],
        "iters": [{"kind": cfg[0], "g": 0, "form": 0}, {"kind": cfg[1], "g": 0, "form": 0}],
    }


def _enum_alphabet(present: frozenset, n_nodes: int) -> list[tuple[list, frozenset]]:
    """Applicable operations in a state with member set ``present`` and the member set afterwards."""
    out: list[tuple[list, frozenset]] = [(["next", 0], present), (["next", 1], present)]
    for n in sorted(present):
        out.append((["remove", 0, [n], 0, 0], present - {n}))
    for n in range(n_nodes):
        if n_nodes == 4 or n not in present:
            out.append((["append", 0, n], present | {n}))
    for a in sorted(present):
        for n in range(n_nodes):
            if n != a:
                out.append((["ins", "before", 0, a, [n], 0], present | {n}))
                out.append((["ins", "after", 0, a, [n], 0], present | {n}))
    return out


def _enum_histories(prefix: list, present: frozenset, depth: int, n_nodes: int):
    """``prefix`` and all its applicable extensions by up to ``depth`` further operations."""
    yield prefix
    if depth == 0:
        return
    for op, after in _enum_alphabet(present, n_nodes):
        yield from _enum_histories(prefix + [op], after, depth - 1, n_nodes)


def enum_units() -> list[tuple]:
    """Work units (space index, config index, two-operation prefix, member set after it); the
    histories of length 0 and 1 form one extra unit per (space, config)."""
    units = []
    start = frozenset({0, 1, 2})
    for si, (_name, n_nodes, _depth) in enumerate(ENUM_SPACES):
        for ci in range(len(ENUM_CONFIGS)):
            units.append((si, ci, None, None))
            for op1, p1 in _enum_alphabet(start, n_nodes):
                for op2, p2 in _enum_alphabet(p1, n_nodes):
                    units.append((si, ci, [op1, op2], p2))
    return units


def run_enumeration(ctx) -> bool:
    units = enum_units()
    mine = [u for k, u in enumerate(units) if k % ctx.nshards == ctx.shard]
    # alternate between the spaces so that a run cut short by the time budget has looked into each
    by_space = [[u for u in mine if u[0] == si] for si in range(len(ENUM_SPACES))]
    mine = []
    while any(by_space):
        for lst in by_space:
            if lst:
                mine.append(lst.pop(0))
    stats: dict = {}
    violated = 0
    completed = True
    budget = float(ctx.params.get("enum_budget_frac", 0.7)) * ctx.budget_s
    import time

    for si, ci, prefix, present in mine:
        if (time.monotonic() - ctx.t0) > budget or violated >= MAX_VIOLATING_CASES:
            completed = False
            break
        name, n_nodes, depth = ENUM_SPACES[si]
        setup = _enum_setup(ENUM_CONFIGS[ci], n_nodes)
        if prefix is None:
            hists = [[]] + [[op] for op, _p in _enum_alphabet(frozenset({0, 1, 2}), n_nodes)]
        else:
            hists = _enum_histories(prefix, present, depth - 2, n_nodes)
        count = 0
        nontrivial = 0
        for ops in hists:
            v, run_ = execute(setup, ops, stats, "final")
            count += 1
            if run_ is not None and run_.nontrivial:
                nontrivial += 1
            if v is not None:
                violated += 1
                report(ctx, setup, list(ops), v)
                if violated >= MAX_VIOLATING_CASES:
                    break
        ctx.count("enum_histories", count)
        ctx.evaluations += count
        ctx.count("enum_histories:" + name, count)
        ctx.count("enum_histories_nontrivial", nontrivial)
        ctx.count("enum_units_done")
    for k, n in stats.items():
        ctx.count(k if k.startswith("report_only") else "enum:" + k, n)
    if not completed:
        ctx.truncated_by_time = True
        ctx.note("bounded-space enumeration not completed within its share of the budget")
    return completed


# =============================================================================================
# module interface
# =============================================================================================
def plan(tier: str) -> dict:
    if tier == "quick":
        return {
            "cases": 120000,
            "shards": 16,
            "budget_s": 36,
            # floors sit at what ~2500 cases deliver (a machine loaded 8x over still gets there)
            "floors": {
                "next_calls": 40000,
                "l2_compared": 30000,
                "l2_compared_recursive": 8000,
                "tombstone_hops": 5000,
                "edits_while_iterator_in_flight": 20000,
                "edit_hit_cursor_node": 3000,
                "l1e_judged": 1000,
                "l1d_judged_behind": 1500,
                "l1d_judged_before": 1500,
                "l1c_nodes": 10000,
                "f_checks": 60000,
                "ins_move": 8000,
                "ins_xmove": 2000,
                "sort_ok": 500,
                "f_foreign_membership_reads": 100000,
                "f_foreign:value:output-of-member-node": 8000,
                "f_foreign:value:graph-input": 4000,
                "f_foreign:value:graph-output": 3000,
                "f_foreign:node:of-nested-subgraph": 1500,
            },
            "min_nontrivial": 2000,
            "params": {"enumerate": False, "max_len": 60},
        }
    return {
        "cases": 400000,
        "shards": 16,
        "budget_s": 540,
        # floors sit at what ~12000 random cases and a tenth of the bounded spaces deliver, so that a
        # machine that is many times oversubscribed still reaches them; an idle one does all of it
        "floors": {
            "next_calls": 200000,
            "l2_compared": 160000,
            "l2_compared_recursive": 60000,
            "tombstone_hops": 50000,
            "edits_while_iterator_in_flight": 120000,
            "edit_hit_cursor_node": 20000,
            "l1e_judged": 6000,
            "l1d_judged_behind": 10000,
            "l1d_judged_before": 10000,
            "l1c_nodes": 80000,
            "f_checks": 400000,
            "ins_move": 50000,
            "ins_xmove": 25000,
            "sort_ok": 6000,
            "f_foreign_membership_reads": 500000,
            "f_foreign:value:output-of-member-node": 40000,
            "f_foreign:value:graph-input": 20000,
            "f_foreign:value:graph-output": 15000,
            "f_foreign:node:of-nested-subgraph": 7000,
            "enum_histories": 500000,
            "enum:l2_compared": 2500000,
        },
        "min_nontrivial": 10000,
        # the bounded spaces hold 5 604 147 histories; they get at most this share of the budget
        "params": {"enumerate": True, "max_len": 60, "enum_budget_frac": 0.7},
    }


def run(ctx) -> None:
    if not WD.ok:
        ctx.note("watchdog unavailable: a hang inside one call would surface as a shard timeout (inconclusive)")
    ctx.count("watchdog_active", 1 if WD.ok else 0)
    enum_done = None
    if ctx.params.get("enumerate"):
        enum_done = run_enumeration(ctx)
    violated = 0
    max_len = int(ctx.params.get("max_len", 60))
    for case in ctx.case_ids():
        if run_random_case(ctx, case, max_len):
            violated += 1
            if violated >= MAX_VIOLATING_CASES:
                ctx.note(f"stopped after {violated} violating cases in this shard")
                break
    ctx.count("watchdog_fired", WD.fired)
    if enum_done is not None:
        ctx.exhaustive = bool(enum_done)
        ctx.note("exhaustive refers to the bounded space only: all applicable histories of length <= 5 over the reduced "
                 "alphabet on a 3-node graph with 2 iterators; the random histories are a sample")


def replay(replay_data, ctx) -> None:
    setup, ops = replay_data["setup"], replay_data["ops"]
    v, run_ = execute(setup, ops)
    if v is not None:
        ctx.violation(_signature(v, run_), f"{v.message}\n{_witness_text(setup, ops, run_)}", replay_data)
