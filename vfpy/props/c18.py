"""C18 - region extraction and capture analysis are exact.

Monitor 1 (extraction).  For generated models, ``onnx_ir.convenience.extract(graph_like, inputs, outputs)`` is
called on top-level graphs, model-local functions, GraphViews of them (full views and views of a sub-region)
and nested If/Loop bodies, with cuts given by Value object, by name or mixed: ALL cuts (every subset of values
as inputs x every non-empty subset as outputs) when the graph-like has <= 7 named values, random cuts beyond
(exact frontier, all graph inputs, cuts through the middle of the backward cone, a required input dropped,
initializers / irrelevant values / outputs of a needed multi-output node as boundary inputs, arbitrary
subsets).  Oracle (vfpy/c18_oracle.py, independent of the code under test): brute-force backward closure
from the outputs, stopping at the given inputs, over direct inputs AND values captured by nested graphs at
any depth (captures = used in the subtree minus defined in the subtree).  Refuting events:

* a required non-initializer value is not covered by the inputs and extract returns a graph;
* the cut is covered and extract raises (any exception type);
* the returned graph's node list != the closure in ORIGINAL order (missing / extra node, order), a node copy
  differs from its original (op, domain, input/output names, attribute keys, nested bodies);
* an initializer the region needs is missing, or an initializer nothing in the region uses is present, or it
  carries another tensor;
* the result shares a Graph/Node/Value object with the source model (identity sets through public accessors,
  nested graphs, producer()/uses()/graph links; tensors may be shared), or a mutable object one of them owns - a value's
  type object or an element type object at any level of a Sequence/Optional type, its Shape object, a metadata_props /
  opset_imports dictionary (``extract|shares-object|Type|<role>.type.elem_type`` ...) - or a node input is defined nowhere in it;
* executable models (vfpy/gen_exec.py): the source is run ONCE with every value of the cut graph exposed as an
  extra output, the region is wrapped in a model with the source's ir_version / functions / opset imports and
  run on the recorded boundary values with an evaluator that ran both: an output differs from the recorded
  source value (exact; NaN == NaN).  If one evaluator sees a difference and the other compares the same record
  equal the case is report-only (``report_only_evaluators_split``).

Nested bodies that capture values of enclosing graphs are cut like any other graph (the body itself is passed as
the graph to extract from): an initializer declared in an ENCLOSING graph that the region uses - directly or only
through a graph nested deeper - is an initializer the region needs (the result must carry it, with the same tensor);
a value of an enclosing graph that is no initializer can never be covered (extract only accepts boundary values of
the graph itself), so a region that needs one must be refused.  Judged structurally (no execution source for a body
that is not closed).

Report-only (counted, never a verdict): a value of an enclosing graph GIVEN as boundary input of a nested body;
regions that reference one Graph object from two attributes (what an independent copy of an aliased graph is, is
not settled; today the cloner refuses); regions of structural models whose original order is not topological (the cloner cannot build them);
an initializer given as boundary input that is kept as initializer as well (input with default value - the
statement only asks for 'every initializer they need'); a boundary input that is also produced by a needed
multi-output node (the result then has a graph input and a node output of the same name: the reference
evaluator runs it, onnxruntime rejects it as 'Duplicate definition of name' - counted as cannot-run).
onnxruntime is not used on sources containing BatchNormalization(training_mode=1) (probe: it updates the
mean/var input buffers in place, so an initializer returned as output differs from the model).

Monitor 2 (capture analysis).  ``onnx_ir.analysis.analyze_implicit_usage(graph)`` on the main graph and every
function body of gen_exec models and of gen_ir structural models (well scoped, nesting depth <= 3, GRAPH and
GRAPHS attributes), and on up to three nested graphs per root that have nested graphs of their own: every
nested graph must be a key (the docstring promises a mapping from *each* sub-graph), and its set must equal,
by identity, {values used in the graph or deeper that are defined in neither}; raising is a violation.
Structural models additionally reference nested Graph OBJECTS from a second attribute (``share_subgraphs``: of the
same node, of another node of the same graph, of a sibling nested graph, of a graph nested deeper or of an enclosing
one; GRAPH and GRAPHS; always well scoped and acyclic) - the IR allows it and the repository's tests do it for the
two branches of an If - so the analysis meets the same graph object on several paths with different enclosing graphs.

Monitor 3 (histories on the same objects).  The statement quantifies over all graphs - also one that was cut before and
has been edited in place since.  Per model, on a fresh copy: for each of ~6 edits drawn from the public editing alphabet of
vfpy/c18_edits.py (re-point a node input - in a nested body: from/to a captured outer value or a local one, at any depth;
insert an Identity on a local or outer value; bypass-and-remove a node; move a node within its legal range; rename a
value / graph input / initializer; give an initializer another tensor; register a new initializer here or in an enclosing
graph and use it; exchange the Graph objects of two attributes of a node; re-point an output of a nested graph) the
harness extracts cuts whose region holds the edit site (on the root, a view of it, or the nested body on the path to the
site), APPLIES the edit, and extracts THE SAME cuts again from the same objects (plus a fresh random cut); executable
models are finally serialised as edited, must still pass the checker, and their regions are executed against the edited
source.  Every call is judged by the same oracle, recomputed from the containers as they are at that call.  All edits keep
the model SSA, well scoped, topologically sorted and (executable models) type-correct.  A violation is shrunk by ddmin
over the earlier calls and edits, each test on a fresh model: a failure that needs an earlier call AND a later edit is
``extract|stale-after-edit|<clause>|<detail>|<edit kinds>`` (state left behind by a call did not follow the edit), one
that needs only edits ``extract|<clause>|<detail>|on-edited-model|<edit kinds>``, one that needs only an earlier call
``extract|depends-on-earlier-extract-call|...``, one that needs nothing is reported as an ordinary cut.

Signatures are mechanism-level and derived from the *shrunk* cut (outputs/inputs dropped, region cut down by
extra boundary inputs, while the same clause fails): ``extract|<clause>|<class>`` / ``implicit-usage|...``.
"""

from __future__ import annotations

import itertools
import logging
import os
import random
import time
import types
import warnings
from collections import Counter

import onnx_ir as ir
from onnx_ir.analysis import analyze_implicit_usage
from onnx_ir.convenience import extract

from vfpy import c18_edits as ED
from vfpy import c18_exec as CX
from vfpy import c18_oracle as OR
from vfpy import gen_exec as GE
from vfpy import gen_ir as GI
from vfpy.ctx import stable_hash
from vfpy.shrink import ddmin

ID = "C18"
LEVEL = "exploration"
RULE = ("a case is one generated model: 'exec-small' (gen_exec, 0-3 chosen features, size 0-2: graphs small enough for ALL "
        "cuts), 'exec-big' (gen_exec, default feature mix, size 2-8: nested If/Loop bodies capturing at depth 1-2, "
        "initializers, functions; random cuts) or 'ir' (gen_ir structural model, nesting depth <= 3, GRAPH and GRAPHS "
        "attributes, 0-4 nested Graph objects referenced from a second attribute elsewhere in their root; structural judgement only).  One evaluation = one graph-like (graph / function / full view / sub-view / "
        "nested body) with its batch of cuts, or one capture analysis of a root graph; non-trivial = the batch contained a "
        "covered cut whose region has >= 2 nodes and needs a value captured by a nested body, or an uncovered cut (extraction); "
        "some nested graph captures a value used deeper than itself (analysis); distinct = hash of (model key, graph-like).  "
        "Each model additionally gives one 'history' evaluation on a fresh copy: ~6 in-place edits through the public API "
        "(see Monitor 3), each preceded and followed by extraction of the same cuts from the same objects; non-trivial = an edit "
        "changed what a nested graph captures and a cut whose region held the edit site was extracted before and after it")
ASSUMPTIONS = [
    "the oracle recomputes producers, definition sites, initializer-ness and captures from the public containers "
    "(never Value.producer()/graph/is_initializer(), RecursiveGraphIterator, the cloner or the functions under test)",
    "gen_exec models are checker-valid, SSA per scope and topologically sorted; value names are unique within one graph, "
    "so a cut given by name denotes the same values as the cut given by object",
    "onnx.reference.ReferenceEvaluator and onnxruntime (ORT_DISABLE_ALL, 1 thread) are deterministic; exposing a node output as "
    "an additional graph output does not change what a graph computes; a verdict on values is taken only from an evaluator "
    "that ran both the instrumented source and the wrapped region",
    "a function body is executed as a graph typed by the function's value_info with reference attributes replaced by the "
    "declared defaults (bodies with a reference lacking a default are judged structurally only)",
    "'raises instead' accepts any exception type; 'covered' = every value the closure reaches that has no producer in the "
    "graph-like is a given input or one of the graph-like's initializers",
    "views list all initializers of the underlying graph, so initializer-ness by container and by flag coincide",
    "for a nested body 'initializer' includes the initializers (by container) of the graphs that enclose it; a value of an "
    "enclosing graph cannot be given as boundary input (report-only when tried), so a region needing a non-initializer one is uncovered",
    "histories: the edits of vfpy/c18_edits.py (public editing API only; preconditions checked on the scope tree the oracle "
    "recomputes from the containers) leave a legal model - SSA, well scoped, topologically sorted; executable models stay "
    "type-correct (a value is only replaced by one of equal element type and static shape) and are re-checked by onnx.checker "
    "before they are executed; replaying a history on a freshly built model reaches the same state (ids differ)",
    "a model in which one Graph object is held by several attributes is a legal IR state (no ownership link from a Graph to an "
    "attribute exists); the shared reference is only added where every value the graph captures is visible and defined earlier",
]

EXHAUSTIVE_MAX_VALUES = 7
# An initializer that is given as boundary input comes back as input AND initializer (an input with a default value;
# _extractor.py:59 does this on purpose for graphs and views, not for functions).  The statement asks for 'every
# initializer they need' and is silent on this, so it is counted (report_only_boundary_initializer_kept_as_initializer);
# set to True to judge it as 'extract|initializer-extra|boundary-input-kept-as-initializer'.
STRICT_BOUNDARY_INITIALIZER = bool(int(os.environ.get("VF_C18_STRICT_BOUNDARY_INITIALIZER", "0")))
SMALL_FEATURES = ["if", "loop", "fn", "fn_nested", "captured_only", "subgraph_init", "init_is_input", "optional_io",
                  "out_init", "out_alias_input", "const_in_branch", "identity_outer_branch", "identity_input_branch",
                  "missing_value_info", "unused_init", "consts_all_forms"]


def plan(tier: str) -> dict:
    quick = tier == "quick"
    # sizing (measured): ~0.32 s CPU per case -> quick ~35 s wall on 16 idle cores; on a loaded machine the shards stop
    # at budget_s and the floors below (<= 1/3 of what a run at load average 40 reached) must still hold
    f = 1 if quick else 8
    return {
        "cases": 1700 if quick else 20000,
        "shards": 16,
        "budget_s": 38 if quick else 430,
        "floors": {
            "cuts_judged": 60000 * f,
            "covered_returned": 30000 * f,
            "uncovered_rejected": 20000 * f,
            "uncovered_class:captured-input": 100 * f,
            "regions_needing_capture": 1500 * f,
            "regions_needing_capture_depth>=2": 150 * f,
            "regions_needing_capture_GRAPHS": 100 * f,
            "regions_with_initializer_needed_only_by_nested_body": 100 * f,
            "cuts_by_name_or_mixed": 25000 * f,
            "cuts_on:function": 5000 * f,
            "cuts_on:view": 2000 * f,
            "cuts_on:subview": 1500 * f,
            "cuts_on:nested": 1000 * f,
            "cuts_on:nested-capturing": 2000 * f,
            "regions_needing_enclosing_initializer": 150 * f,
            "uncovered_class:enclosing-scope-value": 800 * f,
            "exhaustive_graphlikes": 60 * f,
            "exec_compared": 5000 * f,
            "exec_compared:ort": 300 * f,
            "identity_walks": 30000 * f,
            # results holding a value whose type nests another type object (Sequence/Optional, 'ir' models): the identity
            # walk then compares type objects below the outermost one (seen: ~15-20 k per quick run)
            "identity_walks_result_with_sequence_or_optional_typed_value": 1500 * f,
            "implicit_roots_checked": 100 * f,
            "implicit_nested_graphs_checked": 150 * f,
            "implicit_captures_used_deeper": 15 * f,
            "implicit_nested_via:GRAPHS": 8 * f,
            "implicit_shared_graph_objects": 20 * f,
            "implicit_shared_capturing_graph_objects_held_by_different_graphs": 4 * f,
            # extract -> edit the same objects -> extract again: per model ~6 edits, ~11 re-cuts, ~2.5 re-cuts after a capture
            # change in the region, ~17 executed comparisons; floors = what ~25 models give (the floors above: ~30-45 models)
            "history_edits_applied": 150 * f,
            "history_edits_changing_what_a_nested_graph_captures": 35 * f,
            "history_recuts_same_cut_after_edit": 280 * f,
            "history_recuts_after_capture_change_in_region": 60 * f,
            "history_exec_compared": 300 * f,
        },
        "min_nontrivial": 150 * f,
        "params": {"cuts_big": 40 if quick else 48, "cuts_capturing_nested": 12 if quick else 16, "exec_per_graphlike": 14 if quick else 18, "ort_per_model": 6 if quick else 8,
                   # allowance for ALL-cuts enumeration of 5..7-value graph-likes (<= 4 values: always): a start credit plus
                   # a credit per case, so that the enumeration is spread over the shard instead of eating its first minute
                   "exhaustive_start": 6000 if quick else 20000, "exhaustive_per_case": 260 if quick else 130,
                   "exhaustive_cap": 20000,
                   # per model: edits of one history, cuts made before AND after each edit, executed cuts of the edited model
                   "history_edits": 6, "history_cuts": 2, "history_exec_cuts": 6, "history_ort_cuts": 2},
    }


# =================================================================================================
# graph-likes of a model
# =================================================================================================
def _root_obj(model: ir.Model, root):
    return model.graph if root[0] == "main" else list(model.functions.values())[root[1]]


def _roots(model: ir.Model) -> list[list]:
    return [["main"]] + [["fn", i] for i in range(len(model.functions))]


def _defined_ids(graph_like) -> set[int]:
    ids = {id(v) for v in graph_like.inputs} | {id(v) for v in OR.initializers_of(graph_like)}
    for n in graph_like:
        ids.update(id(o) for o in n.outputs)
    return ids


def _make_view(obj, inputs, outputs, nodes) -> ir.GraphView:
    return ir.GraphView(
        list(inputs), list(outputs), nodes=list(nodes), initializers=OR.initializers_of(obj),
        doc_string=obj.doc_string, opset_imports=dict(obj.opset_imports), name=obj.name,
        metadata_props=dict(obj.metadata_props),
    )


def resolve_gl(model: ir.Model, ref: dict) -> OR.GraphLike | None:
    """The graph-like a locator denotes: {'root': ['main']|['fn', i], 'path': [[node index, attr, j], ...],
    'view': None | 'full' | {'inputs': [names], 'outputs': [names]}}."""
    obj = _root_obj(model, ref["root"])
    enclosing: set[int] = set()
    enclosing_inits: dict[int, ir.Value] = {}
    for i, name, j in ref.get("path") or []:
        enclosing |= _defined_ids(obj)
        enclosing_inits.update((id(v), v) for v in OR.initializers_of(obj))
        attr = list(obj)[i].attributes[name]
        obj = attr.value if attr.type == ir.AttributeType.GRAPH else attr.value[j]
    kind = "nested" if ref.get("path") else ("function" if isinstance(obj, ir.Function) else "graph")
    base = OR.GraphLike(obj, kind, ref, enclosing_defined=enclosing, enclosing_inits=enclosing_inits)
    view = ref.get("view")
    if not view:
        return base
    if view == "full":
        return OR.GraphLike(_make_view(obj, obj.inputs, obj.outputs, list(obj)), "view", ref)
    try:
        ins = [base.by_name[n] for n in view["inputs"]]
        outs = [base.by_name[n] for n in view["outputs"]]
    except KeyError:
        return None
    c = OR.closure(base, ins, outs)
    return OR.GraphLike(_make_view(obj, ins, outs, c.nodes), "subview", ref)


# =================================================================================================
# cuts
# =================================================================================================
def _dedupe(values):
    seen, out = set(), []
    for v in values:
        if id(v) not in seen:
            seen.add(id(v))
            out.append(v)
    return out


def random_cut(gl: OR.GraphLike, rng: random.Random):
    """(inputs, outputs, strategy) - see the module docstring for the strategies."""
    vals = gl.values
    node_outs = [v for v in vals if id(v) in gl.prod]
    r = rng.random()
    sub_outs = [v for v in node_outs if id(gl.prod[id(v)]) in gl.scope.children_of]
    if r < 0.28 and sub_outs:
        outs = rng.sample(sub_outs, min(len(sub_outs), rng.choice([1, 1, 2])))  # outputs of If/Loop-like nodes
    elif r < 0.62 and node_outs:
        outs = rng.sample(node_outs, min(len(node_outs), rng.choice([1, 1, 1, 2, 3])))
    elif r < 0.82 and [v for v in gl.outputs if v.name]:
        cands = _dedupe([v for v in gl.outputs if v.name])
        outs = rng.sample(cands, min(len(cands), rng.choice([1, 2, len(cands)])))
    else:
        outs = rng.sample(vals, min(len(vals), rng.choice([1, 1, 2])))
    cone = OR.closure(gl, [], outs)
    cone_vals = [o for n in cone.nodes for o in n.outputs if o.name and all(o is not x for x in outs)]
    strategy = rng.choice(["frontier", "all-inputs", "mid", "mid", "mid", "drop", "drop", "random"])
    ins: list = []
    if strategy == "frontier":
        ins = list(cone.uncovered.values())
    elif strategy == "all-inputs":
        ins = [v for v in gl.inputs if v.name]
    elif strategy in ("mid", "drop"):
        mid = rng.sample(cone_vals, min(len(cone_vals), rng.choice([0, 1, 1, 2, 3])))
        c2 = OR.closure(gl, mid, outs)
        need = list(c2.uncovered.values())
        ins = mid + need
        if strategy == "drop":
            if need:
                # prefer a source that is needed only through a capture half of the time
                cap_only = [v for v in need if all(w.startswith("capture") for w in c2.unc_why[id(v)])]
                victim = rng.choice(cap_only) if cap_only and rng.random() < 0.6 else rng.choice(need)
                ins = [v for v in ins if v is not victim]
            else:
                strategy = "mid"
    else:
        ins = rng.sample(vals, min(len(vals), rng.randint(0, 4)))
    if strategy != "random":
        extra = rng.random()
        if extra < 0.18 and gl.inits:
            pool = list(cone.inits.values()) or gl.inits
            ins.append(rng.choice(pool))  # an initializer as boundary input
            strategy += "+init"
        elif extra < 0.30 and vals:
            ins.append(rng.choice(vals))  # possibly irrelevant
            strategy += "+any"
        elif extra < 0.40:
            multi = [o for n in cone.nodes if len(n.outputs) > 1 for o in n.outputs if o.name]
            if multi:
                ins.append(rng.choice(multi))  # one output of a multi-output node
                strategy += "+multi"
    if gl.kind == "nested" and gl.free and rng.random() < 0.9:
        # a value of an enclosing graph cannot bound a region of the nested body (report-only when tried, see judge_cut):
        # mostly leave it out, so that the cut is judged (uncovered when the value is no initializer)
        ins = [v for v in ins if id(v) in gl.top_defined]
    ins = _dedupe([v for v in ins if v.name])
    rng.shuffle(ins)
    return ins, _dedupe(outs), strategy


def all_cuts(gl: OR.GraphLike):
    vals = gl.values
    n = len(vals)
    for imask in range(1 << n):
        ins = [vals[i] for i in range(n) if imask >> i & 1]
        for omask in range(1, 1 << n):
            yield ins, [vals[i] for i in range(n) if omask >> i & 1]


def draw_modes(gl: OR.GraphLike, rng: random.Random, ins, outs):
    """Per value: True = pass its name, False = pass the Value object."""
    mode = rng.choice(["obj", "obj", "name", "mixed"])
    if gl.ambiguous_names:
        mode = "obj"
    if mode == "obj":
        return [False] * len(ins), [False] * len(outs), mode
    if mode == "name":
        return [True] * len(ins), [True] * len(outs), mode
    return [rng.random() < 0.5 for _ in ins], [rng.random() < 0.5 for _ in outs], mode


# =================================================================================================
# judging one cut
# =================================================================================================
class Env:
    """What judging needs besides the cut: identity set of the whole source model, execution source."""

    def __init__(self, model: ir.Model, executable: bool):
        self.model = model
        self.executable = executable
        self.src_ids = OR.collect_objects([model.graph, *model.functions.values()])
        # mutable objects the source's graphs/nodes/values OWN besides Graph/Node/Value (type objects at every nesting level
        # of Sequence/Optional, Shape objects, metadata_props / opset_imports dictionaries): an independent copy refers to
        # none of them either.  {id: (kind, obj)} - obj keeps the id from being reused.  Tensors are not listed (may be shared).
        self.src_sub_ids: dict[int, tuple[str, object]] = {}
        for _kind, o in list(self.src_ids.values()):
            for kind, _role, sub in owned_objects(o):
                self.src_sub_ids.setdefault(id(sub), (kind, sub))
        self.sources: dict[str, CX.Source | None] = {}


class Outcome:
    __slots__ = ("closure", "raised", "result", "violations", "events", "judged", "report_only")

    def __init__(self):
        self.closure = None
        self.raised = None
        self.result = None
        self.violations: list[tuple[str, dict]] = []  # (clause, info)
        self.events: list[str] = []
        self.judged = True
        self.report_only = None


def _root_exception(e: BaseException) -> BaseException:
    seen = set()
    while e.__cause__ is not None and id(e) not in seen:
        seen.add(id(e))
        e = e.__cause__
    return e


def _site(e: BaseException) -> str:
    """Function of the innermost onnx_ir frame of the root cause."""
    root = _root_exception(e)
    tb = root.__traceback__
    site = "?"
    while tb is not None:
        code = tb.tb_frame.f_code
        fn = code.co_filename.replace("\\", "/")
        if "/onnx_ir/" in fn and code.co_name != "wrapper":
            mod = fn.rsplit("/onnx_ir/", 1)[1].rsplit(".py", 1)[0].replace("/", ".")
            site = f"{mod}.{code.co_name}"
        tb = tb.tb_next
    return f"{type(root).__name__}@{site}"


def _why_class(reasons: set[str]) -> str:
    if "output" in reasons:
        return "output-itself"
    if "direct" in reasons:
        return "direct-input"
    depths = [int(r.split(":")[1]) for r in reasons]
    kinds = {k for r in reasons for k in r.split(":")[2].split("+")}
    cls = "captured-input"
    if depths and min(depths) >= 2:
        cls += "|depth>=2"
    if kinds == {"GRAPHS"}:
        cls += "|GRAPHS"
    return cls


def _UNC_ORDER(cls: str):
    base = ["direct-input", "output-itself", "captured-input"].index(cls.split("|")[0])
    return (base, cls.count("|"), cls)


def cut_features(gl: OR.GraphLike, c: OR.Closure, ins, outs) -> list[str]:
    """What is special about a (shrunk) cut, most specific first."""
    feats = []
    if _enclosing_class(c):
        feats.append(_enclosing_class(c))
    reasons = set()
    for s in list(c.why.values()) + list(c.init_why.values()) + list(c.unc_why.values()):
        reasons |= s
    caps = [r for r in reasons if r.startswith("capture")]
    if any("GRAPHS" in r.split(":")[2] for r in caps):
        feats.append("capture(GRAPHS)")
    if any(all(r.startswith("capture") for r in s) for s in c.init_why.values()):
        feats.append("initializer-needed-only-by-nested-body")
    if any(int(r.split(":")[1]) >= 2 for r in caps):
        feats.append("capture-depth>=2")
    if caps:
        feats.append("capture")
    in_ids = {id(v) for v in ins}
    if any(id(v) in gl.init_ids for v in ins):
        feats.append("boundary-initializer")
    if any(id(o) in in_ids for n in c.nodes for o in n.outputs):
        feats.append("partial-multi-output")
    if any(id(o) in in_ids for o in outs):
        feats.append("output-in-inputs")
    if any(id(o) in gl.init_ids and id(o) not in in_ids for o in outs):
        feats.append("output-is-initializer")
    if not c.nodes:
        feats.append("empty-region")
    if c.inits:
        feats.append("needs-initializer")
    return feats or ["plain"]


def cut_class(gl: OR.GraphLike, c: OR.Closure, ins, outs) -> str:
    """The most specific feature of the shrunk cut names the class (all features go into the message)."""
    return cut_features(gl, c, ins, outs)[0]


def _holds_graph_twice(gl: OR.GraphLike, c: OR.Closure) -> bool:
    seen: set[int] = set()
    for n in c.nodes:
        for child in gl.scope.children_of.get(id(n), ()):
            for sc in child.walk():
                if id(sc.graph) in seen:
                    return True
                seen.add(id(sc.graph))
    return False


def _node_desc(n: ir.Node, depth: int = 0):
    """Name-based structure of a node, nested bodies included (what a faithful copy must preserve)."""
    subs = []
    for name, kind, j, g in OR.child_graphs(n):
        subs.append((name, kind, j, tuple(v.name for v in g.inputs), tuple(v.name for v in g.outputs),
                     tuple(sorted(g.initializers)), tuple(_node_desc(m, depth + 1) for m in g)))
    return (n.domain, n.op_type, n.overload, n.name, tuple(None if v is None else v.name for v in n.inputs),
            tuple(o.name for o in n.outputs), tuple(n.attributes.keys()), tuple(subs))


def _node_key(n: ir.Node):
    return (tuple(o.name for o in n.outputs), n.op_type, n.domain)


def owned_objects(o):
    """(kind, role, obj) of the mutable objects a Graph / Node / Value holds that are no Graph/Node/Value themselves and
    that the statement's 'referring to no object of the source' covers: the type object of a value and, for the recursive
    Sequence/Optional types, the element type objects at every level (kind 'Type'; a DataType member is a constant, not an
    object of the source), its Shape object (the dimensions inside are immutable and not looked at), and the
    metadata_props / opset_imports dictionaries.  Public accessors only.  Tensors may be shared and are not listed."""
    if isinstance(o, ir.Value):
        t, role, seen = o.type, "type", set()
        while t is not None and not isinstance(t, ir.DataType) and id(t) not in seen:
            seen.add(id(t))
            yield "Type", role, t
            t, role = getattr(t, "elem_type", None), "type.elem_type"
        if o.shape is not None:
            yield "Shape", "shape", o.shape
    if isinstance(o, (ir.Value, ir.Node, ir.Graph)):
        yield "metadata_props", "metadata_props", o.metadata_props
    if isinstance(o, ir.Graph):
        yield "opset_imports", "opset_imports", o.opset_imports


def _type_depth(v: ir.Value) -> int:
    d, t = 0, v.type
    while t is not None and not isinstance(t, ir.DataType) and d < 8:
        d, t = d + 1, getattr(t, "elem_type", None)
    return d


def find_shared(result: ir.Graph, src_ids: dict, src_sub_ids: dict | None = None, stats: Counter | None = None) -> list[tuple[str, str]]:
    """(kind, role) of every Graph/Node/Value reachable from the result that is an object of the source and - with
    ``src_sub_ids`` - of every object owned by a result Graph/Node/Value (``owned_objects``) that the source owns."""
    shared: list[tuple[str, str]] = []
    seen: set[int] = set()
    stack: list[tuple[object, str]] = [(result, "result")]
    while stack:
        o, role = stack.pop()
        if o is None or id(o) in seen:
            continue
        seen.add(id(o))
        if id(o) in src_ids:
            shared.append((src_ids[id(o)][0], role))
            continue  # everything behind a source object is source
        if src_sub_ids is not None and isinstance(o, (ir.Graph, ir.Node, ir.Value)):
            for kind, sub_role, sub in owned_objects(o):
                if id(sub) in src_sub_ids and src_sub_ids[id(sub)][1] is sub:
                    shared.append((kind, f"{role}.{sub_role}"))
            if stats is not None and isinstance(o, ir.Value):
                stats["values"] += 1
                if _type_depth(o) >= 2:
                    stats["recursive"] += 1
        if isinstance(o, (ir.Graph, ir.GraphView)):
            nested = "" if role == "result" else "nested-"
            stack.extend((v, nested + "graph-input") for v in o.inputs)
            stack.extend((v, nested + "graph-output") for v in o.outputs)
            stack.extend((v, nested + "initializer") for v in o.initializers.values())
            stack.extend((n, nested + "node") for n in o)
        elif isinstance(o, ir.Node):
            nested = "nested-" if role.startswith("nested-") else ""
            stack.extend((v, nested + "node-input") for v in o.inputs if v is not None)
            stack.extend((v, nested + "node-output") for v in o.outputs)
            for _n, _k, _j, g in OR.child_graphs(o):
                stack.append((g, "nested-graph"))
            stack.append((o.graph, "link:node.graph"))
        elif isinstance(o, ir.Value):
            stack.append((o.producer(), "link:producer"))
            stack.append((o.graph, "link:value.graph"))
            for use in o.uses():
                stack.append((use[0], "link:consumer"))
    return shared


def _dangling_inputs(result: ir.Graph) -> list[str]:
    """Node inputs of the result (nested bodies included) that are defined nowhere in it."""
    bad: list[str] = []

    def visit(graph, visible: set[int], nested: bool):
        vis = set(visible)
        vis.update(id(v) for v in graph.inputs)
        vis.update(id(v) for v in graph.initializers.values())
        for n in graph:
            for v in n.inputs:
                if v is not None and id(v) not in vis:
                    bad.append("nested" if nested else "top")
            for _n, _k, _j, g in OR.child_graphs(n):
                visit(g, vis, True)
            vis.update(id(o) for o in n.outputs)

    visit(result, set(), False)
    return bad


def judge_cut(env: Env, gl: OR.GraphLike, ins, outs, in_by_name, out_by_name, *, run_exec=None) -> Outcome:
    """Call extract on the cut and judge the outcome against the brute-force closure.  ``run_exec`` is None or
    a callable(outcome) that performs the execution clause."""
    out = Outcome()
    c = OR.closure(gl, ins, outs)
    out.closure = c
    args_in = [v.name if b else v for v, b in zip(ins, in_by_name)]
    args_out = [v.name if b else v for v, b in zip(outs, out_by_name)]
    try:
        result = extract(gl.obj, inputs=args_in, outputs=args_out)
    except Exception as e:  # noqa: BLE001 - 'raises instead' accepts any exception type
        out.raised = e
        result = None
    out.result = result
    outcome_kind = "returned" if out.raised is None else "raised:" + type(out.raised).__name__

    # --- what the statement does not settle ---------------------------------------------------------
    if gl.kind == "nested" and any(id(v) not in gl.top_defined for v in ins):
        # a value of an enclosing graph given as boundary input of a nested body: extract refuses values that do not
        # belong to the graph; whether such a value may bound the region is not settled by the statement
        out.judged = False
        out.report_only = "report_only_enclosing_value_as_boundary_input_of_nested_body:" + outcome_kind
        return out
    if gl.kind == "nested" and gl.free:
        out.events.append("cuts_in_capturing_nested_body")
    if any(k == "dangling" for k in c.unc_kind.values()):
        out.judged = False
        out.report_only = "report_only_region_uses_undefined_value:" + outcome_kind
        return out
    if not c.sorted_ok:
        out.judged = False
        out.report_only = "report_only_region_not_topologically_ordered:" + outcome_kind
        return out
    if gl.shared_graph_ids and _holds_graph_twice(gl, c):
        # one Graph object referenced by two attributes inside the region: what an independent copy of an aliased graph
        # is (one copy referenced twice / two copies) is not settled by the statement; today the cloner refuses to copy
        # the graph a second time ('already owned by a different graph')
        out.judged = False
        out.report_only = "report_only_region_references_one_graph_object_twice:" + outcome_kind
        return out

    # --- uncovered: must raise ----------------------------------------------------------------------
    if not c.covered:
        classes = sorted({_why_class(c.unc_why[k]) + ("|enclosing-scope-value" if c.unc_kind.get(k) == "enclosing-scope" else "")
                          for k in c.uncovered}, key=_UNC_ORDER)
        for cl in classes:
            out.events.append("uncovered_class:" + cl.split("|")[0])
        if any(k == "enclosing-scope" for k in c.unc_kind.values()):
            out.events.append("uncovered_class:enclosing-scope-value")
        classes = classes[:1]  # the most basic way in which the cut is uncovered names the mechanism
        if out.raised is None:
            out.violations.append(("uncovered-not-rejected", {"classes": classes,
                                                               "uncovered": sorted(v.name for v in c.uncovered.values())}))
        else:
            out.events.append("uncovered_rejected")
            out.events.append("uncovered_rejected_by:" + _site(out.raised))
        return out

    # --- covered: must return the exact region ----------------------------------------------------------
    if out.raised is not None:
        out.violations.append(("covered-but-raised", {"exc": _site(out.raised), "text": str(_root_exception(out.raised))[:300],
                                                      "enclosing": _enclosing_class(c)}))
        return out
    out.events.append("covered_returned")
    if not isinstance(result, ir.Graph):
        out.violations.append(("not-a-graph", {"type": type(result).__name__}))
        return out
    if [v.name for v in result.inputs] != [v.name for v in ins] or [v.name for v in result.outputs] != [v.name for v in outs]:
        out.violations.append(("boundary", {"inputs": [v.name for v in result.inputs], "outputs": [v.name for v in result.outputs]}))
    # nodes
    exp_keys = [_node_key(n) for n in c.nodes]
    got_nodes = list(result)
    got_keys = [_node_key(n) for n in got_nodes]
    if exp_keys != got_keys:
        exp_set, got_set = Counter(exp_keys), Counter(got_keys)
        missing = [n for n in c.nodes if got_set[_node_key(n)] < exp_set[_node_key(n)]]
        extra = [k for k in got_keys if exp_set[k] < got_set[k]]
        if missing:
            out.violations.append(("node-set", {"missing": [(n.op_type, [o.name for o in n.outputs], sorted(c.why[id(n)])) for n in missing],
                                                "why": sorted({_missing_class(c.why[id(n)]) for n in missing})}))
        if extra:
            out.violations.append(("node-set", {"extra": [list(map(str, k)) for k in extra], "why": ["extra-node"]}))
        if not missing and not extra:
            out.violations.append(("order", {"expected": [k[0] for k in exp_keys], "got": [k[0] for k in got_keys]}))
    else:
        for a, b in zip(c.nodes, got_nodes):
            da, db = _node_desc(a), _node_desc(b)
            if da != db:
                field = next(f for f, x, y in zip(("domain", "op_type", "overload", "name", "inputs", "outputs", "attribute-keys",
                                                   "nested-graphs"), da, db) if x != y)
                out.violations.append(("node-content", {"field": field, "expected": repr(da)[:300], "got": repr(db)[:300]}))
                break
    if c.nodes:
        out.events.append("region_nodes>=2" if len(c.nodes) >= 2 else "region_nodes=1")
    else:
        out.events.append("region_nodes=0")
    # initializers
    in_ids = {id(v) for v in ins}
    exp_inits = {v.name: v for v in c.inits.values()}
    got_inits = dict(result.initializers)
    for name, v in exp_inits.items():
        if name not in got_inits:
            out.violations.append(("initializer-missing", {"name": name, "why": _why_class(c.init_why[id(v)]).replace("-input", "").replace("-itself", "")
                                                           + ("|declared-in-enclosing-graph" if id(v) in c.outer_inits else "")}))
        elif got_inits[name].const_value is not v.const_value:
            a, b = got_inits[name].const_value, v.const_value
            same = a is not None and b is not None and a.dtype == b.dtype and tuple(a.shape) == tuple(b.shape) and a.tobytes() == b.tobytes()
            if not same:
                out.violations.append(("initializer-tensor", {"name": name}))
    boundary_names = {v.name for v in ins if id(v) in gl.init_ids}
    for name in got_inits:
        if name in exp_inits:
            continue
        if name in boundary_names and not STRICT_BOUNDARY_INITIALIZER:
            out.events.append("report_only_boundary_initializer_kept_as_initializer")
        elif name in boundary_names:
            out.violations.append(("initializer-extra", {"name": name, "why": "boundary-input-kept-as-initializer"}))
        else:
            src = gl.by_name.get(name)
            kind = "unused-source-initializer" if src is not None and id(src) in gl.init_ids else "not-a-source-initializer"
            out.violations.append(("initializer-extra", {"name": name, "why": kind}))
    if exp_inits:
        out.events.append("regions_with_initializers")
    # independence
    stats: Counter = Counter()
    shared = find_shared(result, env.src_ids, env.src_sub_ids, stats)
    out.events.append("identity_walks")
    if stats["recursive"]:
        out.events.append("identity_walks_result_with_sequence_or_optional_typed_value")
    if shared:
        out.violations.append(("shares-object", {"kind": shared[0][0], "role": shared[0][1], "all": sorted(set(shared))[:8]}))
    dang = _dangling_inputs(result)
    if dang:
        out.violations.append(("dangling-input", {"where": sorted(set(dang))}))
    if any(id(o) in in_ids for n in c.nodes for o in n.outputs):
        out.events.append("report_only_boundary_input_also_produced_in_region")
    # what the region needed (reach of the workload)
    reasons = set()
    for s in list(c.why.values()) + list(c.init_why.values()):
        reasons |= s
    caps = [r for r in reasons if r.startswith("capture")]
    if caps:
        out.events.append("regions_needing_capture")
        if any(int(r.split(":")[1]) >= 2 for r in caps):
            out.events.append("regions_needing_capture_depth>=2")
        if any("GRAPHS" in r.split(":")[2] for r in caps):
            out.events.append("regions_needing_capture_GRAPHS")
    if any(all(r.startswith("capture") for r in s) for s in c.init_why.values()):
        out.events.append("regions_with_initializer_needed_only_by_nested_body")
    if c.outer_inits:
        out.events.append("regions_needing_enclosing_initializer")
        out.events.append("regions_needing_" + _enclosing_class(c))
    if run_exec is not None and not out.violations:
        run_exec(out)
    return out


def _enclosing_class(c: OR.Closure) -> str | None:
    """How a region cut from a nested body needs initializers declared in an enclosing graph: not at all (None), only
    through inputs of its own nodes, or (also) only through a graph nested deeper."""
    if not c.outer_inits:
        return None
    if any(all(r.startswith("capture") for r in c.init_why[k]) for k in c.outer_inits):
        return "enclosing-initializer-needed-only-by-nested-body"
    return "enclosing-initializer"


def _missing_class(reasons: set[str]) -> str:
    if "output" in reasons:
        return "missing-producer-of-output"
    if "direct" in reasons:
        return "missing-producer-of-direct-input"
    cls = "missing-capture-of-nested-body"
    depths = [int(r.split(":")[1]) for r in reasons]
    kinds = {k for r in reasons for k in r.split(":")[2].split("+")}
    if min(depths) >= 2:
        cls += "|depth>=2"
    if kinds == {"GRAPHS"}:
        cls += "|GRAPHS"
    return cls


# =================================================================================================
# execution clause
# =================================================================================================
def get_source(env: Env, case: GE.Case, gl: OR.GraphLike, rng: random.Random, counts: Counter) -> CX.Source | None:
    """Instrumented source of the graph that owns the graph-like's values (built and run once)."""
    ref = gl.ref
    key = stable_hash([ref["root"], ref.get("path") or []])
    if key in env.sources:
        return env.sources[key]
    src = None
    try:
        src = CX.Source(case.proto, ref["root"], ref.get("path") or [])
        src.run(random.Random(f"{case.info['seed']}:c18:{key}"), 2, GE.EVALUATORS)
    except Exception as e:  # noqa: BLE001 - building/running the instrumented *source* is harness territory
        counts["exec_source_build_failed:" + type(e).__name__] += 1
        src = None
    if src is not None:
        if src.reason:
            counts["exec_source_not_executable:" + src.reason] += 1
        for e in GE.EVALUATORS:
            if src.ran(e):
                counts["exec_sources_run:" + e] += 1
            elif e in src.cannot:
                counts[f"exec_source_cannot_run:{src.cannot[e]}"] += 1
        if src.reason or not any(src.ran(e) for e in GE.EVALUATORS):
            src = None
    env.sources[key] = src
    return src


def exec_clause(env: Env, source: CX.Source, outs, result: ir.Graph, evaluators, events: list[str]):
    """None, or ('outputs-differ', info).  Evaluators that cannot run the region are counted."""
    sample = next(r for e in evaluators for r in source.recorded[e] if r is not None)
    try:
        p = CX.wrap_extracted(result, env.model, source, sample)
    except Exception as e:  # noqa: BLE001
        events.append("exec_region_not_serialisable:" + type(e).__name__)
        return None
    out_names = [v.name for v in outs]
    verdicts: dict[int, dict[str, str]] = {}
    for e in evaluators:
        idx = source.ran(e)
        if not idx:
            continue
        recs = [source.recorded[e][j] for j in idx]
        results = CX.run_extracted(p, e, recs)
        for j, rec, r in zip(idx, recs, results):
            if not r.ok:
                events.append(f"exec_region_cannot_run:{r.reason}")
                continue
            want = [rec[n] for n in out_names]
            d = GE.same_outputs(r.outputs, want)
            events.append("exec_compared")
            events.append("exec_compared:" + e)
            verdicts.setdefault(j, {})[e] = d or ""
    differ = [(j, e, d) for j, v in verdicts.items() for e, d in v.items() if d]
    if not differ:
        return None
    if any(not d for j, _e, _d in differ for d in verdicts[j].values()):
        events.append("report_only_evaluators_split")
        return None
    j, e, d = differ[0]
    return ("outputs-differ", {"evaluator": e, "input_set": j, "difference": d})


# =================================================================================================
# shrinking and reporting
# =================================================================================================
def _same_failure(o: Outcome, clause: str, exc) -> bool:
    """``exc`` is None or (raise site, class of enclosing initializers needed): a raise keeps both while it shrinks."""
    for cl, info in o.violations:
        if cl == clause and (exc is None or (info.get("exc"), info.get("enclosing")) == tuple(exc)):
            return True
    return False


def shrink_cut(judge, gl: OR.GraphLike, ins, outs, clause: str, exc: str | None, budget: int = 600):
    """Greedy minimal cut for the same clause (and raise site): every accepted step strictly decreases
    (#nodes of the brute-force region, #outputs, #inputs) - a single output, inputs dropped, the output moved
    upstream, the region cut down by promoting one of its values to a boundary input."""
    tests = 0

    def measure(i, o):
        return (len(OR.closure(gl, i, o).nodes), len(o), len(i))

    def fails(i, o, best):
        nonlocal tests
        if not o or measure(i, o) >= best:
            return False
        tests += 1
        if tests > budget:
            return False
        return _same_failure(judge(i, o), clause, exc)

    progress = True
    while progress and tests <= budget:
        progress = False
        best = measure(ins, outs)
        if len(outs) > 1:
            for v in outs:
                if fails(ins, [v], best):
                    outs, progress = [v], True
                    break
            if progress:
                continue
            for k in range(len(outs)):
                cand = outs[:k] + outs[k + 1:]
                if fails(ins, cand, best):
                    outs, progress = cand, True
                    break
            if progress:
                continue
        for k in range(len(ins)):
            cand = ins[:k] + ins[k + 1:]
            if fails(cand, outs, best):
                ins, progress = cand, True
                break
        if progress:
            continue
        c = OR.closure(gl, ins, outs)
        region_vals = [o for n in c.nodes for o in n.outputs if o.name]
        in_ids = {id(v) for v in ins}
        out_ids = {id(v) for v in outs}
        for v in region_vals:  # the output moved upstream
            if id(v) not in out_ids and fails(ins, [v], best):
                outs, progress = [v], True
                break
        if progress:
            continue
        for v in reversed(region_vals):  # an extra boundary input that cuts the region down
            if id(v) not in in_ids and id(v) not in out_ids and fails(ins + [v], outs, best):
                ins, progress = ins + [v], True
                break
    return ins, outs


def signature_of(gl: OR.GraphLike, clause: str, info: dict, c: OR.Closure, ins, outs) -> str:
    if clause == "uncovered-not-rejected":
        return "extract|uncovered-not-rejected|" + "+".join(info["classes"])
    if clause == "covered-but-raised":
        return f"extract|covered-but-raised|{info['exc']}|{cut_class(gl, c, ins, outs)}"
    if clause == "node-set":
        return "extract|node-set|" + "+".join(info["why"])
    if clause == "order":
        return "extract|order"
    if clause == "node-content":
        return "extract|node-content|" + info["field"]
    if clause in ("initializer-missing", "initializer-extra"):
        return f"extract|{clause}|{info['why']}"
    if clause == "shares-object":
        return f"extract|shares-object|{info['kind']}|{info['role']}"
    if clause == "outputs-differ":
        return "extract|outputs-differ|" + cut_class(gl, c, ins, outs)
    if clause == "dangling-input":
        return "extract|dangling-input|" + "+".join(info["where"])
    return "extract|" + clause


def describe_cut(gl: OR.GraphLike, ins, outs, in_by_name, out_by_name) -> str:
    def show(vs, flags):
        return "[" + ", ".join(("'" + v.name + "'") if b else ("<" + v.name + ">") for v, b in zip(vs, flags)) + "]"
    return f"extract({gl.kind} {gl.ref}, inputs={show(ins, in_by_name)}, outputs={show(outs, out_by_name)})  ('x' by name, <x> by object)"


def report(ctx, model_key: dict, env: Env, gl: OR.GraphLike, ins, outs, in_by_name, out_by_name, outcome: Outcome, make_judge,
           shrink_features=None) -> None:
    done: set[str] = set()
    for clause, info in outcome.violations:
        if clause in done:
            continue
        done.add(clause)
        exc = (info["exc"], info.get("enclosing")) if "exc" in info else None
        if clause == "covered-but-raised" and info.get("enclosing"):
            # raise site and class of the enclosing initializers are kept by the shrinker and make up the signature: an
            # occurrence of a signature this shard already reported (with a shrunk witness) is counted, not shrunk again
            early = f"extract|covered-but-raised|{info['exc']}|{info['enclosing']}"
            if any(v["signature"] == early for v in ctx.violations):
                ctx.count("raw:" + clause)
                ctx.count("violations_counted_without_shrinking_again")
                ctx.violation(early, "", None)
                continue
        name_mode_in = dict((id(v), b) for v, b in zip(ins, in_by_name))
        name_mode_out = dict((id(v), b) for v, b in zip(outs, out_by_name))
        default_mode = all(list(in_by_name) + list(out_by_name))  # values the shrinker adds are named like the rest

        def judge(i, o, _e=env, _g=gl, clause=clause):
            return make_judge(_e, _g, clause == "outputs-differ")(i, o, [name_mode_in.get(id(v), default_mode) for v in i],
                                      [name_mode_out.get(id(v), default_mode) for v in o])

        s_ins, s_outs = shrink_cut(judge, gl, list(ins), list(outs), clause, exc)
        final = judge(s_ins, s_outs)
        sinfo = next((i2 for c2, i2 in final.violations
                      if c2 == clause and (exc is None or (i2.get("exc"), i2.get("enclosing")) == exc)), info)
        sig = signature_of(gl, clause, sinfo, final.closure, s_ins, s_outs)
        s_in_flags = [name_mode_in.get(id(v), default_mode) for v in s_ins]
        s_out_flags = [name_mode_out.get(id(v), default_mode) for v in s_outs]
        replay = dict(model_key, task="extract", gl=gl.ref, inputs=[v.name for v in s_ins], outputs=[v.name for v in s_outs],
                      in_by_name=s_in_flags, out_by_name=s_out_flags, clause=clause, signature=sig)
        if shrink_features is not None and not any(v["signature"] == sig for v in ctx.violations):
            smaller = shrink_features(replay)
            if smaller is not None:
                replay = smaller
        region = [(n.op_type, [o.name for o in n.outputs]) for n in final.closure.nodes][:12]
        msg = (f"{clause}: {describe_cut(gl, s_ins, s_outs, s_in_flags, s_out_flags)}\n  details: {sinfo}\n"
               f"  features of the shrunk cut: {cut_features(gl, final.closure, s_ins, s_outs)}\n"
               f"  brute-force region (original order): {region}; initializers needed: {sorted(v.name for v in final.closure.inits.values())}; "
               f"uncovered: {sorted(v.name for v in final.closure.uncovered.values())}\n"
               f"  outcome: {'raised ' + repr(_root_exception(final.raised))[:300] if final.raised is not None else 'returned a graph'}\n"
               f"  model: {model_key if 'features' not in replay else {k: replay[k] for k in ('kind', 'seed', 'size', 'features')}}")
        ctx.count("raw:" + clause)
        ctx.violation(sig, msg, replay)


# =================================================================================================
# capture analysis
# =================================================================================================
def _graph_at(model: ir.Model, root: list, path: list):
    obj = _root_obj(model, root)
    obj = obj.graph if isinstance(obj, ir.Function) else obj
    for i, name, j in path:
        attr = list(obj)[i].attributes[name]
        obj = attr.value if attr.type == ir.AttributeType.GRAPH else attr.value[j]
    return obj


def _used_only_below_shared(scope: OR.Scope, vid: int, occurrences: Counter) -> bool:
    """Every use of the value below ``scope`` lies in (or below) a Graph object that several attributes reference."""
    def clean_use(sc: OR.Scope) -> bool:  # a use reachable from sc without passing through a shared Graph object
        if vid in sc.used:
            return True
        return any(occurrences[id(c.graph)] <= 1 and clean_use(c) for c in sc.children)
    return not clean_use(scope)


def check_implicit(ctx, model_key: dict, root_ref: list, root_graph, counts: Counter, path: list | None = None,
                   fire_to=None) -> bool:
    """Judge analyze_implicit_usage(root_graph).  Returns True when some capture is used deeper than its graph.
    ``path`` (non-empty) = the analysed graph is itself nested below ``root_ref``; values defined above it are then
    outer-scope values of every graph below it like any other."""
    exp, tree = OR.brute_force_implicit_usage(root_graph)
    path = path or []
    if tree.captured and not path:
        counts["report_only_root_uses_undefined_values"] += 1
        return False
    root_class = "root=nested-graph" if path else "root=top-level"
    counts["implicit_" + root_class] += 1
    # well scoped: every value used in a graph is defined in it or in an enclosing graph of the tree
    if any(s.outer_outputs for s in tree.walk() if s.parent is not None):
        counts["report_only_nested_graph_returns_outer_value"] += 1
    replay = dict(model_key, task="implicit", root=root_ref, path=path)

    def fire(sig, msg):
        if fire_to is not None:  # a call inside a history: the history reports (and shrinks) it
            fire_to(sig, f"analyze_implicit_usage({root_ref}{' nested graph at ' + str(path) if path else ''}): {msg}")
            return
        ctx.count("raw:implicit")
        ctx.violation(sig, f"analyze_implicit_usage({root_ref}{' nested graph at ' + str(path) if path else ''}): {msg}\n"
                           f"  model: {model_key}", replay)

    try:
        got = analyze_implicit_usage(root_graph)
    except Exception as e:  # noqa: BLE001 - the analysis has no documented failure mode on a well-scoped graph
        outer = sorted({str(v.name) for c in tree.children for k, (v, _d, _k) in c.captured.items() if k not in tree.defined})
        text = " ".join(repr(_root_exception(e)).split())[:160]
        fire(f"implicit-usage|raised|{_site(e)}|{root_class}",
             f"raised {text}; values used in graphs nested below the analysed graph that are defined above it: {outer}")
        return False
    counts["implicit_roots_checked"] += 1
    if not isinstance(got, dict):
        fire("implicit-usage|not-a-mapping", f"returned {type(got).__name__}")
        return False
    got_by_id = {id(g): (g, vals) for g, vals in got.items()}
    deeper = False
    for gid, (g, vals) in got_by_id.items():
        if gid not in exp:
            which = "root" if g is root_graph else "not-a-nested-graph"
            fire("implicit-usage|extra-graph|" + which, f"key {g.name!r} is not a graph nested in the root")
    # Graph objects referenced from more than one attribute (reach of the workload)
    holders: dict[int, set[int]] = {}
    for sc in tree.walk():
        if sc.parent is not None:
            holders.setdefault(id(sc.graph), set()).add(id(sc.parent.graph))
    occurrences = Counter(id(sc.graph) for sc in tree.walk() if sc.parent is not None)
    for gid, (g, captured, scope) in exp.items():
        if occurrences[gid] > 1:
            counts["implicit_shared_graph_objects"] += 1
            if len(holders[gid]) > 1:
                counts["implicit_shared_graph_objects_held_by_different_graphs"] += 1
                if captured:
                    counts["implicit_shared_capturing_graph_objects_held_by_different_graphs"] += 1
    for gid, (g, captured, scope) in exp.items():
        counts["implicit_nested_graphs_checked"] += 1
        counts[f"implicit_nested_depth:{min(scope.depth, 3)}"] += 1
        counts["implicit_nested_via:" + scope.via[2]] += 1
        if captured:
            counts["implicit_nonempty"] += 1
        if any(d >= 1 for _v, d, _k in captured.values()):
            counts["implicit_captures_used_deeper"] += 1
            deeper = True
        if gid not in got_by_id:
            fire(f"implicit-usage|graph-absent|{'captures' if captured else 'no-captures'}|{scope.via[2]}",
                 f"nested graph {g.name!r} at {scope.path()} (depth {scope.depth}) is not a key of the result; it captures "
                 f"{sorted(v.name for v, _d, _k in captured.values())}")
            continue
        vals = got_by_id[gid][1]
        try:
            got_ids = {id(v): v for v in vals}
        except TypeError:
            fire("implicit-usage|not-a-collection", f"value for {g.name!r} is {type(vals).__name__}")
            continue
        if len(got_ids) != len(list(vals)):
            fire("implicit-usage|duplicates", f"{g.name!r}: a value is reported twice")
        missing = [captured[k] for k in captured if k not in got_ids]
        extra = [v for k, v in got_ids.items() if k not in captured]
        if missing:
            cls = "used-in-graph" if any(d == 0 for _v, d, _k in missing) else "used-deeper"
            if cls == "used-deeper" and all(_used_only_below_shared(scope, id(v), occurrences) for v, _d, _k in missing):
                cls += "|only-below-a-graph-object-referenced-twice"
            fire("implicit-usage|missing|" + cls,
                 f"nested graph {g.name!r} at {scope.path()}: missing {[(v.name, 'use depth below graph', d) for v, d, _k in missing]}; "
                 f"expected {sorted(v.name for v, _d, _k in captured.values())}, got {sorted(str(v.name) for v in got_ids.values())}")
        if extra:
            classes = sorted({("own-value" if id(v) in scope.sub_defined else ("unused-outer-value" if id(v) not in scope.sub_used else "?"))
                              for v in extra})
            fire("implicit-usage|extra|" + "+".join(classes),
                 f"nested graph {g.name!r} at {scope.path()}: extra {[str(v.name) for v in extra]}; expected "
                 f"{sorted(v.name for v, _d, _k in captured.values())}")
    # the same analysis rooted at nested graphs that have nested graphs of their own
    if not path:
        for sc in [x for x in tree.walk() if x.parent is not None and x.children][:3]:
            check_implicit(ctx, model_key, root_ref, sc.graph, counts, sc.path(), fire_to)
    return deeper


# =================================================================================================
# models
# =================================================================================================
class _NestingIRGen(GI.IRGen):
    """gen_ir with a denser nesting: the generator asks ``maybe(0.22)`` exactly when it decides whether a node
    gets a GRAPH/GRAPHS attribute."""

    def maybe(self, p) -> bool:
        return super().maybe(0.5 if p == 0.22 else p)


def _all_value_names(model: ir.Model) -> set[str]:
    return {o.name for kind, o in OR.collect_objects([model.graph, *model.functions.values()], follow_links=False).values()
            if kind == "Value" and o.name}


def share_subgraphs(model: ir.Model, rng: random.Random, times: int) -> list[dict]:
    """Reference nested Graph OBJECTS from a second place (the IR lets several attributes hold the same Graph; the
    repository's own tests do it for the two branches of an If).  A nested graph S is referenced again from an
    attribute of a node of another graph Q of the same root - the graph that holds S, a sibling nested graph, a graph
    nested deeper or an enclosing one - chosen so that the model stays well scoped: every value S (or a graph below it)
    captures is defined in Q or a graph enclosing Q, before the node through which Q is reached, and Q is not S or
    nested in S.  The attribute goes on a new node appended to Q or on an existing node of Q (GRAPH, or GRAPHS
    holding S once or twice).  Returns a description of what was shared."""
    done: list[dict] = []
    names = _all_value_names(model)
    counter = 0
    for _ in range(times):
        root = rng.choice(_roots(model))
        obj = _root_obj(model, root)
        tree = OR.Scope(obj.graph if isinstance(obj, ir.Function) else obj, None, None)
        scopes = list(tree.walk())
        nested = [x for x in scopes if x.parent is not None]
        if not nested:
            continue
        capturing = [x for x in nested if x.captured]
        src = rng.choice(capturing) if capturing and rng.random() < 0.8 else rng.choice(nested)

        def chain(x):
            out = []
            while x is not None:
                out.append(x)
                x = x.parent
            return out  # x, parent, ..., root

        below_src = {id(x.graph) for x in src.walk()}

        def admits(q) -> bool:
            ch = chain(q)
            if id(q.graph) in below_src:
                return False  # Q is S or (some occurrence of the Graph object Q) lies below S: the reference would close a cycle
            need = set(src.captured)
            below = None  # the scope through which the walk came up
            for a in ch:
                pos = {id(o): i for i, n in enumerate(a.nodes) for o in n.outputs}
                limit = len(a.nodes) if below is None else below.via[0]
                for k in list(need):
                    if k in a.defined:
                        if k in pos and pos[k] >= limit:
                            return False  # produced after the node through which Q is reached
                        need.discard(k)
                below = a
            return not need

        # a Graph object that is itself referenced from several places gets the new reference in all of them
        cands = [q for q in scopes if all(admits(o) for o in scopes if o.graph is q.graph)]
        if not cands:
            continue
        elsewhere = [q for q in cands if all(a is not q for a in chain(src.parent))]  # not the holder of S nor above it
        q = rng.choice(elsewhere) if elsewhere and rng.random() < 0.7 else rng.choice(cands)
        counter += 1
        attr_name = f"shared_{counter}"
        form = rng.choice(["GRAPH", "GRAPH", "GRAPH", "GRAPHS", "GRAPHS", "GRAPHS-twice"])
        if form == "GRAPH":
            attr = ir.AttrGraph(attr_name, src.graph)
        else:
            attr = ir.AttrGraphs(attr_name, [src.graph] * (2 if form == "GRAPHS-twice" else 1))
        place = "new-node"
        if q.nodes and rng.random() < 0.4:
            # only a node behind everything S captures from Q keeps Q sorted
            pos = {id(o): i for i, n in enumerate(q.nodes) for o in n.outputs}
            first = max([pos[k] + 1 for k in src.captured if k in pos], default=0)
            idx = [i for i in range(first, len(q.nodes))]
            if idx:
                node = q.nodes[rng.choice(idx)]
                node.attributes[attr_name] = attr
                place = "existing-node"
        if place == "new-node":
            while f"shr{counter}" in names:
                counter += 1
            names.add(f"shr{counter}")
            node = ir.Node("", rng.choice(["If", "Loop", "SharedUser"]), [], [attr], outputs=[ir.Value(name=f"shr{counter}")])
            q.graph.append(node)
        rel = ("same-graph" if q is src.parent else "enclosing" if any(a is q for a in chain(src.parent))
               else "nested-below-holder" if any(a is src.parent for a in chain(q)) else "other-branch")
        done.append({"root": root, "shared": src.path(), "into": q.path(), "relation": rel, "form": form, "place": place,
                     "captures": len(src.captured)})
    return done


def build_model(key: dict):
    """(model, case-or-None) from a JSON-able model key.  Deterministic."""
    if key["kind"] == "exec":
        model, info = GE.model_from_seed(key["seed"], key["size"], key["features"])
        case, reason = GE.admit(model, info, random.Random(f"{key['seed']}:inputs"), 2)
        return model, case, reason
    rng = random.Random("C18:ir:" + key["gen_key"])
    gen = _NestingIRGen(rng, max_depth=key.get("max_depth", 3), with_functions=True, with_meta=False)
    model = gen.model()
    GI.uniquify_names(model)
    if key.get("share"):
        share_subgraphs(model, random.Random("C18:share:" + key["gen_key"]), int(key["share"]))
    return model, None, "structural"


def draw_model_key(ctx, case_id: int, rng: random.Random) -> dict:
    r = rng.random()
    if r < 0.35:
        feats = sorted(rng.sample(SMALL_FEATURES, rng.choice([0, 1, 1, 2, 2, 3])))
        return {"kind": "exec", "flavour": "small", "seed": rng.getrandbits(48), "size": rng.choice([0, 0, 1, 1, 2]), "features": feats}
    if r < 0.75:
        seed = rng.getrandbits(48)
        feats = sorted(GE.choose_features(random.Random(f"{seed}:features")))
        return {"kind": "exec", "flavour": "big", "seed": seed, "size": rng.choice([2, 3, 5, 8]), "features": feats}
    # 'share': how many times a nested Graph object is referenced from a second attribute somewhere else in its root
    return {"kind": "ir", "gen_key": f"{ctx.seed}:{case_id}", "max_depth": rng.choice([2, 3, 3]), "share": rng.choice([0, 0, 1, 2, 3])}


def graphlike_refs(model: ir.Model, rng: random.Random, flavour: str) -> list[dict]:
    """Locators of the graph-likes one model is cut on."""
    refs: list[dict] = []
    for root in _roots(model):
        obj = _root_obj(model, root)
        refs.append({"root": root, "path": [], "view": None})
        refs.append({"root": root, "path": [], "view": "full"})
        base = OR.GraphLike(obj, "graph", {})
        # a view of a sub-region: a covered random cut of the root
        for _ in range(3):
            if not base.values:
                break
            ins, outs, _s = random_cut(base, rng)
            c = OR.closure(base, ins, outs)
            if c.covered and c.sorted_ok and len(c.nodes) >= 2:
                refs.append({"root": root, "path": [], "view": {"inputs": [v.name for v in ins], "outputs": [v.name for v in outs]}})
                break
        nested = [s for s in base.scope.walk() if s.parent is not None and s.nodes]
        free_nested = [s for s in nested if not s.captured]
        capt_nested = [s for s in nested if s.captured]
        for s in free_nested[:3]:
            refs.append({"root": root, "path": s.path(), "view": None})
        for s in rng.sample(capt_nested, min(len(capt_nested), 2)):
            refs.append({"root": root, "path": s.path(), "view": None})
    return refs


# =================================================================================================
# histories: extract -> edit the same objects in place -> extract again
# =================================================================================================
def history_key(key: dict) -> dict:
    """Model key of the model a history runs on (structural models without shared Graph objects: an edit inside a graph
    that is reachable on two paths would have to be well scoped on both)."""
    return dict(key, share=0) if key["kind"] == "ir" else dict(key)


def build_history_model(hkey: dict) -> ir.Model:
    """A FRESH model (never cut before), so that a recorded history is self-contained."""
    if hkey["kind"] == "exec":
        return GE.model_from_seed(hkey["seed"], hkey["size"], hkey["features"])[0]
    return build_model(hkey)[0]


def clause_detail(clause: str, info: dict) -> str:
    """The part of a violation that names the mechanism independently of the cut it was seen on."""
    if clause == "uncovered-not-rejected":
        return "+".join(info["classes"])
    if clause == "covered-but-raised":
        return info["exc"]
    if clause == "node-set":
        return "+".join(info["why"])
    if clause == "node-content":
        return info["field"]
    if clause in ("initializer-missing", "initializer-extra"):
        return info["why"]
    if clause == "shares-object":
        return f"{info['kind']}|{info['role']}"
    if clause == "dangling-input":
        return "+".join(info["where"])
    return ""


def _resolve_cut_step(model: ir.Model, step: dict):
    try:
        gl = resolve_gl(model, step["gl"])
    except (IndexError, KeyError, AttributeError, TypeError):
        return None
    if gl is None:
        return None
    try:
        return gl, [gl.by_name[n] for n in step["inputs"]], [gl.by_name[n] for n in step["outputs"]]
    except KeyError:
        return None


def _edited_source(model: ir.Model, seed, gl: OR.GraphLike, counts: Counter):
    """(env, source-or-None) for the CURRENT state of an executable model: the edited model is serialised, must
    still pass the checker, and is instrumented and run like the pristine one."""
    env = Env(model, True)
    try:
        proto = ir.to_proto(model)
    except Exception as e:  # noqa: BLE001 - serialisation is not this property's subject
        counts["edited_model_not_serialisable:" + type(e).__name__] += 1
        return env, None
    msg = GE.check(proto)
    if msg is not None:
        counts["edited_model_rejected_by_checker:" + GE.checker_class(msg)] += 1
        return env, None
    counts["edited_models_checker_ok"] += 1
    fake = types.SimpleNamespace(proto=proto, info={"seed": seed})
    return env, get_source(env, fake, gl, random.Random(0), counts)


def _exec_runner(env: Env, source, outs, events: list[str], ort: bool = True):
    evs = [e for e in GE.EVALUATORS if source.ran(e)]
    if not ort and "ref" in evs:
        evs = ["ref"]  # onnxruntime sessions are the expensive part: a bounded number per history

    def run_exec(o):
        v = exec_clause(env, source, outs, o.result, evs, events)
        if v is not None:
            o.violations.append(v)
    return run_exec


def replay_steps(hkey: dict, steps: list[dict], typed: bool) -> ir.Model:
    """A fresh model taken through the recorded history: earlier extract / analysis calls are only MADE (they are what may
    leave state behind), edits are applied where their preconditions hold."""
    model = build_history_model(hkey)
    for st in steps:
        if st["t"] == "edit":
            ED.apply(model, st["edit"], typed)
        elif st["t"] == "implicit":
            try:
                obj = _root_obj(model, st["root"])
                analyze_implicit_usage(obj.graph if isinstance(obj, ir.Function) else obj)
            except Exception:  # noqa: BLE001 - judged when it was made; here it only has to have been called
                pass
        else:
            r = _resolve_cut_step(model, st)
            if r is None:
                continue
            gl, ins, outs = r
            try:
                extract(gl.obj, inputs=[v.name if b else v for v, b in zip(ins, st["in_by_name"])],
                        outputs=[v.name if b else v for v, b in zip(outs, st["out_by_name"])])
            except Exception:  # noqa: BLE001
                pass
    return model


def replay_history(hkey: dict, steps: list[dict], final: dict, typed: bool):
    """The history on a fresh model, the final call judged.  For a final cut: (outcome, gl, ins, outs, env) or None when
    the cut cannot be named any more; for a final capture analysis: the list of (signature, message) it fires."""
    model = replay_steps(hkey, steps, typed)
    if final.get("t") == "implicit":
        try:
            obj = _root_obj(model, final["root"])
        except IndexError:
            return []
        fired: list[tuple[str, str]] = []
        check_implicit(None, hkey, final["root"], obj.graph if isinstance(obj, ir.Function) else obj, Counter(),
                       fire_to=lambda sig, msg: fired.append((sig, msg)))
        return fired
    r = _resolve_cut_step(model, final)
    if r is None:
        return None
    gl, ins, outs = r
    run_exec = None
    if final.get("exec") and typed:
        env, source = _edited_source(model, hkey["seed"], gl, Counter())
        if source is not None:
            run_exec = _exec_runner(env, source, outs, [], ort=bool(final.get("ort", True)))
    else:
        env = Env(model, False)
    return judge_cut(env, gl, ins, outs, final["in_by_name"], final["out_by_name"], run_exec=run_exec), gl, ins, outs, env


def _describe_steps(steps: list[dict]) -> str:
    out = []
    for st in steps:
        if st["t"] == "edit":
            out.append(f"edit {st['kind']}: { {k: v for k, v in st['edit'].items() if k != 'expect'} }")
        elif st["t"] == "implicit":
            out.append(f"analyze_implicit_usage({st['root']})")
        else:
            out.append(f"extract(gl={st['gl']}, inputs={st['inputs']}, outputs={st['outputs']})")
    return "; ".join(out)


def shrink_history(steps: list[dict], fails, prefix: str, base: str):
    """(minimal history, signature or None).  ddmin over the earlier calls and edits, each test on a fresh model.  The
    mechanism: needs an earlier call AND a later edit -> state left behind by a call did not follow the edit; needs only
    edits -> wrong on a model the public editing API produces; needs only earlier calls -> depends on an earlier call;
    needs nothing (None) -> an ordinary failure on the pristine model."""
    if not fails(steps):
        # seen on the live objects, not reproduced by the recorded calls on a fresh model: something outside the
        # history (an earlier model of this process) is needed
        return steps, f"{prefix}|needs-state-from-earlier-models|{base}"
    if fails([]):
        return [], None
    small = ddmin(steps, fails, max_tests=150)
    first_call = next((i for i, st in enumerate(small) if st["t"] != "edit"), None)
    all_kinds = "+".join(sorted({st["kind"] for st in small if st["t"] == "edit"}))
    if first_call is None:
        return small, f"{prefix}|{base}|on-edited-model|{all_kinds}"
    # the edits made AFTER the first call that is needed are what the state left behind did not follow
    after = "+".join(sorted({st["kind"] for st in small[first_call:] if st["t"] == "edit"}))
    if after:
        return small, f"{prefix}|stale-after-edit|{base}|{after}"
    return small, f"{prefix}|depends-on-earlier-call|{base}" + (f"|on-edited-model|{all_kinds}" if all_kinds else "")


def _last_edit(steps: list[dict]):
    return next((st["kind"] for st in reversed(steps) if st["t"] == "edit"), None)


def report_history(ctx, hkey: dict, typed: bool, steps: list[dict], final: dict, outcome: Outcome, state: dict) -> None:
    """A judged cut of a history violated a clause: shrink the history and name the mechanism (see shrink_history)."""
    reported: dict = state["hist_reported"]
    done: set[str] = set()
    for clause, info in outcome.violations:
        if clause in done:
            continue
        done.add(clause)
        detail = clause_detail(clause, info)
        pre = (clause, detail, _last_edit(steps))
        ctx.count("raw:history:" + clause)
        if pre in reported:
            ctx.count("violations_counted_without_shrinking_again")
            ctx.violation(reported[pre], "", None)
            continue

        def fails(sub, clause=clause, detail=detail):
            got = replay_history(hkey, sub, final, typed)
            return got is not None and any(c == clause and clause_detail(c, i) == detail for c, i in got[0].violations)

        base = "|".join(x for x in (clause, detail) if x)
        small, sig = shrink_history(steps, fails, "extract", base)
        if sig is None:
            # no history needed: an ordinary extraction failure on the pristine model - the ordinary report names it
            o2, gl, ins, outs, env = replay_history(hkey, [], final, typed)

            def make_judge(e, g, with_exec=False):
                return lambda i, o, fi, fo: judge_cut(e, g, i, o, fi, fo)
            n0 = len(ctx.violations)
            report(ctx, hkey, env, gl, ins, outs, final["in_by_name"], final["out_by_name"], o2, make_judge)
            reported[pre] = ctx.violations[-1]["signature"] if len(ctx.violations) > n0 else "extract|" + base
            continue
        reported[pre] = sig
        replay = dict(hkey, task="history", steps=small, final=final, clause=clause, detail=detail, signature=sig)
        msg = (f"{clause} ({detail}) at the LAST call of: {_describe_steps(small + [dict(final, t='cut')])}\n  details: {info}\n"
               f"  every call is made on the same model objects; the oracle recomputes the region from the containers as they are at the last call\n"
               f"  model: { {k: v for k, v in hkey.items() if k != 'features'} }")
        ctx.violation(sig, msg, replay)


def report_history_implicit(ctx, hkey: dict, typed: bool, steps: list[dict], final: dict, fired: list, state: dict) -> None:
    """A judged capture analysis of a history fired: shrink the history and name the mechanism."""
    reported: dict = state["hist_reported"]
    for sig0, msg0 in dict(fired).items():
        pre = ("implicit", sig0, _last_edit(steps))
        ctx.count("raw:history:implicit")
        if pre in reported:
            ctx.count("violations_counted_without_shrinking_again")
            ctx.violation(reported[pre], "", None)
            continue

        def fails(sub, sig0=sig0):
            return any(s2 == sig0 for s2, _m in replay_history(hkey, sub, final, typed))

        base = sig0.split("|", 1)[1] if "|" in sig0 else sig0
        small, sig = shrink_history(steps, fails, "implicit-usage", base)
        if sig is None:
            sig = sig0
            replay = dict(hkey, task="implicit", root=final["root"], path=[])
        else:
            replay = dict(hkey, task="history", steps=small, final=final, clause="implicit", detail=sig0, signature=sig)
        reported[pre] = sig
        ctx.violation(sig, f"{msg0}\n  at the LAST call of: {_describe_steps(small + [final])}\n"
                           f"  every call is made on the same model objects; the oracle recomputes the captures from the containers as "
                           f"they are at the last call\n  model: { {k: v for k, v in hkey.items() if k != 'features'} }", replay)


def _cuts_holding(gl: OR.GraphLike, rng: random.Random, target: int | None, want: int) -> list:
    """Up to ``want`` cuts of ``gl``, preferring covered cuts whose region contains node ``target``."""
    tnode = gl.nodes[target] if target is not None and 0 <= target < len(gl.nodes) else None
    good, other = [], []
    for _ in range(8):
        ins, outs, strategy = random_cut(gl, rng)
        c = OR.closure(gl, ins, outs)
        holds = tnode is not None and any(n is tnode for n in c.nodes)
        (good if holds and c.covered else other).append((ins, outs, holds))
        if len(good) >= want:
            break
    if len(good) < want and tnode is not None:
        outs = [o for o in tnode.outputs if o.name][:1]
        if outs:
            ins = [v for v in OR.closure(gl, [], outs).uncovered.values() if v.name and id(v) in gl.top_defined]
            good.append((ins, outs, True))
    other.sort(key=lambda t: not t[2])
    return (good + other)[:want]


def run_history(ctx, key: dict, case, rng: random.Random, state: dict) -> None:
    counts: Counter = state["counts"]
    params = ctx.params
    hkey = history_key(key)
    typed = key["kind"] == "exec"
    model = build_history_model(hkey)
    steps: list[dict] = []
    hc: Counter = Counter()
    nontrivial = False

    def judge(gl, env, ins, outs, in_f, out_f, phase, run_exec=None, exec_flag=False, ort=True) -> bool:
        """Judge one call of the history, record it; True when it was a violation (reported)."""
        final = {"gl": gl.ref, "inputs": [v.name for v in ins], "outputs": [v.name for v in outs],
                 "in_by_name": list(in_f), "out_by_name": list(out_f), "exec": exec_flag, "ort": ort}
        outcome = judge_cut(env, gl, ins, outs, in_f, out_f, run_exec=run_exec)
        if outcome.judged:
            hc["cuts_judged"] += 1
            hc["cuts_judged:" + phase] += 1
            hc["cuts_" + ("covered" if outcome.closure.covered else "uncovered") + ":" + phase] += 1
            if "regions_needing_capture" in outcome.events:
                hc["regions_needing_capture:" + phase] += 1
        else:
            hc["cuts_report_only"] += 1
        if outcome.violations:
            report_history(ctx, hkey, typed, list(steps), final, outcome, state)
            return True
        steps.append(dict(final, t="cut"))
        return False

    def analyse(root, phase) -> bool:
        """Judge one capture analysis of the history, record it; True when it fired (reported)."""
        obj = _root_obj(model, root)
        fired: list[tuple[str, str]] = []
        ic: Counter = Counter()
        check_implicit(ctx, hkey, root, obj.graph if isinstance(obj, ir.Function) else obj, ic,
                       fire_to=lambda sig, msg: fired.append((sig, msg)))
        hc["analyses:" + phase] += ic["implicit_roots_checked"]
        hc["analysed_nested_graphs:" + phase] += ic["implicit_nested_graphs_checked"]
        final = {"t": "implicit", "root": root}
        if fired:
            report_history_implicit(ctx, hkey, typed, list(steps), final, fired, state)
            return True
        steps.append(final)
        return False

    def flags_for(gl, ins, outs):
        in_f, out_f, _mode = draw_modes(gl, rng, ins, outs)
        return in_f, out_f

    broken = False
    for _e in range(int(params.get("history_edits", 6))):
        if ctx.out_of_time():
            break
        desc = ED.propose(model, rng, typed)
        if desc is None:
            hc["no_applicable_edit"] += 1
            break
        path = desc.get("path") or []
        depths = [d for d in range(len(path) + 1) if ED.touched_index(desc, d) is not None] or [0]
        d = rng.choice(depths + [0, len(path)] if len(path) in depths else depths + [0])
        ref = {"root": desc["root"], "path": [list(x) for x in path[:d]], "view": "full" if d == 0 and rng.random() < 0.2 else None}
        gl = resolve_gl(model, ref)
        if gl is None or not gl.values:
            continue
        target = ED.touched_index(desc, d)
        graph_obj = gl.obj if d > 0 else None
        env = Env(model, False)
        # --- call A: before the edit ---------------------------------------------------------------------------
        chosen = []
        for ins, outs, holds in _cuts_holding(gl, rng, target, int(params.get("history_cuts", 2))):
            in_f, out_f = flags_for(gl, ins, outs)
            if holds:
                hc["cuts_before_edit_whose_region_holds_the_edit_site"] += 1
            if judge(gl, env, ins, outs, in_f, out_f, "before-edit"):
                broken = True
                break
            chosen.append((ins, outs, dict((id(v), b) for v, b in zip(ins, in_f)), dict((id(v), b) for v, b in zip(outs, out_f)), holds))
        if broken or analyse(desc["root"], "before-edit"):
            broken = True
            break
        # --- the edit ----------------------------------------------------------------------------------------------
        cap_before = {id(sc.graph): set(sc.captured) for sc in ED.tree_of(model, desc["root"]).walk() if sc.parent is not None}
        kind, exc = ED.apply(model, desc, typed)
        if kind is None:
            hc["edit_refused:" + desc["op"] + ":" + str(exc)] += 1
            continue
        steps.append({"t": "edit", "edit": desc, "kind": kind})
        hc["edits_applied"] += 1
        hc["edit:" + kind] += 1
        tree = ED.tree_of(model, desc["root"])
        cap_after = {id(sc.graph): set(sc.captured) for sc in tree.walk() if sc.parent is not None}
        changed = any(cap_before.get(k) != v for k, v in cap_after.items()) or set(cap_before) != set(cap_after)
        if changed:
            hc["edits_changing_what_a_nested_graph_captures"] += 1
        # --- call B: the same cut on the same (edited) objects -------------------------------------------------------
        if graph_obj is not None:
            p2 = ED.path_of_graph(tree, graph_obj)
            if p2 is None:
                hc["graph_cut_before_is_gone_after_edit"] += 1
                chosen = []
            else:
                ref = dict(ref, path=p2)
        gl = resolve_gl(model, ref) if chosen else None
        env = Env(model, False)
        live = {id(v) for v in gl.values} if gl is not None else set()
        for ins, outs, fi, fo, holds in chosen if gl is not None else []:
            if any(id(v) not in live for v in outs):
                hc["recut_skipped_output_gone"] += 1
                continue
            ins = [v for v in ins if id(v) in live]
            hc["recuts_same_cut_after_edit"] += 1
            if holds:
                hc["recuts_whose_region_held_the_edit_site"] += 1
                if changed:
                    hc["recuts_after_capture_change_in_region"] += 1
                    nontrivial = True
            if judge(gl, env, ins, outs, [fi[id(v)] for v in ins], [fo[id(v)] for v in outs], "after-edit"):
                broken = True
                break
        if broken or analyse(desc["root"], "after-edit"):
            broken = True
            break
        if changed:
            hc["analyses_after_capture_change"] += 1
        # one more cut of the edited root, drawn on the edited graph
        gl2 = resolve_gl(model, {"root": desc["root"], "path": [], "view": None})
        if gl2 is not None and gl2.values:
            ins, outs, _s = random_cut(gl2, rng)
            in_f, out_f = flags_for(gl2, ins, outs)
            if judge(gl2, env, ins, outs, in_f, out_f, "after-edit"):
                broken = True
                break
    # --- the edited model still computes what its regions compute -------------------------------------------------------
    if typed and not broken and hc["edits_applied"] and not ctx.out_of_time():
        for root in _roots(model)[:2]:
            gl = resolve_gl(model, {"root": root, "path": [], "view": None})
            if gl is None or not gl.values:
                continue
            env, source = _edited_source(model, hkey["seed"], gl, hc)
            if source is None:
                continue
            ort_left = int(params.get("history_ort_cuts", 2))
            for _ in range(int(params.get("history_exec_cuts", 6))):
                ins, outs, _s = random_cut(gl, rng)
                in_f, out_f = flags_for(gl, ins, outs)
                events: list[str] = []
                bad = judge(gl, env, ins, outs, in_f, out_f, "edited-model-executed",
                            run_exec=_exec_runner(env, source, outs, events, ort=ort_left > 0), exec_flag=True, ort=ort_left > 0)
                for ev in events:
                    hc[ev] += 1
                if "exec_compared:ort" in events:
                    ort_left -= 1
                if bad:
                    broken = True
                    break
            if broken:
                break
    hc["histories"] += 1
    for k, v in hc.items():
        counts["history_" + k] += v
    ctx.evaluation(key=stable_hash([key, "history"]), nontrivial=nontrivial)


# =================================================================================================
# run
# =================================================================================================
def _quiet() -> None:
    logging.getLogger("onnx_ir").setLevel(logging.CRITICAL)
    logging.disable(logging.WARNING)
    warnings.simplefilter("ignore")


def make_structural_judge(env: Env, gl: OR.GraphLike):
    return lambda i, o, fi, fo: judge_cut(env, gl, i, o, fi, fo)


def run_graphlike(ctx, key: dict, env: Env, case, gl: OR.GraphLike, rng: random.Random, state: dict) -> None:
    counts = state["counts"]
    params = ctx.params
    counts["graphlikes:" + gl.kind] += 1
    n = len(gl.values)
    if n == 0:
        counts["graphlikes_without_named_values"] += 1
        return
    capturing_nested = gl.kind == "nested" and bool(gl.free)
    # --- which cuts -----------------------------------------------------------------------------------
    # all cuts: 2^n * (2^n - 1); a per-shard credit (a count, not a time) keeps 5..7-value graphs from eating the shard
    n_all = (1 << n) * ((1 << n) - 1) if n <= EXHAUSTIVE_MAX_VALUES else 0
    exhaustive = (0 < n_all and (not capturing_nested or n <= 4) and not gl.ambiguous_names
                  and (gl.kind in ("graph", "function", "nested") or n <= 4)
                  and (n <= 4 or n_all <= state["exhaustive_left"] or (n == EXHAUSTIVE_MAX_VALUES and state["free7"] > 0)))
    if exhaustive:
        if n > 4 and n_all <= state["exhaustive_left"]:
            state["exhaustive_left"] -= n_all
        elif n > 4:
            state["free7"] -= 1  # a few 7-value graph-likes per shard are enumerated whatever the credit says
        cuts = [(i, o, "all") for i, o in all_cuts(gl)]
        counts["exhaustive_graphlikes"] += 1
        counts[f"exhaustive_graphlikes:values={n}"] += 1
        counts["exhaustive_cuts"] += len(cuts)
    else:
        k = int(params.get("cuts_capturing_nested", 16)) if capturing_nested else int(params.get("cuts_big", 26))
        if gl.kind in ("view", "subview"):
            k = max(8, k // 2)
        cuts = [random_cut(gl, rng) for _ in range(k)]
    # --- execution source --------------------------------------------------------------------------------
    source = None
    if env.executable and not capturing_nested:
        source = get_source(env, case, gl, rng, counts)
    exec_budget = int(params.get("exec_per_graphlike", 14)) * (3 if exhaustive else 1)
    exec_prob = 1.0 if not exhaustive else min(1.0, 3.0 * exec_budget / max(1, len(cuts)))
    nontrivial = False
    seen_cuts: set = set()
    for idx, (ins, outs, strategy) in enumerate(cuts):
        if exhaustive:
            m = idx % 4
            in_f = [m == 1 or (m == 3 and j % 2 == 0) for j in range(len(ins))]
            out_f = [m == 1 or (m == 3 and j % 2 == 1) for j in range(len(outs))]
            mode = ("obj", "name", "obj", "mixed")[m]
        else:
            in_f, out_f, mode = draw_modes(gl, rng, ins, outs)
            ck = (tuple(id(v) for v in ins), tuple(id(v) for v in outs), tuple(in_f), tuple(out_f))
            if ck in seen_cuts:
                counts["cuts_repeated_skipped"] += 1
                continue
            seen_cuts.add(ck)
        run_exec = None
        events_exec: list[str] = []
        evaluators: list[str] = []
        if source is not None and exec_budget > 0 and (exec_prob >= 1.0 or rng.random() < exec_prob):
            evaluators = [e for e in GE.EVALUATORS if source.ran(e)]
            if "ort" in evaluators and "ref" in evaluators and state["ort_left"] <= 0:
                evaluators = ["ref"]
            elif evaluators == ["ort"] and state["ort_left"] <= -3 * int(params.get("ort_per_model", 6)):
                evaluators = []  # only onnxruntime can run this source: a bounded number of sessions per model

        if evaluators:
            def run_exec(o, _src=source, _outs=outs, _ev=evaluators, _events=events_exec):
                v = exec_clause(env, _src, _outs, o.result, _ev, _events)
                if v is not None:
                    o.violations.append(v)
        outcome = judge_cut(env, gl, ins, outs, in_f, out_f, run_exec=run_exec)
        if events_exec:
            exec_budget -= 1
            if "exec_compared:ort" in events_exec:
                state["ort_left"] -= 1
            counts["exec_cuts"] += 1
        for ev in outcome.events + events_exec:
            counts[ev] += 1
        if not outcome.judged:
            counts[outcome.report_only] += 1
            counts["cuts_report_only"] += 1
            continue
        counts["cuts_judged"] += 1
        counts["cuts_on:" + gl.kind] += 1
        if capturing_nested:
            counts["cuts_on:nested-capturing"] += 1
        counts["cut_strategy:" + strategy] += 1
        counts["cut_mode:" + mode] += 1
        if mode != "obj":
            counts["cuts_by_name_or_mixed"] += 1
        counts["cuts_covered" if outcome.closure.covered else "cuts_uncovered"] += 1
        if not outcome.closure.covered or ("regions_needing_capture" in outcome.events and len(outcome.closure.nodes) >= 2):
            nontrivial = True
        if outcome.violations:
            def make_judge(e, g, with_exec=False, _src=source):
                def j(i, o, fi, fo):
                    rx = None
                    if _src is not None and with_exec:
                        evs = [x for x in GE.EVALUATORS if _src.ran(x)]

                        def rx(oc, _o=o):
                            v = exec_clause(e, _src, _o, oc.result, evs, [])
                            if v is not None:
                                oc.violations.append(v)
                    return judge_cut(e, g, i, o, fi, fo, run_exec=rx)
                return j
            shrinker = (lambda rp: shrink_model_features(rp)) if key["kind"] == "exec" else None
            report(ctx, key, env, gl, ins, outs, in_f, out_f, outcome, make_judge, shrinker)
        if ctx.out_of_time() and idx % 64 == 63:
            counts["graphlikes_cut_short_by_time"] += 1
            break
    ctx.evaluation(key=stable_hash([key, gl.ref, "extract"]), nontrivial=nontrivial)
    if len(ctx.samples) < ctx.MAX_SAMPLES and gl.kind != "view" and cuts:
        ins, outs, strategy = cuts[len(cuts) // 2]
        c = OR.closure(gl, ins, outs)
        ctx.sample({"model": {k: v for k, v in key.items() if k != "features"}, "graph_like": gl.ref, "kind": gl.kind,
                    "values": n, "nodes": len(gl.nodes), "cuts": len(cuts), "all_cuts": exhaustive,
                    "a_cut": {"inputs": [v.name for v in ins], "outputs": [v.name for v in outs], "strategy": strategy,
                              "covered": c.covered, "region": [x.op_type for x in c.nodes],
                              "initializers": sorted(v.name for v in c.inits.values())}})


def run_model(ctx, key: dict, rng: random.Random, state: dict) -> None:
    counts = state["counts"]
    t_model = time.process_time()
    try:
        _run_model(ctx, key, rng, state)
    finally:
        counts["cpu_ms:all"] += int(1000 * (time.process_time() - t_model))


def _run_model(ctx, key: dict, rng: random.Random, state: dict) -> None:
    counts = state["counts"]
    model, case, reason = build_model(key)
    if key["kind"] == "exec" and case is None:
        counts["reject:" + reason] += 1
        return
    counts["models:" + key["kind"] + (":" + key["flavour"] if "flavour" in key else "")] += 1
    if case is not None:
        for e in GE.EVALUATORS:
            if case.ran(e):
                counts["models_run_by:" + e] += 1
    env = Env(model, executable=case is not None)
    state["ort_left"] = int(ctx.params.get("ort_per_model", 6))
    # capture analysis on every root
    for root in _roots(model):
        obj = _root_obj(model, root)
        graph = obj.graph if isinstance(obj, ir.Function) else obj
        deeper = check_implicit(ctx, key, root, graph, counts)
        ctx.evaluation(key=stable_hash([key, root, "implicit"]), nontrivial=deeper)
    # extraction
    for ref in graphlike_refs(model, rng, key.get("flavour", "ir")):
        if ctx.out_of_time():
            counts["models_cut_short_by_time"] += 1
            break
        gl = resolve_gl(model, ref)
        if gl is None:
            continue
        run_graphlike(ctx, key, env, case, gl, rng, state)
    # extract -> edit in place -> extract again, on a fresh copy of the model (own random stream: the cuts above do not
    # depend on it)
    if not ctx.out_of_time():
        t0 = time.process_time()
        run_history(ctx, key, case, random.Random(f"{ctx.seed}:C18:history:{stable_hash(key)}"), state)
        counts["cpu_ms:histories"] += int(1000 * (time.process_time() - t0))


def run(ctx) -> None:
    _quiet()
    devnull = os.open(os.devnull, os.O_WRONLY)
    for fd in (1, 2):
        try:
            os.dup2(devnull, fd)
        except OSError:
            pass
    counts: Counter = Counter()
    state = {"counts": counts, "exhaustive_left": int(ctx.params.get("exhaustive_start", 6000)), "ort_left": 0,
             "free7": 1 if ctx.tier == "quick" else 4, "hist_reported": {}}
    per_case, cap = int(ctx.params.get("exhaustive_per_case", 260)), int(ctx.params.get("exhaustive_cap", 20000))
    for case_id in ctx.case_ids():
        state["exhaustive_left"] = min(cap, state["exhaustive_left"] + per_case)
        rng = ctx.rng(case_id)
        key = draw_model_key(ctx, case_id, rng)
        run_model(ctx, key, rng, state)
    for k, v in counts.items():
        ctx.count(k, v)


# =================================================================================================
# feature shrinking and replay
# =================================================================================================
def _replay_extract(data: dict, want_exec: bool = True):
    """Re-execute one extraction witness.  Returns (outcome, gl, ins, outs) or None if it no longer applies."""
    model, case, _reason = build_model(data)
    if data["kind"] == "exec" and case is None:
        return None
    gl = resolve_gl(model, data["gl"])
    if gl is None:
        return None
    try:
        ins = [gl.by_name[n] for n in data["inputs"]]
        outs = [gl.by_name[n] for n in data["outputs"]]
    except KeyError:
        return None
    env = Env(model, executable=case is not None)
    run_exec = None
    if want_exec and case is not None and not (gl.kind == "nested" and gl.free):
        source = get_source(env, case, gl, random.Random(0), Counter())
        if source is not None:
            evs = [e for e in GE.EVALUATORS if source.ran(e)]

            def run_exec(o):
                v = exec_clause(env, source, outs, o.result, evs, [])
                if v is not None:
                    o.violations.append(v)
    outcome = judge_cut(env, gl, ins, outs, data["in_by_name"], data["out_by_name"], run_exec=run_exec)
    return outcome, gl, ins, outs


def shrink_model_features(replay_data: dict) -> dict | None:
    """ddmin over the planted gen_exec features: the same clause and signature must fire on the same named cut of
    the regenerated model."""
    feats = list(replay_data["features"])
    if not feats:
        return None

    def fails(sub):
        cand = dict(replay_data, features=sorted(sub))
        try:
            got = _replay_extract(cand, want_exec=replay_data["clause"] == "outputs-differ")
        except Exception:  # noqa: BLE001 - a reduced feature set that no longer builds is simply not a reduction
            return False
        if got is None:
            return False
        outcome, gl, ins, outs = got
        return any(signature_of(gl, cl, info, outcome.closure, ins, outs) == replay_data["signature"]
                   for cl, info in outcome.violations if cl == replay_data["clause"])

    if fails([]):
        return dict(replay_data, features=[])
    small = ddmin(feats, fails, max_tests=24)
    if len(small) < len(feats) and fails(small):
        return dict(replay_data, features=sorted(small))
    return None


def replay(replay_data, ctx) -> None:
    _quiet()
    if replay_data.get("task") == "implicit":
        model, _case, _r = build_model(replay_data)
        path = replay_data.get("path") or []
        graph = _graph_at(model, replay_data["root"], path)
        check_implicit(ctx, {k: replay_data[k] for k in replay_data if k not in ("task", "root", "path")}, replay_data["root"], graph,
                       Counter(), path)
        return
    if replay_data.get("task") == "history":
        hkey = {k: v for k, v in replay_data.items() if k not in ("task", "steps", "final", "clause", "detail", "signature")}
        got = replay_history(hkey, replay_data["steps"], replay_data["final"], hkey["kind"] == "exec")
        if got is None:
            ctx.note("replay: the last call of the history can no longer be named")
            return
        if replay_data["clause"] == "implicit":
            for sig0, msg0 in got:
                if sig0 == replay_data["detail"]:
                    ctx.violation(replay_data["signature"], f"{msg0}\n  at the last call of: "
                                  f"{_describe_steps(replay_data['steps'] + [replay_data['final']])}", replay_data)
            return
        for clause, info in got[0].violations:
            if clause == replay_data["clause"] and clause_detail(clause, info) == replay_data["detail"]:
                ctx.violation(replay_data["signature"], f"{clause} ({replay_data['detail']}) at the last call of: "
                              f"{_describe_steps(replay_data['steps'] + [dict(replay_data['final'], t='cut')])}\n  details: {info}", replay_data)
        return
    got = _replay_extract(replay_data)
    if got is None:
        ctx.note("replay: the witness model or cut can no longer be rebuilt")
        return
    outcome, gl, ins, outs = got
    for clause, info in outcome.violations:
        sig = signature_of(gl, clause, info, outcome.closure, ins, outs)
        ctx.violation(sig, f"{clause}: {describe_cut(gl, ins, outs, replay_data['in_by_name'], replay_data['out_by_name'])}\n  details: {info}",
                      replay_data)
