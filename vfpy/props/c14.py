"""C14 - passes honour their contract: identity, modified flag, fixpoint, no damage.

For every built-in pass P and generated model M the monitors check, on the real pass objects:
  identity     result.model is M  <=>  P.in_place
  flag         modified=False  =>  deterministic serialisation of the model is byte-identical
  fixpoint     iterating P reaches, within #nodes+#values+#functions+2 rounds, a round that reports
               no modification and changes nothing
  links        the C01 invariant walker holds on the result
  order        graphs that were topologically ordered stay ordered
  names        every used value keeps a non-empty name; serialisation that worked still works
  analysis     CheckerPass, and ShapeInferencePass when inference fails, leave the model exactly
               unchanged (all-observables snapshot) - also when serialisation or the ONNX call fails
               (faults injected at the ONNX boundary).
Every pass is also run under functionalize() (analysis passes and whole compositions included), and, once a
pass has settled, ONE more pattern is planted and the pass applied again (one_item_at_fixpoint): what the pass
does with a single opportunity - in particular declining it behind a guard - is then judged on its own.
  calls        no pass result (of any application: first, fixpoint rounds, items at the fixpoint, compositions,
               sessions) contains a node calling a model-local function - (domain, op_type, overload) was a key
               of model.functions before the application - that the model no longer defines: such a model is
               damaged (a name needed for serialisation into a self-contained model is gone). Judged in every
               graph, including the bodies of functions that are not reachable from the main graph.
  defined      no pass result contains a use (node input at any depth, graph output) of a value that is not defined
               in its graph or an enclosing one (input, initializer, node output) when every use was defined before:
               the definition the serialised name refers to is gone (use-def links / names needed for serialisation).
               Models carry const_value HINTS on graph inputs and node outputs that are not initializers.
  facets       once a pass that reads or writes annotations (ShapeInferencePass, IdentityEliminationPass; others
               sometimes) has settled, ONE annotation facet of a node output (type / shape / one dimension / both)
               is erased and the pass applied again: its only effect is then about that facet (e.g. inference
               writes back a type and nothing else) and the flag is judged on it alone. gen_exec models also get
               values of unknown rank (Reshape to a runtime shape) and sequence / optional values.
  carriers     once a pass has settled (always for ClearMetadataAndDocStringPass, now and then for the others), ONE
               documentation item - a doc_string or one / two metadata_props entries - is put on ONE carrier: the model,
               a graph object (main graph / nested graph / Function / graph nested in a function body), one node or one
               value of such a graph, and the pass applied again; the grid carrier x scope class is swept cell by cell,
               so the only thing the pass can act on, and must report, sits in exactly one place.
  sessions     ONE pass (or composition) instance is applied again and again: to several models in turn (one of
               them a twin of another whose functions have the same identifiers but other bodies) and to the same
               model after edits; every application is judged on the clauses above, and a model on which the
               instance reported no modification must still be a fixpoint when the instance comes back to it.
"""

from __future__ import annotations

import random

import numpy as np
import onnx
import onnx_ir as ir
import onnx_ir.passes.common as P

from vfpy import gen_ir, invariants, iso_ir, snapshot
from vfpy.histories import raise_site
from vfpy.world import World

ID = "C14"
LEVEL = "exploration"
RULE = ("a case = (generated model with pass bait: Identity/Constant nodes, duplicate subexpressions and "
        "initializers, unused nodes/functions/opsets, function calls, subgraph initializers, missing/duplicate "
        "names, optional trailing outputs, Identity outputs knowing more/less type and shape than their inputs, "
        "a producer placed after its consumer in ONE graph (main / nested in main / function body / nested in a "
        "function body - single items at the pass's fixpoint are stratified over these scope classes), "
        "inner scopes whose values share a name with a value of an enclosing graph, model-local functions calling "
        "each other (acyclic) from their bodies and nested graphs with some functions not reachable from the main "
        "graph, const_value hints on graph inputs / node outputs that are not initializers (any scope); checker-valid "
        "gen_exec models additionally with values of unknown rank and sequence / optional values, annotated fully, "
        "not at all or without a type; at the fixpoint of a pass single annotation facets (type / shape / one dim / "
        "both) of node outputs are erased and the pass re-applied; likewise single doc_string / metadata_props items on one "
        "carrier (model / graph object / node / value) of a graph of each scope class) x one built-in pass (all 19, "
        "plain or under functionalize(), analysis passes included) or a Sequential/PassManager composition "
        "(members and/or the whole composition under functionalize()), or a SESSION: one pass/composition instance "
        "applied 4-8 times to up to three models in turn (a model, its twin with other function bodies, an "
        "unrelated model) with edits in between, "
        "with or without an injected fault at the ONNX boundary; non-trivial = the pass reported modified=True at "
        "least once or a fault was injected; distinct = (pass, hash of serialized model)")
ASSUMPTIONS = [
    "protobuf deterministic serialisation decides 'serializes exactly as before'",
    "fixpoint is demanded of each built-in pass individually, not of compositions (inverse passes legitimately never settle)",
    "models satisfy the C01 clauses and are well scoped before the pass (harness precondition)",
    "ShapeInferencePass is judged as an analysis pass only when inference failed (raised inside or injected fault)",
    "a PassError raised by PassBase's own in_place enforcement (anywhere in the cause chain) is the identity clause failing",
    "clones share tensors by design: the OWN name of a tensor held by a node attribute of the input changing through a copy is report-only",
    "value names may collide ACROSS scopes in generated models (the IR permits it; passes guard their renames against it)",
    "a node whose (domain, op_type, overload) is a key of model.functions is a call to that model-local function",
    "passes are deterministic: a model on which an instance reported no modification (and changed nothing) is still a "
    "fixpoint of that instance later, whatever the instance was applied to in between",
    "a const_value on a value that is not registered in graph.initializers is a hint (Value.const_value: 'ignored during "
    "serialization'): the value keeps its role (runtime graph input / computed value) and must stay defined",
    "a used value WITHOUT a name losing its definition is report-only (ONNX reads an empty name as 'absent'; RemoveUnusedNodesPass "
    "trims trailing unnamed node outputs, also a returned one, when names were cleared after construction)",
    "which type a pass writes on a value is not judged (ShapeInferencePass gives an untyped sequence/optional value a tensor type: not a clause of the statement)",
    "a reused instance behaving differently from a fresh instance with the same parameters is report-only (the statement "
    "only promises the clauses above for every application)",
]

def _inline_criteria(r):
    """None (inline every call) most of the time; otherwise a deterministic predicate on the function"""
    k = r.random()
    if k < 0.65:
        return None
    if k < 0.8:
        return lambda f: sum(map(ord, f.name)) % 2 == 0   # by name
    if k < 0.9:
        return lambda f: len(f.inputs) <= 1                 # by signature
    return lambda f: sum(1 for _ in f) <= 2                  # by body size (the pass rewrites kept bodies)


PASS_FACTORIES = {
    "AddDefaultAttributesPass": lambda r: P.AddDefaultAttributesPass(),
    "AddInitializersToInputsPass": lambda r: P.AddInitializersToInputsPass(),
    "CheckerPass": lambda r: P.CheckerPass(full_check=r.random() < 0.3),
    "ClearMetadataAndDocStringPass": lambda r: P.ClearMetadataAndDocStringPass(),
    "CommonSubexpressionEliminationPass": lambda r: P.CommonSubexpressionEliminationPass(size_limit=r.choice([0, 10, 1000])),
    "DeduplicateHashedInitializersPass": lambda r: P.DeduplicateHashedInitializersPass(size_limit=r.choice([1, 64, 4 * 1024**3])),
    "DeduplicateInitializersPass": lambda r: P.DeduplicateInitializersPass(size_limit=r.choice([1, 64, 1024])),
    "IdentityEliminationPass": lambda r: P.IdentityEliminationPass(),
    "InlinePass": lambda r: P.InlinePass(criteria=_inline_criteria(r)),
    "LiftConstantsToInitializersPass": lambda r: P.LiftConstantsToInitializersPass(lift_all_constants=r.random() < 0.5, size_limit=r.choice([0, 16])),
    "LiftSubgraphInitializersToMainGraphPass": lambda r: P.LiftSubgraphInitializersToMainGraphPass(),
    "NameFixPass": lambda r: P.NameFixPass(),
    "OutputFixPass": lambda r: P.OutputFixPass(),
    "RemoveInitializersFromInputsPass": lambda r: P.RemoveInitializersFromInputsPass(),
    "RemoveUnusedFunctionsPass": lambda r: P.RemoveUnusedFunctionsPass(),
    "RemoveUnusedNodesPass": lambda r: P.RemoveUnusedNodesPass(),
    "RemoveUnusedOpsetsPass": lambda r: P.RemoveUnusedOpsetsPass(process_functions=r.random() < 0.7),
    "ShapeInferencePass": lambda r: P.ShapeInferencePass(),
    "TopologicalSortPass": lambda r: P.TopologicalSortPass(),
}
ANALYSIS = {"CheckerPass", "ShapeInferencePass"}
# passes that read or write the type / shape annotations of values (annotation facets are erased at their fixpoint)
ANNOTATION_PASSES = {"ShapeInferencePass", "IdentityEliminationPass"}


def plan(tier: str) -> dict:
    quick = tier == "quick"
    floors = {f"applied:{n}": (6 if quick else 300) for n in PASS_FACTORIES if n != "CheckerPass"}
    floors["applied:CheckerPass"] = 3 if quick else 150
    floors.update({"flag_false_judged": 300 if quick else 10000, "fixpoint_runs": 200 if quick else 8000,
                   "analysis_snapshots": 40 if quick else 1500, "faults_injected": 20 if quick else 800,
                   "applied_functional:CheckerPass": 2 if quick else 40,
                   "at_fixpoint_flag_false_judged": 150 if quick else 3000,
                   "models_with_bait:cross_scope_name_clash": 100 if quick else 2000,
                   # one item at the fixpoint, by the scope class of the graph it was planted in
                   "at_fixpoint_scope:main_nested": 120 if quick else 2500,
                   "at_fixpoint_scope:function": 50 if quick else 1000,
                   "at_fixpoint_scope:function_nested": 40 if quick else 800,
                   "at_fixpoint_item_scope:disorder@function_nested": 3 if quick else 60,
                   "at_fixpoint_modified_true:TopologicalSortPass": 20 if quick else 400,
                   # the call clause was decided non-vacuously: the application removed model-local functions
                   "calls_judged_functions_removed": 40 if quick else 800,
                   "calls_judged_functions_removed_local_calls_remain": 8 if quick else 150,
                   "models_with_bait:unreachable_function_calls_reachable_function": 40 if quick else 800,
                   "at_fixpoint_item:fncall": 60 if quick else 1200,
                   "session_applications": 600 if quick else 12000,
                   "session_returns_to_settled_model_after_other_model": 60 if quick else 1200,
                   "session_twin_applications": 100 if quick else 2000,
                   # the used-but-undefined clause was decided, on models with a const_value hint on a used plain input
                   "defined_judged": 1000 if quick else 20000,
                   "models_with_bait:const_hint_on_used_input": 100 if quick else 2000,
                   "at_fixpoint_item:consthint": 30 if quick else 600,
                   # single annotation facets at the fixpoint; the pass had an effect that was about a TYPE alone
                   "facets_applied": 100 if quick else 2000,
                   "facet_inference_succeeded": 25 if quick else 500,
                   "facet_effect:type": 6 if quick else 120,
                   # documentation carriers at the fixpoint: a pass ACTED on (and reported) a single item that sat on
                   # the graph object / on a node of a graph of each scope class below the main graph
                   "carrier_sweep_applied": 200 if quick else 4000,
                   "carrier_sweep_modified_true_carrier:graph@main_nested": 5 if quick else 100,
                   "carrier_sweep_modified_true_carrier:graph@function": 6 if quick else 120,
                   "carrier_sweep_modified_true_carrier:graph@function_nested": 4 if quick else 80,
                   "carrier_sweep_modified_true_carrier:node@main_nested": 5 if quick else 100,
                   "carrier_sweep_modified_true_carrier:node@function_nested": 4 if quick else 80,
                   "carrier_sweep_carrier:value@function_nested": 6 if quick else 120,
                   "carrier_sweep_carrier:model@main": 15 if quick else 300})
    return {"cases": 3000 if quick else 60000, "shards": 16, "budget_s": 40 if quick else 560,
            "floors": floors, "min_nontrivial": 100}


# ---- model source ---------------------------------------------------------------------------------
def all_graphs(model):
    out, stack, seen = [], [model.graph] + [f.graph for f in model.functions.values()], set()
    while stack:
        g = stack.pop()
        if id(g) in seen:
            continue
        seen.add(id(g))
        out.append(g)
        for n in g:
            for a in n.attributes.values():
                if isinstance(a, ir.Attr) and not a.is_ref():
                    if a.type == ir.AttributeType.GRAPH:
                        stack.append(a.value)
                    elif a.type == ir.AttributeType.GRAPHS:
                        stack.extend(a.value)
    return out


def nested_graphs_of(g) -> list:
    """graphs nested at any depth in the nodes of g (g itself excluded)"""
    out, stack = [], [g]
    while stack:
        cur = stack.pop()
        for n in cur:
            for a in n.attributes.values():
                if isinstance(a, ir.Attr) and not a.is_ref():
                    subs = [a.value] if a.type == ir.AttributeType.GRAPH else (list(a.value) if a.type == ir.AttributeType.GRAPHS else [])
                    out.extend(subs)
                    stack.extend(subs)
    return out


SCOPE_CLASSES = ("main", "main_nested", "function", "function_nested")


def scope_classes(model) -> dict:
    """id(graph) -> where the graph sits: the main graph, a graph nested (at any depth) in a node of the
    main graph, the body of a model-local function, or a graph nested in a node of a function body."""
    out = {id(model.graph): "main"}
    for sg in nested_graphs_of(model.graph):
        out.setdefault(id(sg), "main_nested")
    for f in model.functions.values():
        out.setdefault(id(f.graph), "function")
        for sg in nested_graphs_of(f.graph):
            out.setdefault(id(sg), "function_nested")
    return out


# ---- model-local functions: who calls whom ------------------------------------------------------------
def _fkey(f):
    return (f.domain, f.name, f.overload)


def _nkey(n):
    return (n.domain, n.op_type, n.overload)


def owners(model) -> dict:
    """id(graph) -> the Function whose body the graph is (or is nested in); None on the main-graph side"""
    out = {id(model.graph): None}
    for sg in nested_graphs_of(model.graph):
        out.setdefault(id(sg), None)
    for f in model.functions.values():
        out.setdefault(id(f.graph), f)
        for sg in nested_graphs_of(f.graph):
            out.setdefault(id(sg), f)
    return out


def _calls_in(g, keys) -> set:
    """keys (of model-local functions) called by the nodes of g at any depth"""
    out = set()
    for gg in [g] + nested_graphs_of(g):
        for n in gg:
            if _nkey(n) in keys:
                out.add(_nkey(n))
    return out


def reach(model, roots) -> set:
    """keys of the model-local functions reachable (through calls, transitively) from the given keys, roots included"""
    keys = set(model.functions)
    seen, stack = set(), [k for k in roots if k in keys]
    while stack:
        k = stack.pop()
        if k in seen:
            continue
        seen.add(k)
        stack.extend(_calls_in(model.functions[k].graph, keys) - seen)
    return seen


def reachable_from_main(model) -> set:
    return reach(model, _calls_in(model.graph, set(model.functions)))


def may_call(model, owner, callee_key) -> bool:
    """a call to callee from a graph owned by `owner` keeps the call graph acyclic"""
    return owner is None or _fkey(owner) not in reach(model, [callee_key])


def add_call(model, g, owner, f, vis, gen, p_output=0.0):
    """a node of g calling the model-local function f (inputs among vis, the values of g itself)"""
    rng = gen.rng
    ins = [(rng.choice(vis) if (vis and rng.random() < 0.85) else None) for _ in f.inputs]
    attrs = [ir.AttrInt64("fparam", 2)] if ("fparam" in f.attributes and rng.random() < 0.5) else []
    call = ir.Node(f.domain, f.name, ins, attrs, overload=f.overload,
                   outputs=[gen.value(typed=False) for _ in f.outputs], name=gen.fresh("call"))
    g.append(call)
    if call.outputs and rng.random() < p_output:
        g.outputs.append(call.outputs[0])
    (owner if owner is not None else model.graph).opset_imports.setdefault(f.domain, 1)
    return call


def grow_functions(model, gen: gen_ir.IRGen, rich: bool) -> None:
    """More model-local functions, and calls BETWEEN them (a function calls only functions that precede it
    in model.functions, from its body or a graph nested in it): whether a function is reachable from the
    main graph is then decided by the calls bait() plants in the main graph afterwards."""
    rng = gen.rng
    main_ver = model.graph.opset_imports.get("")
    for _ in range(rng.randint(1, 3) if rich else (1 if rng.random() < 0.25 else 0)):
        f = gen.function()
        if _fkey(f) not in model.functions:
            model.functions[_fkey(f)] = f
    fs = list(model.functions.values())
    if main_ver:
        for f in fs:  # the inliner refuses bodies whose opset versions differ from the caller's
            if rng.random() < (0.9 if rich else 0.6):
                f.opset_imports[""] = main_ver
    for i, caller in enumerate(fs):
        for callee in fs[:i]:
            if rng.random() < (0.5 if rich else 0.3):
                below = nested_graphs_of(caller.graph)
                g = rng.choice(below) if (below and rng.random() < 0.3) else caller.graph
                vis = list(g.inputs) + list(g.initializers.values()) + [o for n in g for o in n.outputs if o.name]
                add_call(model, g, caller, callee, vis, gen, p_output=0.4)
                gen.features.add("bait:function_calls_function")
                if g is not caller.graph:
                    gen.features.add("bait:function_calls_function_from_nested_graph")


def function_reach_features(model) -> set:
    keys = set(model.functions)
    if not keys:
        return set()
    live = reachable_from_main(model)
    out = set()
    if keys - live:
        out.add("bait:unreachable_function")
    for k in keys - live:
        called = _calls_in(model.functions[k].graph, keys)
        if called & live:
            out.add("bait:unreachable_function_calls_reachable_function")
    for k in live:
        if _calls_in(model.functions[k].graph, keys):
            out.add("bait:reachable_function_calls_function")
    return out


def dangling_calls(model, keys_before) -> list:
    """(scope class, node) of every node of the model - main graph, function bodies whether reachable or
    not, nested graphs - that calls a function which was defined before and is not defined any more."""
    missing = set(keys_before) - set(model.functions)
    if not missing:
        return []
    cls_of = scope_classes(model)
    return [(cls_of.get(id(g), "main"), n) for g in all_graphs(model) for n in g if _nkey(n) in missing]


def judge_calls(ctx, keys_before, out, sig, where, viol) -> bool:
    """the call clause for ONE pass result; True = a violation was reported"""
    ctx.count("calls_judged")
    if set(keys_before) - set(out.functions):
        ctx.count("calls_judged_functions_removed")
        if any(_nkey(n) in out.functions for g in all_graphs(out) for n in g):
            ctx.count("calls_judged_functions_removed_local_calls_remain")
    d = dangling_calls(out, keys_before)
    if not d:
        return False
    classes = [c for c in SCOPE_CLASSES if any(c == x for x, _ in d)]
    cls, n = next((c, n) for c, n in d if c == classes[0])
    viol(f"dangling-function-call|{sig}|caller={classes[0]}",
         f"{where}: {len(d)} node(s) call a model-local function that was defined before the pass and is not "
         f"defined after it, e.g. node {n.name!r} in a {cls} graph calls {_nkey(n)}; functions left: {sorted(map(str, out.functions))[:6]}"[:1200])
    return True


def plant_scope(g, vis, gen: gen_ir.IRGen):
    """A control-flow shaped node at the end of g whose branch graphs define their own values (graph
    inputs, an initializer, node outputs) and capture values of g: an inner scope below g."""
    rng = gen.rng
    with_inputs = rng.random() < 0.3

    def branch():
        ins = [gen.value()] if with_inputs else []
        inits = []
        if rng.random() < 0.3:
            nm = gen.fresh("bw")
            inits.append(ir.Value(name=nm, const_value=ir.tensor(np.array([1.0, 2.0], dtype=np.float32), name=nm),
                                  type=ir.TensorType(ir.DataType.FLOAT), shape=ir.Shape([2])))
        nodes = []
        cur = rng.choice(vis + ins + inits)
        for _ in range(rng.randint(1, 2)):
            nodes.append(ir.Node("", rng.choice(["Abs", "Neg", "Relu"]), [cur], outputs=[gen.value()]))
            cur = nodes[-1].outputs[0]
        return ir.Graph(ins, [cur], nodes=nodes, initializers=inits, name=rng.choice([None, gen.fresh("branch")]))

    if with_inputs:
        attrs = [ir.AttrGraph("body", branch())]
        op = "Scan"
    else:
        attrs = [ir.AttrGraph("then_branch", branch()), ir.AttrGraph("else_branch", branch())]
        op = "If"
    n = ir.Node("", op, [rng.choice(vis)], attrs, outputs=[gen.value()], name=rng.choice([None, gen.fresh("scope")]))
    g.append(n)
    gen.features.add("bait:inner_scope")
    return n


def plant_name_clash(g, planted, gen: gen_ir.IRGen) -> int:
    """Give a value DEFINED in a graph nested below g (input, initializer or node output) the name of a
    value of g itself (preferring values g returns and values the bait planted): the serialised names
    collide across scopes, which the IR permits and several passes guard their renames against."""
    rng = gen.rng
    victims = []
    for sg in nested_graphs_of(g):
        victims += list(sg.inputs) + list(sg.initializers.values()) + [o for n in sg for o in n.outputs if o.name]
    if not victims:
        return 0
    own = [v for v in list(g.inputs) + list(g.initializers.values()) + [o for n in g for o in n.outputs] if v.name]
    produced_outputs = [v for v in g.outputs if v.name and v.producer() is not None and v.producer().graph is g]
    planted = [v for v in planted if v.name]
    planted_outputs = [v for v in produced_outputs if any(v is x for x in planted)]
    # every returned value the bait planted is a likely target; a few more targets from the other classes
    targets = [v for v in planted_outputs if rng.random() < 0.6]
    for _ in range(rng.randint(0, 2)):
        r = rng.random()
        pool = produced_outputs if (produced_outputs and r < 0.5) else planted if (planted and r < 0.75) else own
        if pool:
            targets.append(rng.choice(pool))
    rng.shuffle(victims)
    done = 0
    for target in targets:
        if not victims:
            break
        victim = victims.pop()
        if victim is target or victim.name == target.name:
            continue
        try:
            victim.name = target.name
        except ValueError:
            continue  # e.g. the nested graph already has an initializer of that name
        done += 1
    if done:
        gen.features.add("bait:cross_scope_name_clash")
    return done


# ---- role / payload: const_value hints on values that are not initializers -----------------------------
_HINT_NP = {ir.DataType.FLOAT: np.float32, ir.DataType.DOUBLE: np.float64, ir.DataType.INT64: np.int64,
            ir.DataType.INT32: np.int32, ir.DataType.BOOL: np.bool_}


def _hint_tensor(v, rng):
    """a tensor that fits what the value declares (element type, static dims) - what an analysis that
    traced or folded the value would attach to it"""
    dt = v.dtype if (isinstance(v.type, ir.TensorType) and v.dtype in _HINT_NP) else ir.DataType.FLOAT
    dims = [2]
    if v.shape is not None and all(isinstance(d, int) for d in v.shape):
        d = [int(x) for x in v.shape]
        if int(np.prod(d)) <= 64 if d else True:
            dims = d
    n = int(np.prod(dims)) if dims else 1
    arr = np.array([rng.randint(0, 3) for _ in range(n)]).astype(_HINT_NP[dt]).reshape(dims)
    return ir.tensor(arr, name=v.name if rng.random() < 0.7 else rng.choice([None, "vf_hint"]))


def _is_registered(g, v) -> bool:
    return bool(v.name) and v.name in g.initializers and g.initializers[v.name] is v


def plant_const_hints_in(g, rng, features: set, cls: str, p_node_output=0.3) -> int:
    """Give 1-2 graph inputs of g that are NOT registered initializers (and, sometimes, a node output) a
    const_value. Value.const_value documents that it is then ignored by serialisation: the role of the
    value (runtime input / computed value) is unchanged, only the payload says 'constant'."""
    done = 0
    plain = [v for v in g.inputs if v.const_value is None and not _is_registered(g, v)]
    rng.shuffle(plain)
    for v in plain[: rng.randint(1, 2)]:
        v.const_value = _hint_tensor(v, rng)
        done += 1
        features.add("bait:const_hint_on_input")
        features.add("bait:const_hint_on_input@" + cls)
        if v.uses():
            features.add("bait:const_hint_on_used_input")
    outs = [o for n in g for o in n.outputs if o.const_value is None and o.name]
    if outs and (not done or rng.random() < p_node_output):
        o = rng.choice(outs)
        o.const_value = _hint_tensor(o, rng)
        done += 1
        features.add("bait:const_hint_on_node_output")
    return done


def plant_const_hints(model, rng, features: set) -> int:
    """const_value hints in 1-3 graphs of the model (main graph, nested graphs, function bodies)"""
    cls_of = scope_classes(model)
    gs = [g for g in all_graphs(model) if any(v.const_value is None and not _is_registered(g, v) for v in g.inputs)]
    if not gs:
        return 0
    rng.shuffle(gs)
    main_first = [g for g in gs if g is model.graph and rng.random() < 0.7]
    done = 0
    for g in (main_first + [g for g in gs if g not in main_first])[: rng.randint(1, 3)]:
        done += plant_const_hints_in(g, rng, features, cls_of.get(id(g), "main"))
    return done


def undefined_uses(model) -> list:
    """(scope class, kind of use, user, value name) for every value that a node of the model consumes or a graph
    returns and that is defined nowhere it could come from: not an input, not an initializer and not a node
    output of the graph itself or of a graph enclosing it. Such a model has lost a definition its
    serialisation needs (the name is dangling in the proto) and its use-def links are not consistent."""
    cls_of = scope_classes(model)
    out, seen = [], set()

    def walk(g, visible):
        if id(g) in seen:
            return
        seen.add(id(g))
        cls = cls_of.get(id(g), "main")
        vis = visible | {id(v) for v in g.inputs} | {id(v) for v in g.initializers.values()}
        for n in g:
            vis |= {id(o) for o in n.outputs}
        for n in g:
            for v in n.inputs:
                if v is not None and id(v) not in vis:
                    out.append((cls, "node-input", n.name or n.op_type, v.name))
            for a in n.attributes.values():
                if isinstance(a, ir.Attr) and not a.is_ref():
                    subs = [a.value] if a.type == ir.AttributeType.GRAPH else (list(a.value) if a.type == ir.AttributeType.GRAPHS else [])
                    for sg in subs:
                        walk(sg, vis)
        for v in g.outputs:
            if id(v) not in vis:
                out.append((cls, "graph-output", g.name, v.name))

    walk(model.graph, set())
    for f in model.functions.values():
        walk(f.graph, set())
    return out


def judge_defined(ctx, undefined_before, out, sig, where, viol) -> bool:
    """the used-but-undefined clause for ONE pass result; True = a violation was reported"""
    if undefined_before:
        ctx.count("defined_precondition_broken")
        return False
    ctx.count("defined_judged")
    u = undefined_uses(out)
    if any(not name for _, _, _, name in u):
        # ONNX reads an empty name as 'no value here' and RemoveUnusedNodesPass trims trailing node outputs
        # without a name (also one that a graph returns): whether an UNNAMED used value must keep its
        # definition is not said by the statement (the names clause is likewise judged on named values only)
        ctx.count("report_only_unnamed_used_value_lost_its_definition:" + sig)
        u = [x for x in u if x[3]]
    if not u:
        return False
    cls, use, user, name = u[0]
    viol(f"used-but-undefined|{sig}|{use}@{cls}",
         f"{where}: every used value was defined before; now {len(u)} use(s) of a value that is neither an input, an "
         f"initializer nor a node output of its graph or an enclosing graph, e.g. {use} {name!r} of {user!r} in a {cls} graph"[:1200])
    return True


# ---- annotations: values whose type / shape inference can, or cannot, supply ------------------------------
FACETS = ("type", "type", "shape", "dim", "both")


def _fresh_names(model, stem, k):
    used = set()
    for g in all_graphs(model):
        used |= {v.name for v in g.inputs} | set(g.initializers) | {o.name for n in g for o in n.outputs} | {n.name for n in g}
    out, i = [], 0
    while len(out) < k:
        nm = f"{stem}{i}"
        i += 1
        if nm not in used:
            out.append(nm)
    return out


def plant_partially_inferable(model, rng, features: set) -> None:
    """Appended to the MAIN graph of a checker-valid model, through the public API, keeping it checker-valid:
    values about which inference can learn a type and NOTHING else (a Reshape whose target shape is a runtime
    input of unknown length: the rank of the result is unknown), and values whose type is not a tensor type
    (sequence / optional). The new values are annotated completely, not at all, or with exactly one facet missing."""
    g = model.graph
    ver = g.opset_imports.get("", 0)
    srcs = [v for v in list(g.inputs) + [o for n in g for o in n.outputs]
            if isinstance(v.type, ir.TensorType) and v.shape is not None and len(v.shape) >= 1
            and all(isinstance(d, int) for d in v.shape) and v.name and v.dtype in _HINT_NP]
    if not srcs or ver < 13:
        return
    kinds = ["reshape", "reshape"] + (["seq"] if ver >= 13 else []) + (["opt"] if ver >= 18 else [])
    for kind in rng.sample(kinds, rng.randint(1, 2)):
        x = rng.choice(srcs)
        elem = ir.TensorType(x.dtype)
        q_name, z_name, s_name, n1, n2, c_name, c_out = _fresh_names(model, "vfa_", 7)
        how = rng.choice(["full", "full", "none", "no_type"])   # the annotation of the new inner value q
        if kind == "reshape":
            s = ir.Value(name=s_name, type=ir.TensorType(ir.DataType.INT64), shape=ir.Shape([rng.choice(["vf_n", None])]))
            g.inputs.append(s)
            a = ir.Node("", "Reshape", [x, s], outputs=[ir.Value(name=q_name)], name=n1)
            b = ir.Node("", rng.choice(["Identity", "Abs"]), [a.outputs[0]], outputs=[ir.Value(name=z_name)], name=n2)
            q_type, q_shape, z_shape = elem, None, ir.Shape(["vf_a", "vf_b"][: rng.randint(1, 2)])
            g.extend([a, b])
            features.add("bait:unknown_rank_value")
        elif kind == "seq":
            a = ir.Node("", "SequenceConstruct", [x] * rng.randint(1, 2), outputs=[ir.Value(name=q_name)], name=n1)
            c = ir.Node("", "Constant", [], [ir.AttrInt64("value_int", 0)], name=c_name,
                        outputs=[ir.Value(name=c_out, type=ir.TensorType(ir.DataType.INT64), shape=ir.Shape([]))])
            b = ir.Node("", "SequenceAt", [a.outputs[0], c.outputs[0]], outputs=[ir.Value(name=z_name)], name=n2)
            q_type, q_shape, z_shape = ir.SequenceType(elem), ir.Shape(list(x.shape)), ir.Shape(list(x.shape))
            g.extend([a, c, b])
            features.add("bait:sequence_value")
        else:
            a = ir.Node("", "Optional", [x], outputs=[ir.Value(name=q_name)], name=n1)
            b = ir.Node("", "OptionalGetElement", [a.outputs[0]], outputs=[ir.Value(name=z_name)], name=n2)
            q_type, q_shape, z_shape = ir.OptionalType(elem), ir.Shape(list(x.shape)), ir.Shape(list(x.shape))
            g.extend([a, b])
            features.add("bait:optional_value")
        q, z = a.outputs[0], b.outputs[0]
        z.type, z.shape = elem, z_shape          # a graph output declares its type (and a shape field)
        g.outputs.append(z)
        if how in ("full", "no_type"):
            q.shape = q_shape
        if how == "full":
            q.type = q_type
        features.add("bait:partially_inferable_inner_annotation=" + how)


def _facet_candidates(model) -> list:
    """(scope class, value, is a graph output) for the node outputs that carry an annotation"""
    cls_of = scope_classes(model)
    out = []
    for g in all_graphs(model):
        returned = {id(v) for v in g.outputs}
        for n in g:
            for o in n.outputs:
                if o.name and (o.type is not None or o.shape is not None):
                    out.append((cls_of.get(id(g), "main"), o, id(o) in returned))
    return out


def _facet_applicable(v, facet, returned) -> bool:
    if facet == "type":
        return v.type is not None and not returned
    if facet == "shape":
        return v.shape is not None and not returned
    if facet == "dim":
        return v.shape is not None and len(v.shape) >= 1 and any(isinstance(d, int) for d in v.shape)
    return v.type is not None and v.shape is not None and not returned


def _erase_facet(v, facet, rng) -> None:
    if facet in ("type", "both"):
        v.type = None
    if facet in ("shape", "both"):
        v.shape = None
    if facet == "dim":
        dims = list(v.shape)
        i = rng.choice([k for k, d in enumerate(dims) if isinstance(d, int)])
        dims[i] = rng.choice([None, "vf_dim"])
        v.shape = ir.Shape(dims)


ITEM_KINDS = ("identity","dup", "constant", "unused", "optout", "dupinit", "inout", "disorder", "fncall", "callfn", "uncall", "consthint")
# documentation items: ONE doc_string / metadata_props entry on ONE carrier object of a graph. They are not in
# ITEM_KINDS (drawn for every pass); they are drawn for the passes they are relevant to and by the carrier sweep.
DOC_KINDS = ("doc", "meta")
# what can carry documentation, seen from a graph g: g itself (the Function, when g is a function body), a
# node of g, a value of g (input / initializer / node output), and - from the main graph only - the model
CARRIERS = ("graph", "node", "value", "model")
# the kind of planted pattern each pass is about (used when ONE item is planted at the pass's fixpoint)
RELEVANT_ITEMS = {
    "IdentityEliminationPass": ("identity",),
    "CommonSubexpressionEliminationPass": ("dup", "constant"),
    "LiftConstantsToInitializersPass": ("constant",),
    "RemoveUnusedNodesPass": ("unused", "optout"),
    "DeduplicateInitializersPass": ("dupinit", "dupinit", "consthint"),
    "DeduplicateHashedInitializersPass": ("dupinit", "dupinit", "consthint"),
    "OutputFixPass": ("inout", "identity"),
    "AddInitializersToInputsPass": ("dupinit", "consthint"),
    "RemoveInitializersFromInputsPass": ("dupinit", "consthint"),
    "LiftSubgraphInitializersToMainGraphPass": ("dupinit", "consthint"),
    "TopologicalSortPass": ("disorder",),
    "ClearMetadataAndDocStringPass": DOC_KINDS,
    "InlinePass": ("fncall", "fncall", "callfn", "uncall"),
    "RemoveUnusedFunctionsPass": ("fncall", "fncall", "callfn", "uncall"),
    "RemoveUnusedOpsetsPass": ("fncall", "callfn", "uncall"),
}


def carriers_of(model, g, vis) -> list:
    """the carriers of documentation that graph g offers"""
    return ["graph"] + (["node"] if len(g) else []) + (["value"] if vis else []) + (["model"] if g is model.graph else [])


def plant_doc(model, g, vis, rng, kind: str, carrier: str) -> None:
    """ONE doc_string ('doc') or 1-2 metadata_props entries ('meta') on one carrier of g; nothing else changes"""
    if carrier == "model":
        obj = model
    elif carrier == "graph":
        obj = next((f for f in model.functions.values() if f.graph is g), g)
    elif carrier == "node":
        obj = rng.choice(list(g))
    else:
        obj = rng.choice(vis)
    if kind == "doc":
        obj.doc_string = rng.choice(["vf: documentation", "d"])
    else:
        for k in ["vf_key", "vf_other"][: rng.choice([1, 1, 2])]:
            obj.metadata_props[k] = rng.choice(["vf", ""])


def plant_item(model, g, vis, gen: gen_ir.IRGen, kind: str, planted: list, carrier: str | None = None, doc_rng=None):
    """One pattern of the given kind appended to graph g (vis = values of g itself; extended).
    For the documentation kinds the carrier that was used is returned (None otherwise)."""
    if kind in DOC_KINDS:
        drng = doc_rng or gen.rng
        offered = carriers_of(model, g, vis)
        if carrier is None or carrier not in offered:
            # the graph object itself half of the time: that is the carrier the scope classes differ in
            carrier = "graph" if drng.random() < 0.5 else drng.choice(offered)
        plant_doc(model, g, vis, drng, kind, carrier)
        gen.features.add("bait:documentation_item")
        return carrier
    rng = gen.rng
    main = model.graph
    is_fn = any(f.graph is g for f in model.functions.values())
    src = rng.choice(vis)
    if kind == "identity":
        # information asymmetry between the two ends of the Identity: the output may know a type /
        # shape / concrete dims that its input lacks (the pass then merges), or the other way round
        weak = [v for v in vis if v.producer() is not None and (v.type is None or v.shape is None)]
        produced = [v for v in vis if v.producer() is not None]
        if weak and rng.random() < 0.4:
            src = rng.choice(weak)
        elif produced and rng.random() < 0.4:
            src = rng.choice(produced)
        out = gen.value(typed=True if rng.random() < 0.4 else None)
        if src.type is not None and src.shape is not None and rng.random() < 0.5:
            out.type = src.type
            out.shape = ir.Shape([d if isinstance(d, int) else rng.randint(1, 4) for d in src.shape])
            gen.features.add("bait:identity_refines_shape")
        n = ir.Node("", "Identity", [src], outputs=[out], name=rng.choice([None, gen.fresh("id")]))
        g.append(n)
        if rng.random() < 0.6:
            g.outputs.append(n.outputs[0])
        vis.append(n.outputs[0])
        planted.append(n.outputs[0])
    elif kind == "dup":
        attrs = [ir.AttrInt64("axis", rng.choice([0, 1]))]
        a = ir.Node("", "Neg", [src], attrs, outputs=[gen.value()])
        b = ir.Node("", "Neg", [src], [ir.AttrInt64("axis", attrs[0].value if rng.random() < 0.7 else 5)], outputs=[gen.value()])
        g.extend([a, b])
        c = ir.Node("", "Add", [a.outputs[0], b.outputs[0]], outputs=[gen.value()])
        g.append(c)
        if rng.random() < 0.5:
            g.outputs.append(c.outputs[0])
        vis.extend([a.outputs[0], b.outputs[0], c.outputs[0]])
        planted.append(c.outputs[0])
    elif kind == "constant":
        form = rng.choice(["value", "value_float", "value_ints", "value_int", "value_floats"])
        attr = {"value": lambda: ir.AttrTensor("value", ir.tensor(np.array(rng.choice([[1.0, 2.0], [3.0]]), dtype=np.float32))),
                "value_float": lambda: ir.AttrFloat32("value_float", 1.5),
                "value_ints": lambda: ir.AttrInt64s("value_ints", [1, 2, 3]),
                "value_int": lambda: ir.AttrInt64("value_int", 7),
                "value_floats": lambda: ir.AttrFloat32s("value_floats", [0.5, 0.25])}[form]()
        n = ir.Node("", "Constant", [], [attr], outputs=[gen.value(typed=False)])
        g.append(n)
        u = ir.Node("", "Relu", [n.outputs[0]], outputs=[gen.value()])
        g.append(u)
        if rng.random() < 0.5:
            g.outputs.append(u.outputs[0])
        planted.extend([n.outputs[0], u.outputs[0]])
    elif kind == "unused":
        g.append(ir.Node("", "Relu", [src], outputs=[gen.value()]))  # unused node
    elif kind == "optout":
        # real ONNX ops whose OPTIONAL outputs sit in non-trailing positions (unused-output trimming)
        g.opset_imports.setdefault("", 18) if g is main or is_fn else None
        main.opset_imports.setdefault("", 18)
        x = src
        if rng.random() < 0.5:
            n = ir.Node("", "LayerNormalization", [x, x], [ir.AttrInt64("axis", -1)],
                        outputs=[gen.value(), gen.value(), gen.value()], name=gen.fresh("ln"))
            used = [0, 2]
        else:
            n = ir.Node("", "LSTM", [x, x, x], [ir.AttrInt64("hidden_size", 2)],
                        outputs=[gen.value(), gen.value(), gen.value()], name=gen.fresh("lstm"))
            used = [1] if rng.random() < 0.5 else [2]
        g.append(n)
        for j in used:
            g.outputs.append(n.outputs[j])
            planted.append(n.outputs[j])
    elif kind == "dupinit":
        if is_fn:
            return
        arr = np.array(rng.choice([[1, 2, 3], [4, 5]]), dtype=np.int64)
        for _ in range(2):  # duplicate initializers (same bytes), used
            name = gen.fresh("dupw")
            v = ir.Value(name=name, const_value=ir.tensor(arr.copy(), name=name), type=ir.TensorType(ir.DataType.INT64),
                         shape=ir.Shape(list(arr.shape)))
            g.initializers.add(v)
            g.append(ir.Node("", "Abs", [v], outputs=[gen.value()]))
            if g is main and rng.random() < 0.3 and v not in list(g.inputs):
                g.inputs.append(v)
    elif kind == "inout":
        if g.inputs and not is_fn:
            g.outputs.append(rng.choice(list(g.inputs)))  # graph input returned directly (OutputFixPass)
    elif kind == "disorder":
        # ONE local disorder confined to g: a producer placed after a node of g that consumes its value
        # (directly, or captured inside a graph nested in that node). Every other graph keeps its order.
        pairs = []
        if rng.random() < 0.5:
            pos = {id(n): i for i, n in enumerate(g)}
            for c in g:
                for v in _values_used_by(c):
                    pr = v.producer()
                    if pr is not None and pr is not c and id(pr) in pos and pos[id(pr)] < pos[id(c)]:
                        pairs.append((pr, c))
        if pairs:
            pr, c = rng.choice(pairs)
            g.remove(pr)           # still connected: only its position changes
            g.insert_after(c, pr)
            gen.features.add("bait:disorder_moved_producer")
        else:
            a = ir.Node("", "Relu", [src], outputs=[gen.value()], name=rng.choice([None, gen.fresh("late")]))
            if rng.random() < 0.3:
                # the consumer uses the value only inside its nested graph (a capture)
                inner = ir.Node("", "Abs", [a.outputs[0]], outputs=[gen.value()])
                body = ir.Graph([], [inner.outputs[0]], nodes=[inner], name=rng.choice([None, gen.fresh("cap")]))
                b = ir.Node("", "If", [src], [ir.AttrGraph("then_branch", body)], outputs=[gen.value()])
                gen.features.add("bait:disorder_through_capture")
            else:
                b = ir.Node("", "Neg", [a.outputs[0]], outputs=[gen.value()])
            g.extend([b, a])
            if rng.random() < 0.5:
                g.outputs.append(b.outputs[0])
            vis.extend([a.outputs[0], b.outputs[0]])
            planted.append(b.outputs[0])
            gen.features.add("bait:disorder_new_pair")
    elif kind == "fncall":
        # a NEW model-local function h (which may itself call a function the model already has), called
        # from g and, sometimes, from graphs of other scope classes as well (the main graph, bodies of
        # functions that nothing calls ...); the call graph stays acyclic
        owner_of = owners(model)
        owner = owner_of.get(id(g))
        scope = owner if owner is not None else main
        ver = scope.opset_imports.get("") or main.opset_imports.get("") or 18
        if rng.random() < 0.12:
            ver = 17 if ver != 17 else 18  # a body the inliner must refuse
        x = gen.value()
        cur, nodes = x, []
        for _ in range(rng.randint(1, 2)):
            nodes.append(ir.Node("", rng.choice(["Abs", "Neg", "Relu"]), [cur], outputs=[gen.value()]))
            cur = nodes[-1].outputs[0]
        imports = {"": ver}
        callable_ = [f for f in model.functions.values() if may_call(model, owner, _fkey(f))]
        inner = rng.choice(callable_) if (callable_ and rng.random() < 0.4) else None
        overload = rng.choice(["", "ovl"]) if (model.ir_version or 0) >= 10 else ""
        h = ir.Function("custom.domain", gen.fresh("fn"), overload,
                        graph=ir.Graph([x], [cur], nodes=nodes, opset_imports=imports, name=rng.choice([None, gen.fresh("fbody")])),
                        attributes=[])
        if inner is not None:
            add_call(model, h.graph, h, inner, [x, cur], gen, p_output=0.5)
            gen.features.add("bait:planted_function_calls_function")
        model.functions[_fkey(h)] = h
        # (a new output of a function BODY would change the signature its existing callers rely on)
        call = add_call(model, g, owner, h, vis, gen, p_output=0.0 if is_fn else 0.5)
        vis.extend(call.outputs)
        planted.extend(call.outputs)
        # further call sites, each in a graph of another scope class
        cls_of = scope_classes(model)
        here = cls_of.get(id(g), "main")
        for cls in SCOPE_CLASSES:
            if cls == here or rng.random() < 0.45:
                continue
            cands = [g2 for g2 in all_graphs(model) if cls_of.get(id(g2)) == cls and owner_of.get(id(g2), h) is not h
                     and may_call(model, owner_of.get(id(g2)), _fkey(h))]
            if cands:
                g2 = rng.choice(cands)
                vis2 = list(g2.inputs) + list(g2.initializers.values()) + [o for n in g2 for o in n.outputs if o.name]
                add_call(model, g2, owner_of.get(id(g2)), h, vis2, gen,
                         p_output=0.0 if any(f.graph is g2 for f in model.functions.values()) else 0.3)
                gen.features.add("bait:planted_function_called_from_several_scopes")
    elif kind == "callfn":
        # one more call to a function the model ALREADY has (it may have been unreachable so far)
        owner = owners(model).get(id(g))
        callable_ = [f for f in model.functions.values() if may_call(model, owner, _fkey(f))]
        if callable_:
            call = add_call(model, g, owner, rng.choice(callable_), vis, gen, p_output=0.0 if is_fn else 0.5)
            vis.extend(call.outputs)
            planted.extend(call.outputs)
            gen.features.add("bait:existing_function_called_again")
    elif kind == "uncall":
        # a call to a model-local function is taken out (its outputs are not used): the function may
        # become unreachable from where it was reachable before
        keys = set(model.functions)
        cands = [n for gg in all_graphs(model) for n in gg
                 if _nkey(n) in keys and not any(o.uses() or o.is_graph_output() for o in n.outputs)]
        here = [n for n in cands if n.graph is g]
        if cands:
            n = rng.choice(here) if (here and rng.random() < 0.6) else rng.choice(cands)
            n.graph.remove(n, safe=True)
            vis[:] = [v for v in vis if not any(v is o for o in n.outputs)]
            gen.features.add("bait:function_call_removed")
    elif kind == "consthint":
        # role / payload disagreement: a value of g that is NOT an initializer carries a const_value (a hint,
        # ignored by serialisation) - preferably a graph input of g, which stays a genuine runtime input
        if plant_const_hints_in(g, rng, gen.features, scope_classes(model).get(id(g), "main")) == 0:
            gen.features.add("bait:const_hint_no_candidate")
    else:
        raise ValueError(kind)


def _values_used_by(n):
    """values a node uses directly or inside the graphs nested in it"""
    for v in n.inputs:
        if v is not None:
            yield v
    for a in n.attributes.values():
        if isinstance(a, ir.Attr) and not a.is_ref():
            subs = [a.value] if a.type == ir.AttributeType.GRAPH else (list(a.value) if a.type == ir.AttributeType.GRAPHS else [])
            for sg in subs:
                for m in sg:
                    yield from _values_used_by(m)


def plant_scope_and_clash(g, vis, planted, gen: gen_ir.IRGen, p_scope=0.6, p_clash=0.85) -> None:
    """inner scopes below g and names that collide across scopes (rename guards of the passes)"""
    rng = gen.rng
    if vis and rng.random() < (0.15 if nested_graphs_of(g) else p_scope):
        sn = plant_scope(g, vis, gen)
        if rng.random() < 0.3:
            g.outputs.append(sn.outputs[0])
    if rng.random() < p_clash:
        plant_name_clash(g, planted, gen)


def bait(model: ir.Model, gen: gen_ir.IRGen) -> None:
    """Plant patterns the passes rewrite, through the public API, keeping the model well scoped."""
    rng = gen.rng
    graphs = all_graphs(model)
    main = model.graph
    for g in graphs:
        is_fn = any(f.graph is g for f in model.functions.values())
        vis = list(g.inputs) + list(g.initializers.values()) + [o for n in g for o in n.outputs if o.name]
        if not vis or rng.random() < 0.35:
            continue
        planted = []
        # Identity chains (also ending in a graph output), duplicate subexpressions, constants
        for _ in range(rng.randint(1, 3)):
            k = rng.random()
            plant_item(model, g, vis, gen, "identity" if k < 0.35 else "dup" if k < 0.6 else "constant" if k < 0.85 else "unused", planted)
        if rng.random() < 0.25:
            plant_item(model, g, vis, gen, "optout", planted)
        if not is_fn and rng.random() < 0.5:
            plant_item(model, g, vis, gen, "dupinit", planted)
        if rng.random() < 0.25 and g.inputs and not is_fn:
            plant_item(model, g, vis, gen, "inout", planted)
        # function bodies get an inner scope more often: graphs nested in a function body are a scope
        # class of their own (a pass walks model.functions separately from the main graph)
        plant_scope_and_clash(g, vis, planted, gen, p_scope=0.85 if is_fn else 0.6)
    # calls to model functions (InlinePass) and unused opsets
    for f in list(model.functions.values()):
        if rng.random() < 0.7:
            ins = [rng.choice(list(main.inputs) + [None]) if (main.inputs and rng.random() < 0.8) else None for _ in f.inputs]
            call = ir.Node(f.domain, f.name, ins, [ir.AttrInt64("fparam", 2)] if rng.random() < 0.5 else [], overload=f.overload,
                           outputs=[gen.value(typed=False) for _ in f.outputs], name=gen.fresh("call"))
            main.append(call)
            if call.outputs and rng.random() < 0.5:
                main.outputs.append(call.outputs[0])
            main.opset_imports.setdefault(f.domain, 1)
    if rng.random() < 0.4:
        main.opset_imports["unused.domain"] = 3
    # missing / duplicated names for NameFixPass and friends
    if rng.random() < 0.3:
        for g in graphs:
            for n in g:
                if rng.random() < 0.2:
                    n.name = rng.choice([None, "dupnode"])
                for o in n.outputs:
                    if rng.random() < 0.1 and not o.is_initializer():
                        o.name = rng.choice([None, "dupval", "x_1"])
        return True
    return False


class _ExecFeatures:
    """stand-in for IRGen when the model comes from gen_exec (evidence samples read .features)"""

    def __init__(self, features):
        self.features = set(features)


def build(ctx, case, force_ir=False, fn_rich=False, p_exec=0.3):
    """force_ir: a gen_ir model whatever the draw says (the harness can edit those); fn_rich: more
    model-local functions calling each other (workload of the passes that are about functions);
    p_exec: how often the model is a checker-valid one from gen_exec."""
    rng = ctx.rng(case)
    if rng.random() < p_exec and not force_ir:
        # checker-valid, executable models (vfpy/gen_exec.py): the ONNX checker and shape inference
        # succeed on these, so the success paths of the analysis passes are exercised as well
        from vfpy import gen_exec

        model, info = gen_exec.gen_model(rng, size=rng.choice([4, 8, 12]))
        ctx.count("models_from_gen_exec")
        feats = _ExecFeatures(info.get("features", ()))
        extra = set()
        hrng = ctx.rng(case, "annotations")
        if hrng.random() < 0.5:
            # values about which inference learns a type and nothing else; sequence / optional values
            plant_partially_inferable(model, hrng, extra)
        if hrng.random() < 0.35:
            plant_const_hints(model, hrng, extra)
        for f in sorted(extra):
            ctx.count("models_with_" + f)
        feats.features |= extra
        return model, feats, False
    ctx.count("models_from_gen_ir")
    gen = gen_ir.IRGen(rng, max_depth=rng.choice([0, 1, 2]), ir_versions=(9, 10, 11))
    model = gen.model()
    grow_functions(model, gen, fn_rich)
    gen_ir.uniquify_names(model)
    messy_names = bait(model, gen)
    hrng = ctx.rng(case, "annotations")
    if hrng.random() < 0.35:
        # role / payload disagreement: graph inputs (any scope) that carry a const_value without being initializers
        plant_const_hints(model, hrng, gen.features)
    gen.features |= function_reach_features(model)
    for f in sorted(x for x in gen.features if x.startswith("bait:")):
        ctx.count("models_with_" + f)
    return model, gen, messy_names


class _Quiet:
    """ctx stand-in for building the twin of a model: the same random streams, nothing counted"""

    def __init__(self, ctx):
        self._ctx = ctx

    def rng(self, *a):
        return self._ctx.rng(*a)

    def count(self, *a, **k):
        pass


# ---- predicates -------------------------------------------------------------------------------------
def ser(model):
    return ir.to_proto(model).SerializeToString(deterministic=True)


def try_ser(model):
    try:
        return ser(model), None
    except Exception as e:  # noqa: BLE001
        return None, e


def unordered_graphs(model) -> set[int]:
    """ids of graphs that are NOT topologically ordered (producer in the same graph must precede a
    node that uses its value directly or inside a nested graph)."""
    bad = set()
    for g in all_graphs(model):
        pos = {id(n): i for i, n in enumerate(g)}

        def used_values(n):
            for v in n.inputs:
                if v is not None:
                    yield v
            for a in n.attributes.values():
                if isinstance(a, ir.Attr) and not a.is_ref():
                    subs = [a.value] if a.type == ir.AttributeType.GRAPH else (list(a.value) if a.type == ir.AttributeType.GRAPHS else [])
                    for sg in subs:
                        for m in sg:
                            yield from used_values(m)

        for n in g:
            for v in used_values(n):
                p = v.producer()
                if p is not None and id(p) in pos and pos[id(p)] >= pos[id(n)]:
                    bad.add(id(g))
    return bad


def unnamed_used(model) -> int:
    c = 0
    for g in all_graphs(model):
        for n in g:
            c += sum(1 for v in n.inputs if v is not None and not v.name)
        c += sum(1 for v in g.outputs if not v.name)
        c += sum(1 for v in g.initializers.values() if not v.name)
    return c


class Boundary:
    """Observes (and optionally fails) the ONNX calls at the module attributes the passes look up
    at call time: was the call reached, did it raise."""

    def __init__(self, kind):
        self.kind = kind
        self.infer_called = self.infer_raised = self.check_called = self.check_raised = False

    def __enter__(self):
        self.orig_infer = onnx.shape_inference.infer_shapes
        self.orig_check = onnx.checker.check_model

        def infer(*a, **k):
            self.infer_called = True
            try:
                if self.kind == "infer_raises":
                    _boom()
                return self.orig_infer(*a, **k)
            except BaseException:
                self.infer_raised = True
                raise

        def check(*a, **k):
            self.check_called = True
            try:
                if self.kind == "checker_raises":
                    _boom()
                return self.orig_check(*a, **k)
            except BaseException:
                self.check_raised = True
                raise

        onnx.shape_inference.infer_shapes = infer
        onnx.checker.check_model = check
        return self

    def __exit__(self, *exc):
        onnx.shape_inference.infer_shapes = self.orig_infer
        onnx.checker.check_model = self.orig_check
        return False

    def inference_failed(self) -> bool:
        return (not self.infer_called) or self.infer_raised


def _boom(*a, **k):
    raise RuntimeError("vf: injected failure of the ONNX call")


def add_failing_lazy_initializer(model, big=False):
    def fail():
        raise RuntimeError("vf: injected serialisation failure (lazy tensor cannot be evaluated)")

    n = 600 if big else 3
    t = ir.LazyTensor(fail, dtype=ir.DataType.FLOAT, shape=ir.Shape([n]), name="vf_lazy")
    v = ir.Value(name="vf_lazy", const_value=t, type=ir.TensorType(ir.DataType.FLOAT), shape=ir.Shape([n]))
    # in the middle of the initializer order, with a big tensor before and after it
    keep = list(model.graph.initializers.values())
    for x in keep:
        model.graph.initializers.pop(x.name)
    bigarr = np.zeros(400, dtype=np.float32)  # > the C-API helper's size limit of a 'big' tensor? either way legal
    b1 = ir.Value(name="vf_big1", const_value=ir.tensor(bigarr, name="vf_big1"))
    b2 = ir.Value(name="vf_small", const_value=ir.tensor(np.array([1.0], dtype=np.float32), name="vf_small"))
    for x in [b1] + keep[: len(keep) // 2] + [v] + keep[len(keep) // 2:] + [b2]:
        model.graph.initializers.add(x)


def add_unloaded_initializers(model, rng) -> int:
    """Initializers whose data is not loaded (const_value is None; they can be registered with
    graph.initializers.add): the ONNX-call helper turns them into plain inputs for the call and must put
    them back.  One typed + shaped, one with a type only, placed at random positions of the order."""
    keep = list(model.graph.initializers.values())
    for x in keep:
        model.graph.initializers.pop(x.name)
    new = [ir.Value(name="vf_unloaded", type=ir.TensorType(ir.DataType.FLOAT), shape=ir.Shape([2, 3]))]
    if rng.random() < 0.5:
        new.append(ir.Value(name="vf_unloaded_t", type=ir.TensorType(ir.DataType.INT64)))
    order = keep + new
    rng.shuffle(order)
    for x in order:
        model.graph.initializers.add(x)
    return len(new)


# ---- one case ---------------------------------------------------------------------------------------
def judge_pass(ctx, model, pname, rng, case, fault_kind=None, messy_names=False, gen=None):
    viol = lambda sig, msg: ctx.violation(sig, msg, {"case": case, "seed": ctx.seed, "pass": pname, "fault": fault_kind})  # noqa: E731
    p = PASS_FACTORIES[pname](rng)
    variant = "plain"
    if rng.random() < (0.3 if pname in ANALYSIS else 0.15):
        # functional variant of EVERY kind of pass (in-place rewriting, in-place side-effect-only such as
        # the checker, with and without a fault at the ONNX boundary; sometimes wrapped twice): it must
        # return a DIFFERENT model and leave the input alone
        ctx.count(f"functionalized:in_place={p.in_place},changes_input={p.changes_input}")
        p = ir.passes.functionalize(p)
        variant = "functional"
        if rng.random() < 0.2:
            p = ir.passes.functionalize(p)
            ctx.count("functionalized_twice")
        ctx.count("functionalized_single_passes")
    w = World()
    w.adopt_model(model)
    if invariants.check_world(w):
        ctx.count("precondition_links_broken")
        return False
    b0, e0 = try_ser(model)
    pre = snapshot.snapshot(w)
    unordered0 = unordered_graphs(model)
    unnamed0 = unnamed_used(model)
    undefined0 = undefined_uses(model)
    keys0 = set(model.functions)
    nbound = sum(1 for g in all_graphs(model) for _ in g) + len(w.values) + len(model.functions) + 2
    exc = None
    with Boundary(fault_kind) as boundary:
        try:
            res = p(model)
        except Exception as e:  # noqa: BLE001
            exc = e
    if fault_kind:
        ctx.count("faults_injected")
    analysis_failed = False
    if exc is not None:
        if _identity_pass_error_in_chain(exc):
            # the infrastructure's own enforcement noticed that the pass returned the wrong object
            viol(f"identity|{pname}|{variant}|PassError", f"{variant} {pname} (in_place={p.in_place}): {exc}"[:800])
            return True
        ctx.count("pass_error:" + pname)
        ctx.count("pass_exc:" + type(exc).__name__)
        analysis_failed = pname in ANALYSIS
        if not analysis_failed:
            return False
    else:
        ctx.count("applied:" + pname)
        if variant == "functional":
            ctx.count("applied_functional:" + pname)
    # analysis clause
    if pname == "ShapeInferencePass":
        ctx.count("shape_inference_failed" if boundary.inference_failed() else "shape_inference_succeeded")
    if pname == "CheckerPass" or (pname == "ShapeInferencePass" and boundary.inference_failed()):
        post = snapshot.snapshot(w)
        ctx.count("analysis_snapshots")
        d = [x for x in snapshot.diff(pre, post, limit=60) if not _is_tensor_name_alignment(w, x)]
        if d:
            how = "raised" if exc is not None else ("fault:" + fault_kind if fault_kind else "returned")
            viol(f"analysis-pass-changed-model|{pname}|{how.split(':')[0]}",
                 f"{pname} ({how}) changed the model: " + "; ".join(f"{l}.{f}: {a!r} -> {b!r}" for l, f, a, b in d[:5])[:1500])
            return True
    if exc is not None:
        return False
    # identity
    same = res.model is model
    if same != bool(p.in_place):
        viol(f"identity|{pname}", f"{pname}.in_place={p.in_place} but result.model is input: {same}")
        return True
    out = res.model
    if not p.in_place and not p.changes_input:
        post_in = snapshot.snapshot(w)
        # tensors are shared between a model and its clone by documented design, and renaming a value
        # renames its backing tensor: a change of a shared tensor's OWN name is not a change of the model
        d = [x for x in snapshot.diff(pre, post_in, limit=60)
             if not (x[1] == "const" and x[2] is not None and x[3] is not None and len(x[2]) == len(x[3])
                     and x[2][:3] == x[3][:3] and x[2][4:] == x[3][4:])]
        if d:
            viol(f"input-changed|functional|{pname}", f"functional {pname} changed its input: " + "; ".join(f"{l}.{f}" for l, f, _, _ in d[:5]))
            return True
    # links
    bad = invariants.check_model(out)
    if bad:
        viol(f"links|{pname}|{'+'.join(sorted({c for c, _ in bad}))}", f"after {pname}: " + "; ".join(m for _, m in bad[:5]))
        return True
    # calls
    if judge_calls(ctx, keys0, out, pname, f"after {variant} {pname}", viol):
        return True
    # every used value is still defined
    if judge_defined(ctx, undefined0, out, pname, f"after {variant} {pname}", viol):
        return True
    # flag
    b1, e1 = try_ser(out)
    if b0 is not None and b1 is None:
        viol(f"serialisation-broken|{pname}|{type(e1).__name__}@{raise_site(e1)}",
             f"model serialised before {pname} but raises after: {e1!r}"[:1200])
        return True
    if not res.modified:
        ctx.count("flag_false_judged")
        if b0 is not None and b1 is not None and b0 != b1:
            d = _first_proto_diff(b0, b1)
            viol(f"modified-false-but-changed|{pname}|{d[0]}", f"{pname} reported modified=False but the serialised model changed: {d[1]}")
            return True
    else:
        ctx.count("modified_true:" + pname)
    # order
    if not unordered0:
        un = unordered_graphs(out)
        if un:
            viol(f"order-broken|{pname}", f"all graphs were topologically ordered before {pname}; {len(un)} are not after it")
            return True
    # names
    if unnamed0 == 0 and unnamed_used(out) > 0:
        viol(f"name-lost|{pname}", f"{unnamed_used(out)} used value(s) have no name after {pname}")
        return True
    # fixpoint (each built-in pass individually)
    if fault_kind is None:
        ctx.count("fixpoint_runs")
        cur, prev = out, b1
        rounds = 0
        settled = errored = False
        while rounds < nbound:
            rounds += 1
            keys_r = set(cur.functions)
            try:
                r = p(cur)
            except Exception as e:  # noqa: BLE001
                if _identity_pass_error_in_chain(e):
                    viol(f"identity|{pname}|{variant}|PassError", f"round {rounds + 1} of {variant} {pname}: {e}"[:800])
                    return True
                ctx.count("fixpoint_pass_error:" + pname)
                settled = True
                errored = True
                break
            if judge_calls(ctx, keys_r, r.model, pname, f"round {rounds + 1} of {variant} {pname}", viol):
                return True
            nb, _ = try_ser(r.model)
            if not r.modified:
                if prev is not None and nb is not None and nb != prev:
                    d = _first_proto_diff(prev, nb)
                    viol(f"modified-false-but-changed|{pname}|{d[0]}", f"round {rounds + 1} of {pname} reported modified=False but changed: {d[1]}")
                    return True
                settled = True
                break
            cur, prev = r.model, nb
        ctx.count("fixpoint_rounds", rounds)
        if not settled:
            viol(f"no-fixpoint|{pname}", f"{pname} still reports modified=True after {rounds} rounds (bound {nbound})")
            return True
        if not errored and not messy_names and (pname in ANNOTATION_PASSES or rng.random() < 0.1):
            violated, cur, usable = facets_at_fixpoint(ctx, p, pname, variant, cur, rng, viol)
            if violated:
                return True
            errored = not usable
        if not errored and isinstance(gen, gen_ir.IRGen) and not messy_names:
            # documentation carriers: the whole grid for the passes that are about documentation, three cells
            # now and then for the others (own random stream: the draws of the other workloads are unchanged)
            crng = ctx.rng(case, "carriers")
            about_docs = any(k in DOC_KINDS for k in RELEVANT_ITEMS.get(pname, ()))
            if about_docs or crng.random() < 0.15:
                violated, cur, usable = carriers_at_fixpoint(ctx, p, pname, variant, cur, gen, crng, viol, full=about_docs)
                if violated:
                    return True
                errored = not usable
        if not errored and isinstance(gen, gen_ir.IRGen) and not messy_names:
            if items_at_fixpoint(ctx, p, pname, variant, cur, gen, viol):
                return True
    return bool(res.modified)


def items_at_fixpoint(ctx, p, pname, variant, model, gen, viol) -> bool:
    """`model` is at the fixpoint of p. Up to three single items are planted one after the other, each in a
    graph of a DIFFERENT scope class (main graph / nested in the main graph / function body / nested in a
    function body - drawn uniformly over the classes the model has, not over its graphs), and p is applied
    and judged after each; between two items p is iterated to its fixpoint again. So the only thing p has to
    act on (and to report) sits in exactly one scope of the model. True = a violation was reported."""
    rng = gen.rng
    n_items = rng.choice([1, 2, 3, 3])
    cur, visited = model, []
    for i in range(n_items):
        cls_of = scope_classes(cur)
        by_cls = {}
        for g in all_graphs(cur):
            vis = list(g.inputs) + list(g.initializers.values()) + [o for n in g for o in n.outputs if o.name]
            if vis:
                by_cls.setdefault(cls_of.get(id(g), "main"), []).append((g, vis))
        choices = [c for c in SCOPE_CLASSES if c in by_cls and c not in visited] or [c for c in SCOPE_CLASSES if c in by_cls]
        if not choices:
            return False
        cls = rng.choice(choices)
        visited.append(cls)
        g, vis = rng.choice(by_cls[cls])
        status, cur, b = one_item_at_fixpoint(ctx, p, pname, variant, cur, g, vis, cls, gen, viol)
        if status == "violation":
            return True
        if status != "applied" or i == n_items - 1:
            return False
        # back to the fixpoint before the next item (same judgement as the first fixpoint run)
        nbound = sum(1 for x in all_graphs(cur) for _ in x) + sum(1 for x in all_graphs(cur) for n in x for _ in n.outputs) \
            + sum(len(x.inputs) + len(x.initializers) for x in all_graphs(cur)) + len(cur.functions) + 2
        rounds, settled = 0, False
        while rounds < nbound:
            rounds += 1
            keys_r = set(cur.functions)
            try:
                r = p(cur)
            except Exception as e:  # noqa: BLE001
                if _identity_pass_error_in_chain(e):
                    viol(f"identity|{pname}|{variant}|PassError", f"{variant} {pname} re-settling after an item at its fixpoint: {e}"[:800])
                    return True
                ctx.count("fixpoint_pass_error:" + pname)
                return False
            if judge_calls(ctx, keys_r, r.model, pname, f"{variant} {pname} re-settling after an item at its fixpoint", viol):
                return True
            nb, _ = try_ser(r.model)
            if not r.modified:
                if b is not None and nb is not None and nb != b:
                    d = _first_proto_diff(b, nb)
                    viol(f"modified-false-but-changed|{pname}|{d[0]}", f"{pname} (re-settling after one item at its fixpoint) reported modified=False but changed: {d[1]}")
                    return True
                cur = r.model
                settled = True
                break
            cur, b = r.model, nb
        ctx.count("at_fixpoint_resettle_rounds", rounds)
        if not settled:
            viol(f"no-fixpoint|{pname}", f"{pname} still reports modified=True after {rounds} rounds (bound {nbound}) following one item planted at its fixpoint")
            return True
    return False


def one_item_at_fixpoint(ctx, p, pname, variant, model, g, vis, cls, gen, viol, kind=None, carrier=None, extras=True,
                         tag="at_fixpoint", doc_rng=None):
    """`model` is at the fixpoint of p (p reports no modification and changes nothing). ONE further pattern
    is planted in graph g - of a kind the pass is about, most of the time - so that what the pass does with
    this single opportunity (rewrite it, or decline it behind one of its guards) is observed on its own and
    not hidden behind the modified=True of other rewrites in the same run. Identity, links and the
    modified flag are judged for this application.
    Returns (status, resulting model, its bytes); status "violation" = a violation was reported."""
    rng = gen.rng
    if kind is None:
        # (kind / carrier given: the carrier sweep decides what is planted; extras=False: nothing but the item)
        rel = RELEVANT_ITEMS.get(pname)
        kind = rng.choice(rel) if (rel and rng.random() < 0.75) else rng.choice(ITEM_KINDS)
    planted = []
    carrier = plant_item(model, g, vis, gen, kind, planted, carrier=carrier, doc_rng=doc_rng)
    if extras:
        plant_scope_and_clash(g, vis, planted, gen, p_scope=0.75, p_clash=0.9)
    if invariants.check_model(model) or iso_ir.well_scoped(model):
        ctx.count(tag + "_precondition_broken")
        return "skipped", model, None
    b0, _ = try_ser(model)
    if b0 is None:
        ctx.count(tag + "_not_serialisable")
        return "skipped", model, None
    unordered0 = unordered_graphs(model)
    undefined0 = undefined_uses(model)
    keys0 = set(model.functions)
    try:
        res = p(model)
    except Exception as e:  # noqa: BLE001
        if _identity_pass_error_in_chain(e):
            viol(f"identity|{pname}|{variant}|PassError", f"{variant} {pname} after one more '{kind}' item in a {cls} graph at its fixpoint: {e}"[:800])
            return "violation", model, None
        ctx.count(tag + "_pass_error:" + pname)
        ctx.count(f"{tag}_pass_exc:{pname}:{type(e).__name__}@{raise_site(e)}")
        return "skipped", model, None
    ctx.count(tag + "_applied")
    ctx.count(f"{tag}_item:" + kind)
    ctx.count(f"{tag}_scope:" + cls)
    ctx.count(f"{tag}_item_scope:{kind}@{cls}")
    if carrier is not None:
        ctx.count(f"{tag}_carrier:{carrier}@{cls}")
        kind = f"{kind} on the {carrier}"   # (messages only)
    if (res.model is model) != bool(p.in_place):
        viol(f"identity|{pname}", f"{pname}.in_place={p.in_place} but result.model is input: {res.model is model} (one '{kind}' item in a {cls} graph at the fixpoint)")
        return "violation", model, None
    bad = invariants.check_model(res.model)
    if bad:
        viol(f"links|{pname}|{'+'.join(sorted({c for c, _ in bad}))}", f"after {pname} (one '{kind}' item in a {cls} graph at the fixpoint): " + "; ".join(m for _, m in bad[:5]))
        return "violation", model, None
    if judge_calls(ctx, keys0, res.model, pname, f"after {variant} {pname} (one '{kind}' item in a {cls} graph at the fixpoint)", viol):
        return "violation", model, None
    if judge_defined(ctx, undefined0, res.model, pname, f"after {variant} {pname} (one '{kind}' item in a {cls} graph at the fixpoint)", viol):
        return "violation", model, None
    b1, e1 = try_ser(res.model)
    if b1 is None:
        viol(f"serialisation-broken|{pname}|{type(e1).__name__}@{raise_site(e1)}",
             f"model serialised before {pname} (one '{kind}' item in a {cls} graph at the fixpoint) but raises after: {e1!r}"[:1200])
        return "violation", model, None
    if not res.modified:
        ctx.count("flag_false_judged")
        ctx.count(tag + "_flag_false_judged")
        if b0 != b1:
            d = _first_proto_diff(b0, b1)
            viol(f"modified-false-but-changed|{pname}|{d[0]}",
                 f"{pname} at its fixpoint plus one '{kind}' item in a {cls} graph reported modified=False but the serialised model changed: {d[1]}")
            return "violation", model, None
    else:
        ctx.count(f"{tag}_modified_true:" + pname)
        if carrier is not None:
            ctx.count(f"{tag}_modified_true_carrier:{carrier}@{cls}")
    if not unordered0 and unordered_graphs(res.model):
        viol(f"order-broken|{pname}", f"all graphs were topologically ordered before {pname} (one '{kind}' item in a {cls} graph at the fixpoint); some are not after it")
        return "violation", model, None
    return "applied", res.model, b1


def _resettle(ctx, p, pname, variant, cur, b, viol, what):
    """iterate p on cur (whose bytes are b) until it reports no modification; same judgement as the first fixpoint
    run. Returns (status, model, bytes): 'settled', 'violation' or 'error' (the pass raised: model unusable)."""
    nbound, rounds = _model_bound(cur), 0
    while rounds < nbound:
        rounds += 1
        keys_r = set(cur.functions)
        try:
            r = p(cur)
        except Exception as e:  # noqa: BLE001
            if _identity_pass_error_in_chain(e):
                viol(f"identity|{pname}|{variant}|PassError", f"{variant} {pname} re-settling ({what}): {e}"[:800])
                return "violation", cur, b
            ctx.count("fixpoint_pass_error:" + pname)
            return "error", cur, b
        if judge_calls(ctx, keys_r, r.model, pname, f"{variant} {pname} re-settling ({what})", viol):
            return "violation", cur, b
        nb, _ = try_ser(r.model)
        if not r.modified:
            if b is not None and nb is not None and nb != b:
                d = _first_proto_diff(b, nb)
                viol(f"modified-false-but-changed|{pname}|{d[0]}", f"{pname} (re-settling, {what}) reported modified=False but changed: {d[1]}")
                return "violation", cur, b
            ctx.count("carrier_sweep_resettle_rounds", rounds)
            return "settled", r.model, nb
        cur, b = r.model, nb
    viol(f"no-fixpoint|{pname}", f"{pname} still reports modified=True after {rounds} rounds (bound {nbound}) following {what}")
    return "violation", cur, b


def carriers_at_fixpoint(ctx, p, pname, variant, model, gen, rng, viol, full: bool):
    """`model` is at the fixpoint of p. The grid (scope class of a graph) x (carrier: the graph object itself - the
    Function for a function body -, one of its nodes, one of its values, the model) is swept: in each cell ONE
    documentation item (a doc_string, or one or two metadata_props entries) is put on ONE carrier object, nothing
    else is touched, and p is applied. So the only thing in the whole model that p could act on - and has to
    report if it does - sits on exactly one carrier of one scope class; no other rewrite of the same run can
    raise the flag for it. p is iterated back to its fixpoint (same judgement) before the next cell.
    full: every cell the model has (shuffled); otherwise three cells. Returns (violation reported, model, usable)."""
    cur = model
    cells = []
    cls_of = scope_classes(cur)
    present = {cls_of.get(id(g), "main") for g in all_graphs(cur)}
    for cls in SCOPE_CLASSES:
        if cls in present:
            cells += [(cls, c) for c in CARRIERS if c != "model" or cls == "main"]
    rng.shuffle(cells)
    if not full:
        cells = cells[:3]
    for cls, carrier in cells:
        cls_of = scope_classes(cur)   # (a functional pass hands back other objects every time)
        cands = []
        for g in all_graphs(cur):
            if cls_of.get(id(g), "main") == cls:
                vis = list(g.inputs) + list(g.initializers.values()) + [o for n in g for o in n.outputs if o.name]
                if carrier in carriers_of(cur, g, vis):
                    cands.append((g, vis))
        if not cands:
            ctx.count(f"carrier_sweep_no_candidate:{carrier}@{cls}")
            continue
        g, vis = rng.choice(cands)
        kind = rng.choice(DOC_KINDS)
        status, cur, b = one_item_at_fixpoint(ctx, p, pname, variant, cur, g, vis, cls, gen, viol,
                                              kind=kind, carrier=carrier, extras=False, tag="carrier_sweep", doc_rng=rng)
        if status == "violation":
            return True, cur, False
        if status != "applied":
            return False, cur, False
        status, cur, b = _resettle(ctx, p, pname, variant, cur, b, viol, f"after one '{kind}' item on the {carrier} of a {cls} graph at the fixpoint")
        if status == "violation":
            return True, cur, False
        if status != "settled":
            return False, cur, False
    return False, cur, True


def _model_bound(model) -> int:
    gs = all_graphs(model)
    return sum(1 for x in gs for _ in x) + sum(1 for x in gs for n in x for _ in n.outputs) \
        + sum(len(x.inputs) + len(x.initializers) for x in gs) + len(model.functions) + 2


def facets_at_fixpoint(ctx, p, pname, variant, model, rng, viol):
    """`model` is at the fixpoint of p. ONE annotation facet - the type, the shape, one dimension, or type and
    shape - of one node output (sometimes of two or three) is erased, in a graph of a uniformly drawn scope
    class, and p is applied: the model is then annotated completely except for that facet, so whatever p
    does (for ShapeInferencePass: writing back exactly what inference can still supply, possibly a type and
    nothing else) is its ONLY effect, and its flag is judged on that effect alone. p is then iterated back to
    its fixpoint (same judgement) before the next facet. Returns (violation reported, model, still usable)."""
    cur = model
    for _ in range(rng.choice([2, 3, 4])):
        facet = rng.choice(FACETS)
        by_cls = {}
        for cls, v, returned in _facet_candidates(cur):
            if _facet_applicable(v, facet, returned):
                by_cls.setdefault(cls, []).append(v)
        if not by_cls:
            ctx.count("facet_no_candidate:" + facet)
            continue
        cls = rng.choice([c for c in SCOPE_CLASSES if c in by_cls])
        vs = by_cls[cls]
        chosen = rng.sample(vs, min(len(vs), 1 if rng.random() < 0.7 else rng.randint(2, 3)))
        non_tensor = any(v.type is not None and not isinstance(v.type, ir.TensorType) for v in chosen)
        for v in chosen:
            _erase_facet(v, facet, rng)
        what = f"'{facet}' annotation of {len(chosen) if len(chosen) > 1 else 'one'} value(s) in a {cls} graph erased at the fixpoint"
        if invariants.check_model(cur):
            ctx.count("facet_precondition_broken")
            return False, cur, False
        b0, _ = try_ser(cur)
        if b0 is None:
            ctx.count("facet_not_serialisable")
            return False, cur, False
        unordered0 = unordered_graphs(cur)
        undefined0 = undefined_uses(cur)
        keys0 = set(cur.functions)
        with Boundary(None) as boundary:
            try:
                res = p(cur)
            except Exception as e:  # noqa: BLE001
                if _identity_pass_error_in_chain(e):
                    viol(f"identity|{pname}|{variant}|PassError", f"{variant} {pname} ({what}): {e}"[:800])
                    return True, cur, False
                ctx.count("facet_pass_error:" + pname)
                return False, cur, False
        ctx.count("facets_applied")
        ctx.count("facet:" + facet)
        ctx.count("facet_scope:" + cls)
        if non_tensor:
            ctx.count("facet_on_non_tensor_value")
        if pname == "ShapeInferencePass":
            ctx.count("facet_inference_failed" if boundary.inference_failed() else "facet_inference_succeeded")
        if (res.model is cur) != bool(p.in_place):
            viol(f"identity|{pname}", f"{pname}.in_place={p.in_place} but result.model is input: {res.model is cur} ({what})")
            return True, cur, False
        out = res.model
        bad = invariants.check_model(out)
        if bad:
            viol(f"links|{pname}|{'+'.join(sorted({c for c, _ in bad}))}", f"after {pname} ({what}): " + "; ".join(m for _, m in bad[:5]))
            return True, cur, False
        if judge_calls(ctx, keys0, out, pname, f"after {variant} {pname} ({what})", viol):
            return True, cur, False
        if judge_defined(ctx, undefined0, out, pname, f"after {variant} {pname} ({what})", viol):
            return True, cur, False
        b1, e1 = try_ser(out)
        if b1 is None:
            viol(f"serialisation-broken|{pname}|{type(e1).__name__}@{raise_site(e1)}",
                 f"model serialised before {pname} ({what}) but raises after: {e1!r}"[:1200])
            return True, cur, False
        if b0 != b1:
            ctx.count("facet_effect:" + facet)   # the pass had an effect, and it was about this facet alone
        if not res.modified:
            ctx.count("flag_false_judged")
            ctx.count("facet_flag_false_judged")
            if b0 != b1:
                d = _first_proto_diff(b0, b1)
                viol(f"modified-false-but-changed|{pname}|{d[0]}",
                     f"{pname} at its fixpoint with the {what} reported modified=False but the serialised model changed: {d[1]}")
                return True, cur, False
        else:
            ctx.count("facet_modified_true:" + facet)
        if not unordered0 and unordered_graphs(out):
            viol(f"order-broken|{pname}", f"all graphs were topologically ordered before {pname} ({what}); some are not after it")
            return True, cur, False
        cur = out
        if not res.modified:
            continue
        # back to the fixpoint
        b, nbound, rounds, settled = b1, _model_bound(cur), 0, False
        while rounds < nbound:
            rounds += 1
            keys_r = set(cur.functions)
            try:
                r = p(cur)
            except Exception as e:  # noqa: BLE001
                if _identity_pass_error_in_chain(e):
                    viol(f"identity|{pname}|{variant}|PassError", f"{variant} {pname} re-settling ({what}): {e}"[:800])
                    return True, cur, False
                ctx.count("fixpoint_pass_error:" + pname)
                return False, cur, False
            if judge_calls(ctx, keys_r, r.model, pname, f"{variant} {pname} re-settling ({what})", viol):
                return True, cur, False
            nb, _ = try_ser(r.model)
            if not r.modified:
                if b is not None and nb is not None and nb != b:
                    d = _first_proto_diff(b, nb)
                    viol(f"modified-false-but-changed|{pname}|{d[0]}", f"{pname} (re-settling, {what}) reported modified=False but changed: {d[1]}")
                    return True, cur, False
                cur, settled = r.model, True
                break
            cur, b = r.model, nb
        ctx.count("facet_resettle_rounds", rounds)
        if not settled:
            viol(f"no-fixpoint|{pname}", f"{pname} still reports modified=True after {rounds} rounds (bound {nbound}) following the {what}")
            return True, cur, False
    return False, cur, True


def _is_tensor_name_alignment(w, entry) -> bool:
    """Serialising a model aligns an initializer tensor's own name with its value's name (allowed, see C03)."""
    label, field, a, b = entry
    if field != "const" or a is None or b is None or len(a) != len(b):
        return False
    v = w.values[int(label[1:])]
    t = v.const_value
    holders = {o.name for o in w.values if o.const_value is t and o.is_initializer()}
    return a[:3] == b[:3] and a[4:] == b[4:] and b[3] in holders


def _same_but_attr_tensor_names(b0, b1) -> bool:
    from vfpy import c14_protodiff

    return c14_protodiff.without_attr_tensor_names(b0) == c14_protodiff.without_attr_tensor_names(b1)


def _first_proto_diff(b0, b1):
    from vfpy import c14_protodiff

    return c14_protodiff.first_diff(b0, b1)


def _fn_rich(rng, pnames) -> bool:
    """more functions calling each other: most of the time for the passes that are about functions"""
    about_functions = any("fncall" in RELEVANT_ITEMS.get(n, ()) for n in pnames)
    return rng.random() < (0.8 if about_functions else 0.3)


def run_case(ctx, case):
    rng = ctx.rng(case, "run")
    names = list(PASS_FACTORIES)
    mode = rng.random()
    if 0.25 <= mode < 0.40:
        nontrivial, key, gen, model = judge_session(ctx, case, rng)
        ctx.evaluation(key=key + [case], nontrivial=bool(nontrivial))
        if case % 83 == 0 and model is not None:
            ctx.sample({"case": case, "what": key, "features": sorted(gen.features)[:12],
                        "nodes": sum(1 for g in all_graphs(model) for _ in g)})
        return
    fk = seq = pname = None
    if mode < 0.15:
        pname = rng.choice(sorted(ANALYSIS))
        fk = rng.choice(["lazy_raises", "checker_raises" if pname == "CheckerPass" else "infer_raises", "lazy_raises_big"])
        fn_rich = False
    elif mode < 0.25:
        seq = [rng.choice(names) for _ in range(rng.randint(2, 3))]
        fn_rich = _fn_rich(rng, seq)
    else:
        pname = names[case % len(names)] if rng.random() < 0.7 else rng.choice(names)
        fn_rich = _fn_rich(rng, [pname])
    # inference succeeds on checker-valid models only: the pass that is about annotations gets them most of the time
    model, gen, messy = build(ctx, case, fn_rich=fn_rich, p_exec=0.65 if (pname == "ShapeInferencePass" and fk is None) else 0.3)
    problems = iso_ir.well_scoped(model)
    if problems and not messy:
        ctx.count("skipped_not_well_scoped")
        return
    nontrivial = False
    if fk is not None:
        if fk.startswith("lazy_raises"):
            # the serialisation itself fails inside the ONNX-call helper
            add_failing_lazy_initializer(model, big=fk.endswith("big"))
        if rng.random() < 0.35:
            ctx.count("models_with_unloaded_initializers")
            add_unloaded_initializers(model, rng)
        ctx.count("fault:" + fk)
        judge_pass(ctx, model, pname, rng, case, fault_kind=fk)
        nontrivial = True
        key = [pname, fk]
    elif seq is not None:
        # composition: identity / flag / damage only
        nontrivial = judge_composition(ctx, model, seq, rng, case)
        key = ["seq"] + seq
    else:
        nontrivial = judge_pass(ctx, model, pname, rng, case, messy_names=messy, gen=gen)
        key = [pname]
    ctx.evaluation(key=key + [case], nontrivial=bool(nontrivial))
    if case % 83 == 0:
        ctx.sample({"case": case, "what": key, "features": sorted(gen.features)[:12],
                    "nodes": sum(1 for g in all_graphs(model) for _ in g)})


# ---- sessions: ONE instance, several models, edits in between ------------------------------------------
class _Slot:
    def __init__(self, tag, model, gen):
        self.tag, self.model, self.gen = tag, model, gen
        self.settled = False   # the instance's last application to this model reported no modification and nothing was edited since
        self.alive = True


def _session_slot(ctx, tag, case_id, fn_rich, quiet=False):
    model, gen, messy = build(_Quiet(ctx) if quiet else ctx, case_id, force_ir=True, fn_rich=fn_rich)
    if messy or iso_ir.well_scoped(model) or invariants.check_model(model) or try_ser(model)[0] is None:
        return None
    return _Slot(tag, model, gen)


def _session_edit(ctx, slot, rel, rng) -> bool:
    """one more pattern in a graph of a uniformly drawn scope class of the slot's model; False = the model
    no longer satisfies the harness preconditions (the slot is given up)"""
    model, gen = slot.model, slot.gen
    cls_of = scope_classes(model)
    by_cls = {}
    for g in all_graphs(model):
        vis = list(g.inputs) + list(g.initializers.values()) + [o for n in g for o in n.outputs if o.name]
        if vis:
            by_cls.setdefault(cls_of.get(id(g), "main"), []).append((g, vis))
    if not by_cls:
        return True
    cls = rng.choice([c for c in SCOPE_CLASSES if c in by_cls])
    g, vis = rng.choice(by_cls[cls])
    k = rng.random()
    kind = "fncall" if k < 0.25 else rng.choice(rel) if (rel and k < 0.7) else rng.choice(ITEM_KINDS)
    planted = []
    plant_item(model, g, vis, gen, kind, planted)
    if rng.random() < 0.3:
        plant_scope_and_clash(g, vis, planted, gen, p_scope=0.5, p_clash=0.8)
    slot.settled = False
    ctx.count("session_edits")
    ctx.count("session_edit:" + kind)
    ctx.count("session_edit_scope:" + cls)
    if invariants.check_model(model) or iso_ir.well_scoped(model) or try_ser(model)[0] is None:
        ctx.count("session_edit_precondition_broken")
        slot.alive = False
        return False
    return True


def _flip_roles(ctx, slot, rng) -> None:
    """The twin keeps the identifiers of its original but gives them other ROLES: calls from the main graph
    to model-local functions are taken out (where nothing uses their outputs) and functions that were not
    reachable from the main graph get a call there."""
    model, gen = slot.model, slot.gen
    main = model.graph
    keys = set(model.functions)
    live = reachable_from_main(model)
    flips = 0
    for n in list(main):
        if _nkey(n) in keys and not any(o.uses() or o.is_graph_output() for o in n.outputs) and rng.random() < 0.5:
            main.remove(n, safe=True)
            flips += 1
    vis = list(main.inputs) + list(main.initializers.values()) + [o for n in main for o in n.outputs if o.name]
    for k in sorted(keys - live, key=str):
        if rng.random() < 0.4:
            add_call(model, main, None, model.functions[k], vis, gen, p_output=0.3)
            flips += 1
    ctx.count("session_twin_role_flips", flips)
    if flips and (invariants.check_model(model) or iso_ir.well_scoped(model) or try_ser(model)[0] is None):
        ctx.count("session_edit_precondition_broken")
        slot.alive = False


def _compare_with_fresh(ctx, p, fresh, b0, sig) -> None:
    """REPORT-ONLY: the reused instance and a fresh instance with the same parameters, each applied to its own
    deserialised copy of the same bytes (the model under observation is not touched): a deterministic pass
    without memory gives the same flag and the same bytes."""
    try:
        c1 = ir.from_proto(onnx.ModelProto.FromString(b0))
        c2 = ir.from_proto(onnx.ModelProto.FromString(b0))
    except Exception:  # noqa: BLE001
        ctx.count("session_copy_failed")
        return
    outcome = []
    for inst, m in ((p, c1), (fresh(), c2)):
        try:
            r = inst(m)
            outcome.append((bool(r.modified), try_ser(r.model)[0]))
        except Exception as e:  # noqa: BLE001
            outcome.append(("raised", type(e).__name__))
    ctx.count("session_fresh_instance_comparisons")
    if outcome[0] != outcome[1]:
        ctx.count(f"report_only_reused_instance_differs_from_fresh:{sig}")


def judge_session(ctx, case, rng):
    """ONE pass (or composition) instance, 4-8 applications over up to three models: A, a twin of A built
    from the same random stream and then edited (same function identifiers, other bodies), and an unrelated
    model; models are edited between applications. Every application is judged on the single-application
    clauses; a model the instance left with modified=False must still be a fixpoint when it comes back."""
    names = list(PASS_FACTORIES)
    rep = {"case": case, "seed": ctx.seed, "mode": "session"}
    viol = lambda sig, msg: ctx.violation(sig, msg, rep)  # noqa: E731
    fresh = None
    if rng.random() < 0.2:
        seq = [rng.choice(names) for _ in range(rng.randint(2, 3))]
        p, label, kind, _ = make_composition(ctx, seq, rng)
        label = f"{type(p).__name__}({label})"
        sig, idsig, single, rel = "composition", f"composition|{kind}", False, None
        key = ["session", "seq"] + seq
        fn_rich = _fn_rich(rng, seq)
    else:
        pname = names[case % len(names)] if rng.random() < 0.7 else rng.choice(names)
        pseed = rng.getrandbits(32)
        functional = rng.random() < 0.12
        label = f"functionalize({pname})" if functional else pname

        def fresh():
            q = PASS_FACTORIES[pname](random.Random(pseed))
            return ir.passes.functionalize(q) if functional else q

        p = fresh()
        sig, idsig, single, rel = pname, pname, True, RELEVANT_ITEMS.get(pname)
        key = ["session", pname]
        fn_rich = _fn_rich(rng, [pname])
    ctx.count("sessions")
    # the models
    slots = []
    base_case = None
    for t in range(4):
        s = _session_slot(ctx, "A", case + 100003 * t, fn_rich)
        if s is not None:
            base_case = case + 100003 * t
            slots.append(s)
            break
    if base_case is None:
        ctx.count("session_no_model")
        return False, key, None, None
    if rng.random() < 0.8:
        twin = _session_slot(ctx, "twin", base_case, fn_rich, quiet=True)
        if twin is not None:
            if rng.random() < 0.6:
                _flip_roles(ctx, twin, rng)
            for _ in range(rng.randint(1, 2)):
                if not twin.alive or not _session_edit(ctx, twin, rel, rng):
                    break
            if twin.alive:
                slots.append(twin)
                ctx.count("session_twins")
    if rng.random() < 0.6:
        other = _session_slot(ctx, "other", case + 7919, fn_rich)
        if other is not None:
            slots.append(other)
    first = slots[0]
    any_modified = False
    last, wandered = None, False
    for step in range(rng.randint(4, 8)):
        live = [s for s in slots if s.alive]
        if not live:
            break
        elsewhere = [s for s in live if s is not last]
        slot = rng.choice(elsewhere) if (elsewhere and rng.random() < 0.8) else rng.choice(live)
        if step > 0 and rng.random() < 0.4:
            if not _session_edit(ctx, slot, rel, rng):
                continue
        model = slot.model
        where = f"application {step + 1} of ONE {label} instance (to model {slot.tag!r}" + \
            (f", after model {last.tag!r}" if last is not None and last is not slot else "") + ")"
        b0, _ = try_ser(model)
        keys0 = set(model.functions)
        unordered0 = unordered_graphs(model)
        unnamed0 = unnamed_used(model)
        undefined0 = undefined_uses(model)
        compare_when = rng.choice(["before", "after"]) if (fresh is not None and b0 is not None and rng.random() < 0.4) else None
        if compare_when == "before":
            _compare_with_fresh(ctx, p, fresh, b0, sig)
            wandered = True   # the instance has been somewhere else (on a copy) in between
        try:
            res = p(model)
        except Exception as e:  # noqa: BLE001
            if _identity_pass_error_in_chain(e):
                viol(f"identity|{idsig}|PassError", f"{where}: {e}"[:800])
                return True, key, first.gen, first.model
            ctx.count("session_pass_error")
            ctx.count(f"session_pass_exc:{type(e).__name__}")
            slot.alive = False   # the model may be half rewritten; the INSTANCE goes on
            last, wandered = slot, False
            continue
        ctx.count("session_applications")
        ctx.count("session_applied:" + (sig if single else "composition"))
        if slot.tag == "twin":
            ctx.count("session_twin_applications")
        interleaved = last is not None and (last is not slot or wandered)
        if interleaved:
            ctx.count("session_applications_after_other_model")
        if (res.model is model) != bool(p.in_place):
            viol(f"identity|{idsig}", f"{where}: in_place={p.in_place} but result.model is input: {res.model is model}")
            return True, key, first.gen, first.model
        out = res.model
        bad = invariants.check_model(out)
        if bad:
            viol(f"links|{sig}|{'+'.join(sorted({c for c, _ in bad}))}", f"{where}: " + "; ".join(m for _, m in bad[:5]))
            return True, key, first.gen, first.model
        if judge_calls(ctx, keys0, out, sig, where, viol):
            return True, key, first.gen, first.model
        if judge_defined(ctx, undefined0, out, sig, where, viol):
            return True, key, first.gen, first.model
        b1, e1 = try_ser(out)
        if b0 is not None and b1 is None:
            viol(f"serialisation-broken|{sig}|{type(e1).__name__}@{raise_site(e1)}", f"{where}: model serialised before but raises after: {e1!r}"[:1200])
            return True, key, first.gen, first.model
        if not res.modified:
            ctx.count("flag_false_judged")
            ctx.count("session_flag_false_judged")
            if b0 is not None and b1 is not None and b0 != b1:
                d = _first_proto_diff(b0, b1)
                viol(f"modified-false-but-changed|{sig}|{d[0]}", f"{where} reported modified=False but the serialised model changed: {d[1]}")
                return True, key, first.gen, first.model
        if not unordered0 and unordered_graphs(out):
            viol(f"order-broken|{sig}", f"{where}: all graphs were topologically ordered before; some are not after it")
            return True, key, first.gen, first.model
        if unnamed0 == 0 and unnamed_used(out) > 0:
            viol(f"name-lost|{sig}", f"{where}: {unnamed_used(out)} used value(s) have no name after it")
            return True, key, first.gen, first.model
        if single and slot.settled:
            # this instance reported no modification (and changed nothing) on this very model before and the
            # model was not touched since: it is in the state the convergence clause speaks of
            between = "after-other-model" if interleaved else "immediately"
            ctx.count("session_returns_to_settled_model_" + between.replace("-", "_"))
            if res.modified or (b0 is not None and b1 is not None and b0 != b1):
                viol(f"fixpoint-lost-on-reuse|{sig}|{between}",
                     f"{where}: the instance had reported modified=False on this model and the model was not edited since, "
                     f"now modified={res.modified}, serialised model changed: {b0 != b1}")
                return True, key, first.gen, first.model
        wandered = False
        if compare_when == "after":
            _compare_with_fresh(ctx, p, fresh, b0, sig)
            wandered = True
        any_modified = any_modified or bool(res.modified)
        slot.settled = (not res.modified) and b0 is not None and b0 == b1
        slot.model = out
        last = slot
    return any_modified, key, first.gen, first.model


def _is_identity_pass_error(e) -> bool:
    """PassBase raises PassError when a (composite) pass returns the wrong object for its declared
    in_place property: that is the infrastructure noticing a broken identity contract."""
    return isinstance(e, ir.passes.PassError) and e.__cause__ is None and "declared" in str(e) and "in-place" in str(e)


def _identity_pass_error_in_chain(e) -> bool:
    """Sequential / PassManager wrap the error of a member pass in a PassError `from` it: the identity
    enforcement may have fired for a member (e.g. a functionalize()d pass) and sit deeper in the chain."""
    seen = 0
    while e is not None and seen < 20:
        if _is_identity_pass_error(e):
            return True
        e, seen = e.__cause__, seen + 1
    return False


def make_composition(ctx, seq, rng):
    passes = []
    wrapped = []
    for n in seq:
        p = PASS_FACTORIES[n](rng)
        if rng.random() < 0.35:
            p = ir.passes.functionalize(p)
            wrapped.append(n)
        passes.append(p)
    comp = ir.passes.PassManager(passes, steps=rng.randint(1, 3), early_stop=rng.random() < 0.5) if rng.random() < 0.5 \
        else ir.passes.Sequential(*passes)
    name = "+".join(("f(%s)" % n) if n in wrapped else n for n in seq)
    kind = type(comp).__name__ + ("|functional" if wrapped else "")
    if rng.random() < 0.15:
        # the composition as a whole made functional (whatever its own in_place / changes_input are)
        ctx.count(f"functionalized_compositions:in_place={comp.in_place},changes_input={comp.changes_input}")
        comp = ir.passes.functionalize(comp)
        name = "f(%s)" % name
        kind = "functionalize(" + kind.split("|")[0] + ")|functional"
    return comp, name, kind, wrapped


def judge_composition(ctx, model, seq, rng, case):
    comp, name, kind, wrapped = make_composition(ctx, seq, rng)
    rep = {"case": case, "seed": ctx.seed}
    cur = model
    any_modified = False
    for round_ in (1, 2):  # the second application runs at (or near) the fixpoint
        b0, _ = try_ser(cur)
        keys0 = set(cur.functions)
        undefined0 = undefined_uses(cur)
        try:
            res = comp(cur)
        except Exception as e:  # noqa: BLE001
            if _identity_pass_error_in_chain(e):
                ctx.violation(f"identity|composition|{kind}|PassError", f"round {round_} of {type(comp).__name__}({name}) raised: {e}"[:800], rep)
                return True
            ctx.count("composition_error")
            return any_modified
        ctx.count("compositions_applied")
        if wrapped:
            ctx.count("compositions_with_functional_passes")
        if (res.model is cur) != bool(comp.in_place):
            ctx.violation(f"identity|composition|{kind}", f"{type(comp).__name__}({name}).in_place={comp.in_place}, same object={res.model is cur}", rep)
            return True
        if not comp.changes_input:
            ctx.count("compositions_not_changing_input_judged")
            b_in, _ = try_ser(cur)
            if b0 is not None and b_in is not None and b_in != b0 and _same_but_attr_tensor_names(b0, b_in):
                # a clone shares its tensors with the original by documented design, and serialising the
                # copy aligns the own name of a tensor that became an initializer there (allowed, see C03):
                # seen through a Constant attribute of the input this is not a change of the input MODEL
                ctx.count("report_only_shared_attr_tensor_renamed_through_copy")
            elif b0 is not None and b_in is not None and b_in != b0:
                d = _first_proto_diff(b0, b_in)
                ctx.violation(f"input-changed|composition|{kind}", f"{name}: changes_input=False but the input model changed: {d[1]}", rep)
                return True
        bad = invariants.check_model(res.model)
        if bad:
            ctx.violation(f"links|composition|{'+'.join(sorted({c for c, _ in bad}))}", f"after {name}: " + "; ".join(m for _, m in bad[:4]), rep)
            return True
        if judge_calls(ctx, keys0, res.model, "composition", f"round {round_} of {type(comp).__name__}({name})",
                       lambda sig, msg: ctx.violation(sig, msg, rep)):
            return True
        if judge_defined(ctx, undefined0, res.model, "composition", f"round {round_} of {type(comp).__name__}({name})",
                         lambda sig, msg: ctx.violation(sig, msg, rep)):
            return True
        b1, _ = try_ser(res.model)
        if not res.modified:
            ctx.count("flag_false_judged")
            if b0 is not None and b1 is not None and b0 != b1:
                d = _first_proto_diff(b0, b1)
                ctx.violation(f"modified-false-but-changed|composition|{d[0]}", f"{name} reported modified=False but changed: {d[1]}", rep)
                return True
        any_modified = any_modified or bool(res.modified)
        cur = res.model
    return any_modified


def run_case_isolated(ctx, case):
    """Cases that reach the ONNX C++ API run in a forked child: a crash inside onnx on a structural
    model (not a claim of this property) must not take the shard down."""
    import json
    import os
    import tempfile

    from vfpy.ctx import Ctx

    fd, path = tempfile.mkstemp(dir=os.environ.get("VF_SHARD_TMP"), suffix=".json")
    os.close(fd)
    pid = os.fork()
    if pid == 0:
        code = 0
        try:
            sub = Ctx(ctx.prop, ctx.tier, ctx.seed, ctx.shard, ctx.nshards, 1, 600.0, ctx.params)
            run_case(sub, case)
            sub.dump(path)
        except BaseException:  # noqa: BLE001
            import traceback

            with open(path, "w") as f:
                json.dump({"harness_error": traceback.format_exc()}, f)
            code = 3
        os._exit(code)
    import signal
    import time

    deadline = time.monotonic() + 120
    status = None
    while True:
        done, st = os.waitpid(pid, os.WNOHANG)
        if done:
            status = st
            break
        if time.monotonic() > deadline:
            # not a verdict (no wall-clock verdicts): recorded so that the case can be examined
            os.kill(pid, signal.SIGKILL)
            os.waitpid(pid, 0)
            ctx.count("child_watchdog_killed")
            ctx.note(f"case {case} (seed {ctx.seed}) did not finish within 120 s and was killed")
            os.unlink(path)
            return
        time.sleep(0.002)
    try:
        data = json.loads(open(path).read() or "{}")
    except Exception:  # noqa: BLE001
        data = {}
    finally:
        os.unlink(path)
    if os.WIFSIGNALED(status):
        ctx.count(f"child_died_in_onnx_call:signal{os.WTERMSIG(status)}")
        return
    if "harness_error" in data:
        raise RuntimeError("harness error in isolated case %d: %s" % (case, data["harness_error"]))
    for k, v in data.get("counters", {}).items():
        ctx.count(k, v)
    ctx.evaluations += data.get("evaluations", 0)
    ctx.nontrivial.update(data.get("nontrivial", []))
    for smp in data.get("samples", []):
        ctx.sample(smp)
    for v in data.get("violations", []):
        ctx.counters["violations_raw"] -= v["count"]  # counted again by violation()
        ctx.violation(v["signature"], v["message"], v["replay"])


def reaches_onnx_c_api(ctx, case) -> bool:
    rng = ctx.rng(case, "run")
    # mirror of the first draws of run_case: cheap and deterministic
    return True


def run(ctx) -> None:
    for case in ctx.case_ids():
        run_case_isolated(ctx, case)


def replay(data, ctx) -> None:
    ctx.seed = data.get("seed", ctx.seed)
    run_case(ctx, data["case"])
