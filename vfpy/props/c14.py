"""C14 - passes honour their contract: identity, modified flag, fixpoint, no damage.

For every built-in pass P and generated model M the monitors check, on the real pass objects:
  identity     result.model is M  <=>  P.in_place
  flag         modified=False  =>  deterministic serialisation of the model is byte-identical
  fixpoint     iterating P reaches, within #nodes+#values+#functions+2 rounds, a round that reports
               no modification and changes nothing
  links        the C01 invariant walker holds on the result
  order        graphs that were topologically ordered stay ordered
  names        every used value keeps a non-empty name; serialisation that worked still works
  analysis     CheckerPass, and ShapeInferencePass when inference fails, leave the model exactly
               unchanged (all-observables snapshot) - also when serialisation or the ONNX call fails
               (faults injected at the ONNX boundary).
Every pass is also run under functionalize() (analysis passes and whole compositions included), and, once a
pass has settled, ONE more pattern is planted and the pass applied again (one_item_at_fixpoint): what the pass
does with a single opportunity - in particular declining it behind a guard - is then judged on its own.
"""

from __future__ import annotations

import numpy as np
import onnx
import onnx_ir as ir
import onnx_ir.passes.common as P

from vfpy import gen_ir, invariants, iso_ir, snapshot
from vfpy.histories import raise_site
from vfpy.world import World

ID = "C14"
LEVEL = "exploration"
RULE = ("a case = (generated model with pass bait: Identity/Constant nodes, duplicate subexpressions and "
        "initializers, unused nodes/functions/opsets, function calls, subgraph initializers, missing/duplicate "
        "names, optional trailing outputs, Identity outputs knowing more/less type and shape than their inputs, "
        "a producer placed after its consumer in ONE graph (main / nested in main / function body / nested in a "
        "function body - single items at the pass's fixpoint are stratified over these scope classes), "
        "inner scopes whose values share a name with a value of an enclosing graph) x one built-in pass (all 19, "
        "plain or under functionalize(), analysis passes included) or a Sequential/PassManager composition "
        "(members and/or the whole composition under functionalize()), "
        "with or without an injected fault at the ONNX boundary; non-trivial = the pass reported modified=True at "
        "least once or a fault was injected; distinct = (pass, hash of serialized model)")
ASSUMPTIONS = [
    "protobuf deterministic serialisation decides 'serializes exactly as before'",
    "fixpoint is demanded of each built-in pass individually, not of compositions (inverse passes legitimately never settle)",
    "models satisfy the C01 clauses and are well scoped before the pass (harness precondition)",
    "ShapeInferencePass is judged as an analysis pass only when inference failed (raised inside or injected fault)",
    "a PassError raised by PassBase's own in_place enforcement (anywhere in the cause chain) is the identity clause failing",
    "clones share tensors by design: the OWN name of a tensor held by a node attribute of the input changing through a copy is report-only",
    "value names may collide ACROSS scopes in generated models (the IR permits it; passes guard their renames against it)",
]

PASS_FACTORIES = {
    "AddDefaultAttributesPass": lambda r: P.AddDefaultAttributesPass(),
    "AddInitializersToInputsPass": lambda r: P.AddInitializersToInputsPass(),
    "CheckerPass": lambda r: P.CheckerPass(full_check=r.random() < 0.3),
    "ClearMetadataAndDocStringPass": lambda r: P.ClearMetadataAndDocStringPass(),
    "CommonSubexpressionEliminationPass": lambda r: P.CommonSubexpressionEliminationPass(size_limit=r.choice([0, 10, 1000])),
    "DeduplicateHashedInitializersPass": lambda r: P.DeduplicateHashedInitializersPass(size_limit=r.choice([1, 64, 4 * 1024**3])),
    "DeduplicateInitializersPass": lambda r: P.DeduplicateInitializersPass(size_limit=r.choice([1, 64, 1024])),
    "IdentityEliminationPass": lambda r: P.IdentityEliminationPass(),
    "InlinePass": lambda r: P.InlinePass(),
    "LiftConstantsToInitializersPass": lambda r: P.LiftConstantsToInitializersPass(lift_all_constants=r.random() < 0.5, size_limit=r.choice([0, 16])),
    "LiftSubgraphInitializersToMainGraphPass": lambda r: P.LiftSubgraphInitializersToMainGraphPass(),
    "NameFixPass": lambda r: P.NameFixPass(),
    "OutputFixPass": lambda r: P.OutputFixPass(),
    "RemoveInitializersFromInputsPass": lambda r: P.RemoveInitializersFromInputsPass(),
    "RemoveUnusedFunctionsPass": lambda r: P.RemoveUnusedFunctionsPass(),
    "RemoveUnusedNodesPass": lambda r: P.RemoveUnusedNodesPass(),
    "RemoveUnusedOpsetsPass": lambda r: P.RemoveUnusedOpsetsPass(process_functions=r.random() < 0.7),
    "ShapeInferencePass": lambda r: P.ShapeInferencePass(),
    "TopologicalSortPass": lambda r: P.TopologicalSortPass(),
}
ANALYSIS = {"CheckerPass", "ShapeInferencePass"}


def plan(tier: str) -> dict:
    quick = tier == "quick"
    floors = {f"applied:{n}": (6 if quick else 300) for n in PASS_FACTORIES if n != "CheckerPass"}
    floors["applied:CheckerPass"] = 3 if quick else 150
    floors.update({"flag_false_judged": 300 if quick else 10000, "fixpoint_runs": 200 if quick else 8000,
                   "analysis_snapshots": 40 if quick else 1500, "faults_injected": 20 if quick else 800,
                   "applied_functional:CheckerPass": 2 if quick else 40,
                   "at_fixpoint_flag_false_judged": 150 if quick else 3000,
                   "models_with_bait:cross_scope_name_clash": 100 if quick else 2000,
                   # one item at the fixpoint, by the scope class of the graph it was planted in
                   "at_fixpoint_scope:main_nested": 120 if quick else 2500,
                   "at_fixpoint_scope:function": 50 if quick else 1000,
                   "at_fixpoint_scope:function_nested": 40 if quick else 800,
                   "at_fixpoint_item_scope:disorder@function_nested": 3 if quick else 60,
                   "at_fixpoint_modified_true:TopologicalSortPass": 20 if quick else 400})
    return {"cases": 2600 if quick else 60000, "shards": 16, "budget_s": 40 if quick else 560,
            "floors": floors, "min_nontrivial": 100}


# ---- model source ---------------------------------------------------------------------------------
def all_graphs(model):
    out, stack, seen = [], [model.graph] + [f.graph for f in model.functions.values()], set()
    while stack:
        g = stack.pop()
        if id(g) in seen:
            continue
        seen.add(id(g))
        out.append(g)
        for n in g:
            for a in n.attributes.values():
                if isinstance(a, ir.Attr) and not a.is_ref():
                    if a.type == ir.AttributeType.GRAPH:
                        stack.append(a.value)
                    elif a.type == ir.AttributeType.GRAPHS:
                        stack.extend(a.value)
    return out


def nested_graphs_of(g) -> list:
    """graphs nested at any depth in the nodes of g (g itself excluded)"""
    out, stack = [], [g]
    while stack:
        cur = stack.pop()
        for n in cur:
            for a in n.attributes.values():
                if isinstance(a, ir.Attr) and not a.is_ref():
                    subs = [a.value] if a.type == ir.AttributeType.GRAPH else (list(a.value) if a.type == ir.AttributeType.GRAPHS else [])
                    out.extend(subs)
                    stack.extend(subs)
    return out


SCOPE_CLASSES = ("main", "main_nested", "function", "function_nested")


def scope_classes(model) -> dict:
    """id(graph) -> where the graph sits: the main graph, a graph nested (at any depth) in a node of the
    main graph, the body of a model-local function, or a graph nested in a node of a function body."""
    out = {id(model.graph): "main"}
    for sg in nested_graphs_of(model.graph):
        out.setdefault(id(sg), "main_nested")
    for f in model.functions.values():
        out.setdefault(id(f.graph), "function")
        for sg in nested_graphs_of(f.graph):
            out.setdefault(id(sg), "function_nested")
    return out


def plant_scope(g, vis, gen: gen_ir.IRGen):
    """A control-flow shaped node at the end of g whose branch graphs define their own values (graph
    inputs, an initializer, node outputs) and capture values of g: an inner scope below g."""
    rng = gen.rng
    with_inputs = rng.random() < 0.3

    def branch():
        ins = [gen.value()] if with_inputs else []
        inits = []
        if rng.random() < 0.3:
            nm = gen.fresh("bw")
            inits.append(ir.Value(name=nm, const_value=ir.tensor(np.array([1.0, 2.0], dtype=np.float32), name=nm),
                                  type=ir.TensorType(ir.DataType.FLOAT), shape=ir.Shape([2])))
        nodes = []
        cur = rng.choice(vis + ins + inits)
        for _ in range(rng.randint(1, 2)):
            nodes.append(ir.Node("", rng.choice(["Abs", "Neg", "Relu"]), [cur], outputs=[gen.value()]))
            cur = nodes[-1].outputs[0]
        return ir.Graph(ins, [cur], nodes=nodes, initializers=inits, name=rng.choice([None, gen.fresh("branch")]))

    if with_inputs:
        attrs = [ir.AttrGraph("body", branch())]
        op = "Scan"
    else:
        attrs = [ir.AttrGraph("then_branch", branch()), ir.AttrGraph("else_branch", branch())]
        op = "If"
    n = ir.Node("", op, [rng.choice(vis)], attrs, outputs=[gen.value()], name=rng.choice([None, gen.fresh("scope")]))
    g.append(n)
    gen.features.add("bait:inner_scope")
    return n


def plant_name_clash(g, planted, gen: gen_ir.IRGen) -> int:
    """Give a value DEFINED in a graph nested below g (input, initializer or node output) the name of a
    value of g itself (preferring values g returns and values the bait planted): the serialised names
    collide across scopes, which the IR permits and several passes guard their renames against."""
    rng = gen.rng
    victims = []
    for sg in nested_graphs_of(g):
        victims += list(sg.inputs) + list(sg.initializers.values()) + [o for n in sg for o in n.outputs if o.name]
    if not victims:
        return 0
    own = [v for v in list(g.inputs) + list(g.initializers.values()) + [o for n in g for o in n.outputs] if v.name]
    produced_outputs = [v for v in g.outputs if v.name and v.producer() is not None and v.producer().graph is g]
    planted = [v for v in planted if v.name]
    planted_outputs = [v for v in produced_outputs if any(v is x for x in planted)]
    # every returned value the bait planted is a likely target; a few more targets from the other classes
    targets = [v for v in planted_outputs if rng.random() < 0.6]
    for _ in range(rng.randint(0, 2)):
        r = rng.random()
        pool = produced_outputs if (produced_outputs and r < 0.5) else planted if (planted and r < 0.75) else own
        if pool:
            targets.append(rng.choice(pool))
    rng.shuffle(victims)
    done = 0
    for target in targets:
        if not victims:
            break
        victim = victims.pop()
        if victim is target or victim.name == target.name:
            continue
        try:
            victim.name = target.name
        except ValueError:
            continue  # e.g. the nested graph already has an initializer of that name
        done += 1
    if done:
        gen.features.add("bait:cross_scope_name_clash")
    return done


ITEM_KINDS = ("identity", "dup", "constant", "unused", "optout", "dupinit", "inout", "disorder")
# the kind of planted pattern each pass is about (used when ONE item is planted at the pass's fixpoint)
RELEVANT_ITEMS = {
    "IdentityEliminationPass": ("identity",),
    "CommonSubexpressionEliminationPass": ("dup", "constant"),
    "LiftConstantsToInitializersPass": ("constant",),
    "RemoveUnusedNodesPass": ("unused", "optout"),
    "DeduplicateInitializersPass": ("dupinit",),
    "DeduplicateHashedInitializersPass": ("dupinit",),
    "OutputFixPass": ("inout", "identity"),
    "AddInitializersToInputsPass": ("dupinit",),
    "RemoveInitializersFromInputsPass": ("dupinit",),
    "TopologicalSortPass": ("disorder",),
}


def plant_item(model, g, vis, gen: gen_ir.IRGen, kind: str, planted: list) -> None:
    """One pattern of the given kind appended to graph g (vis = values of g itself; extended)."""
    rng = gen.rng
    main = model.graph
    is_fn = any(f.graph is g for f in model.functions.values())
    src = rng.choice(vis)
    if kind == "identity":
        # information asymmetry between the two ends of the Identity: the output may know a type /
        # shape / concrete dims that its input lacks (the pass then merges), or the other way round
        weak = [v for v in vis if v.producer() is not None and (v.type is None or v.shape is None)]
        produced = [v for v in vis if v.producer() is not None]
        if weak and rng.random() < 0.4:
            src = rng.choice(weak)
        elif produced and rng.random() < 0.4:
            src = rng.choice(produced)
        out = gen.value(typed=True if rng.random() < 0.4 else None)
        if src.type is not None and src.shape is not None and rng.random() < 0.5:
            out.type = src.type
            out.shape = ir.Shape([d if isinstance(d, int) else rng.randint(1, 4) for d in src.shape])
            gen.features.add("bait:identity_refines_shape")
        n = ir.Node("", "Identity", [src], outputs=[out], name=rng.choice([None, gen.fresh("id")]))
        g.append(n)
        if rng.random() < 0.6:
            g.outputs.append(n.outputs[0])
        vis.append(n.outputs[0])
        planted.append(n.outputs[0])
    elif kind == "dup":
        attrs = [ir.AttrInt64("axis", rng.choice([0, 1]))]
        a = ir.Node("", "Neg", [src], attrs, outputs=[gen.value()])
        b = ir.Node("", "Neg", [src], [ir.AttrInt64("axis", attrs[0].value if rng.random() < 0.7 else 5)], outputs=[gen.value()])
        g.extend([a, b])
        c = ir.Node("", "Add", [a.outputs[0], b.outputs[0]], outputs=[gen.value()])
        g.append(c)
        if rng.random() < 0.5:
            g.outputs.append(c.outputs[0])
        vis.extend([a.outputs[0], b.outputs[0], c.outputs[0]])
        planted.append(c.outputs[0])
    elif kind == "constant":
        form = rng.choice(["value", "value_float", "value_ints", "value_int", "value_floats"])
        attr = {"value": lambda: ir.AttrTensor("value", ir.tensor(np.array(rng.choice([[1.0, 2.0], [3.0]]), dtype=np.float32))),
                "value_float": lambda: ir.AttrFloat32("value_float", 1.5),
                "value_ints": lambda: ir.AttrInt64s("value_ints", [1, 2, 3]),
                "value_int": lambda: ir.AttrInt64("value_int", 7),
                "value_floats": lambda: ir.AttrFloat32s("value_floats", [0.5, 0.25])}[form]()
        n = ir.Node("", "Constant", [], [attr], outputs=[gen.value(typed=False)])
        g.append(n)
        u = ir.Node("", "Relu", [n.outputs[0]], outputs=[gen.value()])
        g.append(u)
        if rng.random() < 0.5:
            g.outputs.append(u.outputs[0])
        planted.extend([n.outputs[0], u.outputs[0]])
    elif kind == "unused":
        g.append(ir.Node("", "Relu", [src], outputs=[gen.value()]))  # unused node
    elif kind == "optout":
        # real ONNX ops whose OPTIONAL outputs sit in non-trailing positions (unused-output trimming)
        g.opset_imports.setdefault("", 18) if g is main or is_fn else None
        main.opset_imports.setdefault("", 18)
        x = src
        if rng.random() < 0.5:
            n = ir.Node("", "LayerNormalization", [x, x], [ir.AttrInt64("axis", -1)],
                        outputs=[gen.value(), gen.value(), gen.value()], name=gen.fresh("ln"))
            used = [0, 2]
        else:
            n = ir.Node("", "LSTM", [x, x, x], [ir.AttrInt64("hidden_size", 2)],
                        outputs=[gen.value(), gen.value(), gen.value()], name=gen.fresh("lstm"))
            used = [1] if rng.random() < 0.5 else [2]
        g.append(n)
        for j in used:
            g.outputs.append(n.outputs[j])
            planted.append(n.outputs[j])
    elif kind == "dupinit":
        if is_fn:
            return
        arr = np.array(rng.choice([[1, 2, 3], [4, 5]]), dtype=np.int64)
        for _ in range(2):  # duplicate initializers (same bytes), used
            name = gen.fresh("dupw")
            v = ir.Value(name=name, const_value=ir.tensor(arr.copy(), name=name), type=ir.TensorType(ir.DataType.INT64),
                         shape=ir.Shape(list(arr.shape)))
            g.initializers.add(v)
            g.append(ir.Node("", "Abs", [v], outputs=[gen.value()]))
            if g is main and rng.random() < 0.3 and v not in list(g.inputs):
                g.inputs.append(v)
    elif kind == "inout":
        if g.inputs and not is_fn:
            g.outputs.append(rng.choice(list(g.inputs)))  # graph input returned directly (OutputFixPass)
    elif kind == "disorder":
        # ONE local disorder confined to g: a producer placed after a node of g that consumes its value
        # (directly, or captured inside a graph nested in that node). Every other graph keeps its order.
        pairs = []
        if rng.random() < 0.5:
            pos = {id(n): i for i, n in enumerate(g)}
            for c in g:
                for v in _values_used_by(c):
                    pr = v.producer()
                    if pr is not None and pr is not c and id(pr) in pos and pos[id(pr)] < pos[id(c)]:
                        pairs.append((pr, c))
        if pairs:
            pr, c = rng.choice(pairs)
            g.remove(pr)           # still connected: only its position changes
            g.insert_after(c, pr)
            gen.features.add("bait:disorder_moved_producer")
        else:
            a = ir.Node("", "Relu", [src], outputs=[gen.value()], name=rng.choice([None, gen.fresh("late")]))
            if rng.random() < 0.3:
                # the consumer uses the value only inside its nested graph (a capture)
                inner = ir.Node("", "Abs", [a.outputs[0]], outputs=[gen.value()])
                body = ir.Graph([], [inner.outputs[0]], nodes=[inner], name=rng.choice([None, gen.fresh("cap")]))
                b = ir.Node("", "If", [src], [ir.AttrGraph("then_branch", body)], outputs=[gen.value()])
                gen.features.add("bait:disorder_through_capture")
            else:
                b = ir.Node("", "Neg", [a.outputs[0]], outputs=[gen.value()])
            g.extend([b, a])
            if rng.random() < 0.5:
                g.outputs.append(b.outputs[0])
            vis.extend([a.outputs[0], b.outputs[0]])
            planted.append(b.outputs[0])
            gen.features.add("bait:disorder_new_pair")
    else:
        raise ValueError(kind)


def _values_used_by(n):
    """values a node uses directly or inside the graphs nested in it"""
    for v in n.inputs:
        if v is not None:
            yield v
    for a in n.attributes.values():
        if isinstance(a, ir.Attr) and not a.is_ref():
            subs = [a.value] if a.type == ir.AttributeType.GRAPH else (list(a.value) if a.type == ir.AttributeType.GRAPHS else [])
            for sg in subs:
                for m in sg:
                    yield from _values_used_by(m)


def plant_scope_and_clash(g, vis, planted, gen: gen_ir.IRGen, p_scope=0.6, p_clash=0.85) -> None:
    """inner scopes below g and names that collide across scopes (rename guards of the passes)"""
    rng = gen.rng
    if rng.random() < (0.15 if nested_graphs_of(g) else p_scope):
        sn = plant_scope(g, vis, gen)
        if rng.random() < 0.3:
            g.outputs.append(sn.outputs[0])
    if rng.random() < p_clash:
        plant_name_clash(g, planted, gen)


def bait(model: ir.Model, gen: gen_ir.IRGen) -> None:
    """Plant patterns the passes rewrite, through the public API, keeping the model well scoped."""
    rng = gen.rng
    graphs = all_graphs(model)
    main = model.graph
    for g in graphs:
        is_fn = any(f.graph is g for f in model.functions.values())
        vis = list(g.inputs) + list(g.initializers.values()) + [o for n in g for o in n.outputs if o.name]
        if not vis or rng.random() < 0.35:
            continue
        planted = []
        # Identity chains (also ending in a graph output), duplicate subexpressions, constants
        for _ in range(rng.randint(1, 3)):
            k = rng.random()
            plant_item(model, g, vis, gen, "identity" if k < 0.35 else "dup" if k < 0.6 else "constant" if k < 0.85 else "unused", planted)
        if rng.random() < 0.25:
            plant_item(model, g, vis, gen, "optout", planted)
        if not is_fn and rng.random() < 0.5:
            plant_item(model, g, vis, gen, "dupinit", planted)
        if rng.random() < 0.25 and g.inputs and not is_fn:
            plant_item(model, g, vis, gen, "inout", planted)
        # function bodies get an inner scope more often: graphs nested in a function body are a scope
        # class of their own (a pass walks model.functions separately from the main graph)
        plant_scope_and_clash(g, vis, planted, gen, p_scope=0.85 if is_fn else 0.6)
    # calls to model functions (InlinePass) and unused opsets
    for f in list(model.functions.values()):
        if rng.random() < 0.7:
            ins = [rng.choice(list(main.inputs) + [None]) if (main.inputs and rng.random() < 0.8) else None for _ in f.inputs]
            call = ir.Node(f.domain, f.name, ins, [ir.AttrInt64("fparam", 2)] if rng.random() < 0.5 else [], overload=f.overload,
                           outputs=[gen.value(typed=False) for _ in f.outputs], name=gen.fresh("call"))
            main.append(call)
            if call.outputs and rng.random() < 0.5:
                main.outputs.append(call.outputs[0])
            main.opset_imports.setdefault(f.domain, 1)
    if rng.random() < 0.4:
        main.opset_imports["unused.domain"] = 3
    # missing / duplicated names for NameFixPass and friends
    if rng.random() < 0.3:
        for g in graphs:
            for n in g:
                if rng.random() < 0.2:
                    n.name = rng.choice([None, "dupnode"])
                for o in n.outputs:
                    if rng.random() < 0.1 and not o.is_initializer():
                        o.name = rng.choice([None, "dupval", "x_1"])
        return True
    return False


class _ExecFeatures:
    """stand-in for IRGen when the model comes from gen_exec (evidence samples read .features)"""

    def __init__(self, features):
        self.features = set(features)


def build(ctx, case):
    rng = ctx.rng(case)
    if rng.random() < 0.3:
        # checker-valid, executable models (vfpy/gen_exec.py): the ONNX checker and shape inference
        # succeed on these, so the success paths of the analysis passes are exercised as well
        from vfpy import gen_exec

        model, info = gen_exec.gen_model(rng, size=rng.choice([4, 8, 12]))
        ctx.count("models_from_gen_exec")
        return model, _ExecFeatures(info.get("features", ())), False
    ctx.count("models_from_gen_ir")
    gen = gen_ir.IRGen(rng, max_depth=rng.choice([0, 1, 2]), ir_versions=(9, 10, 11))
    model = gen.model()
    gen_ir.uniquify_names(model)
    messy_names = bait(model, gen)
    for f in sorted(x for x in gen.features if x.startswith("bait:")):
        ctx.count("models_with_" + f)
    return model, gen, messy_names


# ---- predicates -------------------------------------------------------------------------------------
def ser(model):
    return ir.to_proto(model).SerializeToString(deterministic=True)


def try_ser(model):
    try:
        return ser(model), None
    except Exception as e:  # noqa: BLE001
        return None, e


def unordered_graphs(model) -> set[int]:
    """ids of graphs that are NOT topologically ordered (producer in the same graph must precede a
    node that uses its value directly or inside a nested graph)."""
    bad = set()
    for g in all_graphs(model):
        pos = {id(n): i for i, n in enumerate(g)}

        def used_values(n):
            for v in n.inputs:
                if v is not None:
                    yield v
            for a in n.attributes.values():
                if isinstance(a, ir.Attr) and not a.is_ref():
                    subs = [a.value] if a.type == ir.AttributeType.GRAPH else (list(a.value) if a.type == ir.AttributeType.GRAPHS else [])
                    for sg in subs:
                        for m in sg:
                            yield from used_values(m)

        for n in g:
            for v in used_values(n):
                p = v.producer()
                if p is not None and id(p) in pos and pos[id(p)] >= pos[id(n)]:
                    bad.add(id(g))
    return bad


def unnamed_used(model) -> int:
    c = 0
    for g in all_graphs(model):
        for n in g:
            c += sum(1 for v in n.inputs if v is not None and not v.name)
        c += sum(1 for v in g.outputs if not v.name)
        c += sum(1 for v in g.initializers.values() if not v.name)
    return c


class Boundary:
    """Observes (and optionally fails) the ONNX calls at the module attributes the passes look up
    at call time: was the call reached, did it raise."""

    def __init__(self, kind):
        self.kind = kind
        self.infer_called = self.infer_raised = self.check_called = self.check_raised = False

    def __enter__(self):
        self.orig_infer = onnx.shape_inference.infer_shapes
        self.orig_check = onnx.checker.check_model

        def infer(*a, **k):
            self.infer_called = True
            try:
                if self.kind == "infer_raises":
                    _boom()
                return self.orig_infer(*a, **k)
            except BaseException:
                self.infer_raised = True
                raise

        def check(*a, **k):
            self.check_called = True
            try:
                if self.kind == "checker_raises":
                    _boom()
                return self.orig_check(*a, **k)
            except BaseException:
                self.check_raised = True
                raise

        onnx.shape_inference.infer_shapes = infer
        onnx.checker.check_model = check
        return self

    def __exit__(self, *exc):
        onnx.shape_inference.infer_shapes = self.orig_infer
        onnx.checker.check_model = self.orig_check
        return False

    def inference_failed(self) -> bool:
        return (not self.infer_called) or self.infer_raised


def _boom(*a, **k):
    raise RuntimeError("vf: injected failure of the ONNX call")


def add_failing_lazy_initializer(model, big=False):
    def fail():
        raise RuntimeError("vf: injected serialisation failure (lazy tensor cannot be evaluated)")

    n = 600 if big else 3
    t = ir.LazyTensor(fail, dtype=ir.DataType.FLOAT, shape=ir.Shape([n]), name="vf_lazy")
    v = ir.Value(name="vf_lazy", const_value=t, type=ir.TensorType(ir.DataType.FLOAT), shape=ir.Shape([n]))
    # in the middle of the initializer order, with a big tensor before and after it
    keep = list(model.graph.initializers.values())
    for x in keep:
        model.graph.initializers.pop(x.name)
    bigarr = np.zeros(400, dtype=np.float32)  # > the C-API helper's size limit of a 'big' tensor? either way legal
    b1 = ir.Value(name="vf_big1", const_value=ir.tensor(bigarr, name="vf_big1"))
    b2 = ir.Value(name="vf_small", const_value=ir.tensor(np.array([1.0], dtype=np.float32), name="vf_small"))
    for x in [b1] + keep[: len(keep) // 2] + [v] + keep[len(keep) // 2:] + [b2]:
        model.graph.initializers.add(x)


def add_unloaded_initializers(model, rng) -> int:
    """Initializers whose data is not loaded (const_value is None; they can be registered with
    graph.initializers.add): the ONNX-call helper turns them into plain inputs for the call and must put
    them back.  One typed + shaped, one with a type only, placed at random positions of the order."""
    keep = list(model.graph.initializers.values())
    for x in keep:
        model.graph.initializers.pop(x.name)
    new = [ir.Value(name="vf_unloaded", type=ir.TensorType(ir.DataType.FLOAT), shape=ir.Shape([2, 3]))]
    if rng.random() < 0.5:
        new.append(ir.Value(name="vf_unloaded_t", type=ir.TensorType(ir.DataType.INT64)))
    order = keep + new
    rng.shuffle(order)
    for x in order:
        model.graph.initializers.add(x)
    return len(new)


# ---- one case ---------------------------------------------------------------------------------------
def judge_pass(ctx, model, pname, rng, case, fault_kind=None, messy_names=False, gen=None):
    viol = lambda sig, msg: ctx.violation(sig, msg, {"case": case, "seed": ctx.seed, "pass": pname, "fault": fault_kind})  # noqa: E731
    p = PASS_FACTORIES[pname](rng)
    variant = "plain"
    if rng.random() < (0.3 if pname in ANALYSIS else 0.15):
        # functional variant of EVERY kind of pass (in-place rewriting, in-place side-effect-only such as
        # the checker, with and without a fault at the ONNX boundary; sometimes wrapped twice): it must
        # return a DIFFERENT model and leave the input alone
        ctx.count(f"functionalized:in_place={p.in_place},changes_input={p.changes_input}")
        p = ir.passes.functionalize(p)
        variant = "functional"
        if rng.random() < 0.2:
            p = ir.passes.functionalize(p)
            ctx.count("functionalized_twice")
        ctx.count("functionalized_single_passes")
    w = World()
    w.adopt_model(model)
    if invariants.check_world(w):
        ctx.count("precondition_links_broken")
        return False
    b0, e0 = try_ser(model)
    pre = snapshot.snapshot(w)
    unordered0 = unordered_graphs(model)
    unnamed0 = unnamed_used(model)
    nbound = sum(1 for g in all_graphs(model) for _ in g) + len(w.values) + len(model.functions) + 2
    exc = None
    with Boundary(fault_kind) as boundary:
        try:
            res = p(model)
        except Exception as e:  # noqa: BLE001
            exc = e
    if fault_kind:
        ctx.count("faults_injected")
    analysis_failed = False
    if exc is not None:
        if _identity_pass_error_in_chain(exc):
            # the infrastructure's own enforcement noticed that the pass returned the wrong object
            viol(f"identity|{pname}|{variant}|PassError", f"{variant} {pname} (in_place={p.in_place}): {exc}"[:800])
            return True
        ctx.count("pass_error:" + pname)
        ctx.count("pass_exc:" + type(exc).__name__)
        analysis_failed = pname in ANALYSIS
        if not analysis_failed:
            return False
    else:
        ctx.count("applied:" + pname)
        if variant == "functional":
            ctx.count("applied_functional:" + pname)
    # analysis clause
    if pname == "ShapeInferencePass":
        ctx.count("shape_inference_failed" if boundary.inference_failed() else "shape_inference_succeeded")
    if pname == "CheckerPass" or (pname == "ShapeInferencePass" and boundary.inference_failed()):
        post = snapshot.snapshot(w)
        ctx.count("analysis_snapshots")
        d = [x for x in snapshot.diff(pre, post, limit=60) if not _is_tensor_name_alignment(w, x)]
        if d:
            how = "raised" if exc is not None else ("fault:" + fault_kind if fault_kind else "returned")
            viol(f"analysis-pass-changed-model|{pname}|{how.split(':')[0]}",
                 f"{pname} ({how}) changed the model: " + "; ".join(f"{l}.{f}: {a!r} -> {b!r}" for l, f, a, b in d[:5])[:1500])
            return True
    if exc is not None:
        return False
    # identity
    same = res.model is model
    if same != bool(p.in_place):
        viol(f"identity|{pname}", f"{pname}.in_place={p.in_place} but result.model is input: {same}")
        return True
    out = res.model
    if not p.in_place and not p.changes_input:
        post_in = snapshot.snapshot(w)
        # tensors are shared between a model and its clone by documented design, and renaming a value
        # renames its backing tensor: a change of a shared tensor's OWN name is not a change of the model
        d = [x for x in snapshot.diff(pre, post_in, limit=60)
             if not (x[1] == "const" and x[2] is not None and x[3] is not None and len(x[2]) == len(x[3])
                     and x[2][:3] == x[3][:3] and x[2][4:] == x[3][4:])]
        if d:
            viol(f"input-changed|functional|{pname}", f"functional {pname} changed its input: " + "; ".join(f"{l}.{f}" for l, f, _, _ in d[:5]))
            return True
    # links
    bad = invariants.check_model(out)
    if bad:
        viol(f"links|{pname}|{'+'.join(sorted({c for c, _ in bad}))}", f"after {pname}: " + "; ".join(m for _, m in bad[:5]))
        return True
    # flag
    b1, e1 = try_ser(out)
    if b0 is not None and b1 is None:
        viol(f"serialisation-broken|{pname}|{type(e1).__name__}@{raise_site(e1)}",
             f"model serialised before {pname} but raises after: {e1!r}"[:1200])
        return True
    if not res.modified:
        ctx.count("flag_false_judged")
        if b0 is not None and b1 is not None and b0 != b1:
            d = _first_proto_diff(b0, b1)
            viol(f"modified-false-but-changed|{pname}|{d[0]}", f"{pname} reported modified=False but the serialised model changed: {d[1]}")
            return True
    else:
        ctx.count("modified_true:" + pname)
    # order
    if not unordered0:
        un = unordered_graphs(out)
        if un:
            viol(f"order-broken|{pname}", f"all graphs were topologically ordered before {pname}; {len(un)} are not after it")
            return True
    # names
    if unnamed0 == 0 and unnamed_used(out) > 0:
        viol(f"name-lost|{pname}", f"{unnamed_used(out)} used value(s) have no name after {pname}")
        return True
    # fixpoint (each built-in pass individually)
    if fault_kind is None:
        ctx.count("fixpoint_runs")
        cur, prev = out, b1
        rounds = 0
        settled = errored = False
        while rounds < nbound:
            rounds += 1
            try:
                r = p(cur)
            except Exception as e:  # noqa: BLE001
                if _identity_pass_error_in_chain(e):
                    viol(f"identity|{pname}|{variant}|PassError", f"round {rounds + 1} of {variant} {pname}: {e}"[:800])
                    return True
                ctx.count("fixpoint_pass_error:" + pname)
                settled = True
                errored = True
                break
            nb, _ = try_ser(r.model)
            if not r.modified:
                if prev is not None and nb is not None and nb != prev:
                    d = _first_proto_diff(prev, nb)
                    viol(f"modified-false-but-changed|{pname}|{d[0]}", f"round {rounds + 1} of {pname} reported modified=False but changed: {d[1]}")
                    return True
                settled = True
                break
            cur, prev = r.model, nb
        ctx.count("fixpoint_rounds", rounds)
        if not settled:
            viol(f"no-fixpoint|{pname}", f"{pname} still reports modified=True after {rounds} rounds (bound {nbound})")
            return True
        if not errored and isinstance(gen, gen_ir.IRGen) and not messy_names:
            if items_at_fixpoint(ctx, p, pname, variant, cur, gen, viol):
                return True
    return bool(res.modified)


def items_at_fixpoint(ctx, p, pname, variant, model, gen, viol) -> bool:
    """`model` is at the fixpoint of p. Up to three single items are planted one after the other, each in a
    graph of a DIFFERENT scope class (main graph / nested in the main graph / function body / nested in a
    function body - drawn uniformly over the classes the model has, not over its graphs), and p is applied
    and judged after each; between two items p is iterated to its fixpoint again. So the only thing p has to
    act on (and to report) sits in exactly one scope of the model. True = a violation was reported."""
    rng = gen.rng
    n_items = rng.choice([1, 2, 3, 3])
    cur, visited = model, []
    for i in range(n_items):
        cls_of = scope_classes(cur)
        by_cls = {}
        for g in all_graphs(cur):
            vis = list(g.inputs) + list(g.initializers.values()) + [o for n in g for o in n.outputs if o.name]
            if vis:
                by_cls.setdefault(cls_of.get(id(g), "main"), []).append((g, vis))
        choices = [c for c in SCOPE_CLASSES if c in by_cls and c not in visited] or [c for c in SCOPE_CLASSES if c in by_cls]
        if not choices:
            return False
        cls = rng.choice(choices)
        visited.append(cls)
        g, vis = rng.choice(by_cls[cls])
        status, cur, b = one_item_at_fixpoint(ctx, p, pname, variant, cur, g, vis, cls, gen, viol)
        if status == "violation":
            return True
        if status != "applied" or i == n_items - 1:
            return False
        # back to the fixpoint before the next item (same judgement as the first fixpoint run)
        nbound = sum(1 for x in all_graphs(cur) for _ in x) + sum(1 for x in all_graphs(cur) for n in x for _ in n.outputs) \
            + sum(len(x.inputs) + len(x.initializers) for x in all_graphs(cur)) + len(cur.functions) + 2
        rounds, settled = 0, False
        while rounds < nbound:
            rounds += 1
            try:
                r = p(cur)
            except Exception as e:  # noqa: BLE001
                if _identity_pass_error_in_chain(e):
                    viol(f"identity|{pname}|{variant}|PassError", f"{variant} {pname} re-settling after an item at its fixpoint: {e}"[:800])
                    return True
                ctx.count("fixpoint_pass_error:" + pname)
                return False
            nb, _ = try_ser(r.model)
            if not r.modified:
                if b is not None and nb is not None and nb != b:
                    d = _first_proto_diff(b, nb)
                    viol(f"modified-false-but-changed|{pname}|{d[0]}", f"{pname} (re-settling after one item at its fixpoint) reported modified=False but changed: {d[1]}")
                    return True
                cur = r.model
                settled = True
                break
            cur, b = r.model, nb
        ctx.count("at_fixpoint_resettle_rounds", rounds)
        if not settled:
            viol(f"no-fixpoint|{pname}", f"{pname} still reports modified=True after {rounds} rounds (bound {nbound}) following one item planted at its fixpoint")
            return True
    return False


def one_item_at_fixpoint(ctx, p, pname, variant, model, g, vis, cls, gen, viol):
    """`model` is at the fixpoint of p (p reports no modification and changes nothing). ONE further pattern
    is planted in graph g - of a kind the pass is about, most of the time - so that what the pass does with
    this single opportunity (rewrite it, or decline it behind one of its guards) is observed on its own and
    not hidden behind the modified=True of other rewrites in the same run. Identity, links and the
    modified flag are judged for this application.
    Returns (status, resulting model, its bytes); status "violation" = a violation was reported."""
    rng = gen.rng
    rel = RELEVANT_ITEMS.get(pname)
    kind = rng.choice(rel) if (rel and rng.random() < 0.75) else rng.choice(ITEM_KINDS)
    planted = []
    plant_item(model, g, vis, gen, kind, planted)
    plant_scope_and_clash(g, vis, planted, gen, p_scope=0.75, p_clash=0.9)
    if invariants.check_model(model) or iso_ir.well_scoped(model):
        ctx.count("at_fixpoint_precondition_broken")
        return "skipped", model, None
    b0, _ = try_ser(model)
    if b0 is None:
        ctx.count("at_fixpoint_not_serialisable")
        return "skipped", model, None
    unordered0 = unordered_graphs(model)
    try:
        res = p(model)
    except Exception as e:  # noqa: BLE001
        if _identity_pass_error_in_chain(e):
            viol(f"identity|{pname}|{variant}|PassError", f"{variant} {pname} after one more '{kind}' item in a {cls} graph at its fixpoint: {e}"[:800])
            return "violation", model, None
        ctx.count("at_fixpoint_pass_error:" + pname)
        ctx.count(f"at_fixpoint_pass_exc:{pname}:{type(e).__name__}@{raise_site(e)}")
        return "skipped", model, None
    ctx.count("at_fixpoint_applied")
    ctx.count("at_fixpoint_item:" + kind)
    ctx.count("at_fixpoint_scope:" + cls)
    ctx.count(f"at_fixpoint_item_scope:{kind}@{cls}")
    if (res.model is model) != bool(p.in_place):
        viol(f"identity|{pname}", f"{pname}.in_place={p.in_place} but result.model is input: {res.model is model} (one '{kind}' item in a {cls} graph at the fixpoint)")
        return "violation", model, None
    bad = invariants.check_model(res.model)
    if bad:
        viol(f"links|{pname}|{'+'.join(sorted({c for c, _ in bad}))}", f"after {pname} (one '{kind}' item in a {cls} graph at the fixpoint): " + "; ".join(m for _, m in bad[:5]))
        return "violation", model, None
    b1, e1 = try_ser(res.model)
    if b1 is None:
        viol(f"serialisation-broken|{pname}|{type(e1).__name__}@{raise_site(e1)}",
             f"model serialised before {pname} (one '{kind}' item in a {cls} graph at the fixpoint) but raises after: {e1!r}"[:1200])
        return "violation", model, None
    if not res.modified:
        ctx.count("flag_false_judged")
        ctx.count("at_fixpoint_flag_false_judged")
        if b0 != b1:
            d = _first_proto_diff(b0, b1)
            viol(f"modified-false-but-changed|{pname}|{d[0]}",
                 f"{pname} at its fixpoint plus one '{kind}' item in a {cls} graph reported modified=False but the serialised model changed: {d[1]}")
            return "violation", model, None
    else:
        ctx.count("at_fixpoint_modified_true:" + pname)
    if not unordered0 and unordered_graphs(res.model):
        viol(f"order-broken|{pname}", f"all graphs were topologically ordered before {pname} (one '{kind}' item in a {cls} graph at the fixpoint); some are not after it")
        return "violation", model, None
    return "applied", res.model, b1


def _is_tensor_name_alignment(w, entry) -> bool:
    """Serialising a model aligns an initializer tensor's own name with its value's name (allowed, see C03)."""
    label, field, a, b = entry
    if field != "const" or a is None or b is None or len(a) != len(b):
        return False
    v = w.values[int(label[1:])]
    t = v.const_value
    holders = {o.name for o in w.values if o.const_value is t and o.is_initializer()}
    return a[:3] == b[:3] and a[4:] == b[4:] and b[3] in holders


def _same_but_attr_tensor_names(b0, b1) -> bool:
    from vfpy import c14_protodiff

    return c14_protodiff.without_attr_tensor_names(b0) == c14_protodiff.without_attr_tensor_names(b1)


def _first_proto_diff(b0, b1):
    from vfpy import c14_protodiff

    return c14_protodiff.first_diff(b0, b1)


def run_case(ctx, case):
    rng = ctx.rng(case, "run")
    model, gen, messy = build(ctx, case)
    problems = iso_ir.well_scoped(model)
    if problems and not messy:
        ctx.count("skipped_not_well_scoped")
        return
    names = list(PASS_FACTORIES)
    mode = rng.random()
    nontrivial = False
    if mode < 0.15:
        pname = rng.choice(sorted(ANALYSIS))
        fk = rng.choice(["lazy_raises", "checker_raises" if pname == "CheckerPass" else "infer_raises", "lazy_raises_big"])
        if fk.startswith("lazy_raises"):
            # the serialisation itself fails inside the ONNX-call helper
            add_failing_lazy_initializer(model, big=fk.endswith("big"))
        if rng.random() < 0.35:
            ctx.count("models_with_unloaded_initializers")
            add_unloaded_initializers(model, rng)
        ctx.count("fault:" + fk)
        judge_pass(ctx, model, pname, rng, case, fault_kind=fk)
        nontrivial = True
        key = [pname, fk]
    elif mode < 0.25:
        # composition: identity / flag / damage only
        seq = [rng.choice(names) for _ in range(rng.randint(2, 3))]
        nontrivial = judge_composition(ctx, model, seq, rng, case)
        key = ["seq"] + seq
    else:
        pname = names[case % len(names)] if rng.random() < 0.7 else rng.choice(names)
        nontrivial = judge_pass(ctx, model, pname, rng, case, messy_names=messy, gen=gen)
        key = [pname]
    ctx.evaluation(key=key + [case], nontrivial=bool(nontrivial))
    if case % 83 == 0:
        ctx.sample({"case": case, "what": key, "features": sorted(gen.features)[:12],
                    "nodes": sum(1 for g in all_graphs(model) for _ in g)})


def _is_identity_pass_error(e) -> bool:
    """PassBase raises PassError when a (composite) pass returns the wrong object for its declared
    in_place property: that is the infrastructure noticing a broken identity contract."""
    return isinstance(e, ir.passes.PassError) and e.__cause__ is None and "declared" in str(e) and "in-place" in str(e)


def _identity_pass_error_in_chain(e) -> bool:
    """Sequential / PassManager wrap the error of a member pass in a PassError `from` it: the identity
    enforcement may have fired for a member (e.g. a functionalize()d pass) and sit deeper in the chain."""
    seen = 0
    while e is not None and seen < 20:
        if _is_identity_pass_error(e):
            return True
        e, seen = e.__cause__, seen + 1
    return False


def judge_composition(ctx, model, seq, rng, case):
    passes = []
    wrapped = []
    for n in seq:
        p = PASS_FACTORIES[n](rng)
        if rng.random() < 0.35:
            p = ir.passes.functionalize(p)
            wrapped.append(n)
        passes.append(p)
    comp = ir.passes.PassManager(passes, steps=rng.randint(1, 3), early_stop=rng.random() < 0.5) if rng.random() < 0.5 \
        else ir.passes.Sequential(*passes)
    name = "+".join(("f(%s)" % n) if n in wrapped else n for n in seq)
    kind = type(comp).__name__ + ("|functional" if wrapped else "")
    if rng.random() < 0.15:
        # the composition as a whole made functional (whatever its own in_place / changes_input are)
        ctx.count(f"functionalized_compositions:in_place={comp.in_place},changes_input={comp.changes_input}")
        comp = ir.passes.functionalize(comp)
        name = "f(%s)" % name
        kind = "functionalize(" + kind.split("|")[0] + ")|functional"
    rep = {"case": case, "seed": ctx.seed}
    cur = model
    any_modified = False
    for round_ in (1, 2):  # the second application runs at (or near) the fixpoint
        b0, _ = try_ser(cur)
        try:
            res = comp(cur)
        except Exception as e:  # noqa: BLE001
            if _identity_pass_error_in_chain(e):
                ctx.violation(f"identity|composition|{kind}|PassError", f"round {round_} of {type(comp).__name__}({name}) raised: {e}"[:800], rep)
                return True
            ctx.count("composition_error")
            return any_modified
        ctx.count("compositions_applied")
        if wrapped:
            ctx.count("compositions_with_functional_passes")
        if (res.model is cur) != bool(comp.in_place):
            ctx.violation(f"identity|composition|{kind}", f"{type(comp).__name__}({name}).in_place={comp.in_place}, same object={res.model is cur}", rep)
            return True
        if not comp.changes_input:
            ctx.count("compositions_not_changing_input_judged")
            b_in, _ = try_ser(cur)
            if b0 is not None and b_in is not None and b_in != b0 and _same_but_attr_tensor_names(b0, b_in):
                # a clone shares its tensors with the original by documented design, and serialising the
                # copy aligns the own name of a tensor that became an initializer there (allowed, see C03):
                # seen through a Constant attribute of the input this is not a change of the input MODEL
                ctx.count("report_only_shared_attr_tensor_renamed_through_copy")
            elif b0 is not None and b_in is not None and b_in != b0:
                d = _first_proto_diff(b0, b_in)
                ctx.violation(f"input-changed|composition|{kind}", f"{name}: changes_input=False but the input model changed: {d[1]}", rep)
                return True
        bad = invariants.check_model(res.model)
        if bad:
            ctx.violation(f"links|composition|{'+'.join(sorted({c for c, _ in bad}))}", f"after {name}: " + "; ".join(m for _, m in bad[:4]), rep)
            return True
        b1, _ = try_ser(res.model)
        if not res.modified:
            ctx.count("flag_false_judged")
            if b0 is not None and b1 is not None and b0 != b1:
                d = _first_proto_diff(b0, b1)
                ctx.violation(f"modified-false-but-changed|composition|{d[0]}", f"{name} reported modified=False but changed: {d[1]}", rep)
                return True
        any_modified = any_modified or bool(res.modified)
        cur = res.model
    return any_modified


def run_case_isolated(ctx, case):
    """Cases that reach the ONNX C++ API run in a forked child: a crash inside onnx on a structural
    model (not a claim of this property) must not take the shard down."""
    import json
    import os
    import tempfile

    from vfpy.ctx import Ctx

    fd, path = tempfile.mkstemp(dir=os.environ.get("VF_SHARD_TMP"), suffix=".json")
    os.close(fd)
    pid = os.fork()
    if pid == 0:
        code = 0
        try:
            sub = Ctx(ctx.prop, ctx.tier, ctx.seed, ctx.shard, ctx.nshards, 1, 600.0, ctx.params)
            run_case(sub, case)
            sub.dump(path)
        except BaseException:  # noqa: BLE001
            import traceback

            with open(path, "w") as f:
                json.dump({"harness_error": traceback.format_exc()}, f)
            code = 3
        os._exit(code)
    import signal
    import time

    deadline = time.monotonic() + 120
    status = None
    while True:
        done, st = os.waitpid(pid, os.WNOHANG)
        if done:
            status = st
            break
        if time.monotonic() > deadline:
            # not a verdict (no wall-clock verdicts): recorded so that the case can be examined
            os.kill(pid, signal.SIGKILL)
            os.waitpid(pid, 0)
            ctx.count("child_watchdog_killed")
            ctx.note(f"case {case} (seed {ctx.seed}) did not finish within 120 s and was killed")
            os.unlink(path)
            return
        time.sleep(0.002)
    try:
        data = json.loads(open(path).read() or "{}")
    except Exception:  # noqa: BLE001
        data = {}
    finally:
        os.unlink(path)
    if os.WIFSIGNALED(status):
        ctx.count(f"child_died_in_onnx_call:signal{os.WTERMSIG(status)}")
        return
    if "harness_error" in data:
        raise RuntimeError("harness error in isolated case %d: %s" % (case, data["harness_error"]))
    for k, v in data.get("counters", {}).items():
        ctx.count(k, v)
    ctx.evaluations += data.get("evaluations", 0)
    ctx.nontrivial.update(data.get("nontrivial", []))
    for smp in data.get("samples", []):
        ctx.sample(smp)
    for v in data.get("violations", []):
        ctx.counters["violations_raw"] -= v["count"]  # counted again by violation()
        ctx.violation(v["signature"], v["message"], v["replay"])


def reaches_onnx_c_api(ctx, case) -> bool:
    rng = ctx.rng(case, "run")
    # mirror of the first draws of run_case: cheap and deterministic
    return True


def run(ctx) -> None:
    for case in ctx.case_ids():
        run_case_isolated(ctx, case)


def replay(data, ctx) -> None:
    ctx.seed = data.get("seed", ctx.seed)
    run_case(ctx, data["case"])
