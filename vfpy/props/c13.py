"""C13 - clones are faithful and fully independent of their originals.

Per case: build a source (a structurally rich generated model, or the world left by an
adversarial edit history), pick a clone target (Model.clone, Graph.clone of the main graph or of a
nested subgraph with allow_outer_scope_values both ways, Function.clone, GraphView.clone; deep_copy
both ways) and then watch, with oracles that never call the cloner:

  1. capture oracle      - a region that references a value it does not define must be rejected
                           unless outer-scope values were explicitly allowed;
  2. clone() is read-only - all-observables snapshot + proto of the original before/after clone();
  3. identity oracle     - graphs, nodes, values, shapes, types (nested element types too),
                           metadata_props / meta containers (and, with deep_copy=True, mutable meta
                           payloads) are new objects; nothing reachable from the clone is an object
                           of the original region (captured outer values excepted);
  4. reference oracle    - original and clone are paired by position; every node input, graph
                           output and sharding-spec value of the clone must be the pair of the
                           original's, device configurations must be the ones registered on the clone;
  5. fidelity            - byte equality of ir.to_proto(original) / ir.to_proto(clone), and (names need
                           not be unique, untyped shapes are not serialised) field-by-field equality of
                           the serialised public observables of paired objects;
  6. independence        - an edit history (vfpy.world alphabet + every setter) is applied to ONE copy
                           while the all-observables snapshot of the OTHER copy is compared after
                           every single edit;
  7. functionalize       - functionalize(P)(m) for every built-in pass leaves m's snapshot and proto
                           unchanged (P(m) for passes that declare changes_input=False is run too, but
                           what it does to m is C14's business: report_only_direct_pass_changed_input);
                           the same for functionalize(P) of composed and user-defined P: Sequential /
                           PassManager objects (nested, several steps, early stop both ways) and
                           functionalized members over built-in passes and synthetic passes of all four
                           declaration classes (in-place, side-effect-only, functional, destructive -
                           each behaving as declared, some raising after their work), called with a
                           Model or a PassResult, once or twice (run_pipeline).
"""

from __future__ import annotations

import json
import logging
from collections import Counter

import onnx_ir as ir
from onnx_ir.passes import PassResult, functionalize
from onnx_ir.passes import common as common_passes

from vfpy import c13_gen, histories, invariants, shrink, snapshot
from vfpy.c13_lib import (
    KIND, Mismatch, Pairs, RegionWorld, XGen, analyze_function, analyze_graph, analyze_model, Analysis,
    deep_meta_findings, ensure_xgen_consistent, full_snapshot, identity_findings, reach_ids, reference_findings,
    structure_findings,
)
from vfpy.ctx import stable_hash
from vfpy.gen_ops import Gen
from vfpy.world import World

ID = "C13"
LEVEL = "exploration"
RULE = ("a case = one source (generated model with nested GRAPH/GRAPHS subgraphs, captures, functions, all attribute "
        "kinds, initializers, typed/shaped/annotated values, IRv11 device annotations; or the world left by an "
        "adversarial edit history) x one clone call (Model/Graph/Function/GraphView.clone, allow_outer_scope_values and "
        "deep_copy both ways) x one edit history of the world alphabet plus every setter applied to one copy while the "
        "other copy's all-observables snapshot is compared after each edit (model targets also: functionalize(P)(m) for "
        "built-in passes P and for two generated pipelines - Sequential/PassManager/functionalized members over built-in "
        "and user-defined passes of every declaration class (in_place x changes_input) - with m's snapshot and proto "
        "compared before/after); non-trivial = the clone returned, all "
        "pairing/identity/reference/fidelity oracles ran on a region with >=2 graphs or captured values or device "
        "annotations or a function, and >=10 edits were applied; distinct = hash of (target, flags, region sizes, "
        "multiset of edit kinds)")
ASSUMPTIONS = [
    "tensors, non-graph Attr objects, frozen ModelConfiguration objects and SymbolicDim objects may be shared between the copies (docstrings of clone()); they are never mutated in place by the edit histories",
    "Value.name = ... renames the backing tensor; with a shared tensor this changes original.const_value.name - counted as report_only_shared_tensor_renamed, not a violation (the statement allows shared tensors)",
    "the frozen flag of a Shape, the order of Value.uses(), the name authority's counters, Node.version, the contents/validity flags of meta stores and Model.meta are not serialised, so they are not part of 'serializes exactly like the original'; differences between original and clone are report-only (identity of the containers and leaks through later edits are judged)",
    "serialising a GraphView decides value_info membership from the owner graph's is_graph_output() flags; view protos are compared without the top-level value_info list (report_only_view_value_info_follows_owner_graph_flags), types/shapes being compared by the structure oracle",
    "a pass that declares changes_input=False but edits its input when called directly (CheckerPass fills in initializer type/shape) is C14's business: report_only_direct_pass_changed_input",
    "a region whose nodes are not topologically sorted, or whose graphs are nested cyclically / reached twice, or with None names, is outside the judged domain (the cloner documents sortedness); such cases are report-only",
    "edit histories address one copy only: objects of the other copy and captured outer values are never drawn as arguments (RegionWorld); states satisfy the C01 clauses (owned_node_outputs avoided)",
    "the user-defined passes of the pipeline workload behave as they declare (in-place / destructive edit the model they are given through ordinary public-API rewrites, side-effect-only / functional do not; self-checked against the snapshot at start-up); functional and destructive ones produce their result with Model.clone()",
    "snapshot covers every public data attribute of Value/Node/Graph/Function/Model (audited against dir() at start-up) plus nested type denotations, meta validity flags and Model.meta",
]

PASSES = list(common_passes.__all__)
C_API_PASSES = {"CheckerPass", "ShapeInferencePass"}
API = {"model": "Model.clone", "graph": "Graph.clone", "function": "Function.clone", "view": "GraphView.clone"}


def plan(tier: str) -> dict:
    quick = tier == "quick"
    # one case costs ~0.1 CPU-second; quick is sized for ~25-35 s wall on 16 idle cores and is cut by
    # budget_s on a loaded machine, so the floors (both tiers) are what a 10x overloaded machine still produces
    return {
        "cases": 3200 if quick else 60000,
        "shards": 16,
        "budget_s": 40 if quick else 540,
        "floors": {
            "clones_judged": 200 if quick else 5000,
            "edits_applied": 5000 if quick else 125000,
            "snapshot_comparisons": 5000 if quick else 125000,
            "proto_comparisons": 180 if quick else 4500,
            "capture_rejections_expected_and_seen": 15 if quick else 375,
            "clones_with_allowed_captures": 10 if quick else 250,
            "clones_with_device_annotations": 20 if quick else 500,
            "clones_deep_copy": 60 if quick else 1500,
            "target:model": 60 if quick else 1500,
            "target:graph": 60 if quick else 1500,
            "target:function": 8 if quick else 200,
            "target:view": 20 if quick else 500,
            "functionalize_runs": 200 if quick else 5000,
            **{f"pass:{name}": (3 if quick else 75) for name in PASSES},
            "pipeline_runs": 80 if quick else 2000,
            **{f"pipeline_first_pass:{d}": (6 if quick else 150) for d in c13_gen.DECL_NAMES},
            "pipeline_first_pass:built-in:in-place": 6 if quick else 150,
            "pipeline_mixing_edits_of_the_given_model_with_out_of_place_members": 20 if quick else 500,
        },
        "min_nontrivial": 120 if quick else 3000,
        "params": {"edits": 30},
    }


# =============================================================================================
# building a case from its JSON description
# =============================================================================================
class Built:
    pass


def proto_bytes(obj) -> bytes:
    return ir.to_proto(obj).SerializeToString(deterministic=True)


def without_value_info(data: bytes) -> bytes:
    """GraphProto bytes without the top-level value_info list."""
    import onnx

    g = onnx.GraphProto()
    g.ParseFromString(data)
    del g.value_info[:]
    return g.SerializeToString(deterministic=True)


def without_attr_tensor_names(data: bytes, proto_type) -> bytes:
    """Proto bytes with the names of attribute tensors blanked (tensors are shared between the
    copies and Value.name = ... renames the backing tensor)."""
    p = proto_type()
    p.ParseFromString(data)

    def graph(g):
        for n in g.node:
            for a in n.attribute:
                if a.HasField("t"):
                    a.t.name = ""
                for t in a.tensors:
                    t.name = ""
                if a.HasField("g"):
                    graph(a.g)
                for sg in a.graphs:
                    graph(sg)

    if hasattr(p, "graph"):
        graph(p.graph)
        for f in p.functions:
            graph(f)
    else:
        graph(p)
    return p.SerializeToString(deterministic=True)


def build_source(src: dict) -> Built:
    b = Built()
    b.hist_world = None
    if src["kind"] == "gen":
        b.model = c13_gen.build(src["spec"])
        merged, _ = analyze_model(b.model)
        b.graphs = list(merged.graphs)
        b.functions = list(b.model.functions.values())
        b.c01 = []
    else:
        w = World()
        for op in src["ops"]:
            w.apply(op)
        b.hist_world = w
        b.model = None
        b.graphs = list(w.graphs)
        b.functions = list(w.functions)
        b.c01 = invariants.check_world(w)
    return b


def choose_target(rng, b: Built, src_kind: str) -> dict:
    r = rng.random()
    graphs, funcs = b.graphs, b.functions
    if not graphs:
        return {"kind": "none"}
    nested = list(range(1, len(graphs))) if src_kind == "gen" else list(range(len(graphs)))
    if r < 0.36:
        return {"kind": "model", "g": 0 if src_kind == "gen" else rng.randrange(len(graphs))}
    if r < 0.48:
        return {"kind": "graph", "g": 0 if src_kind == "gen" else rng.randrange(len(graphs))}
    if r < 0.70 and nested:
        return {"kind": "graph", "g": rng.choice(nested)}
    if r < 0.80 and funcs:
        return {"kind": "function", "f": rng.randrange(len(funcs))}
    gi = rng.randrange(len(graphs))
    n = len(graphs[gi])
    if n == 0:
        return {"kind": "graph", "g": gi}
    a = rng.randrange(n)
    bb = rng.randint(a + 1, n)
    return {"kind": "view", "g": gi, "a": a, "b": bb, "drop": rng.randrange(4) if rng.random() < 0.3 else None,
            "nout": rng.randint(0, 2), "with_inits": rng.random() < 0.7}


def resolve_target(b: Built, desc: dict):
    """Returns (target object, kind, analysis, parts, relaxed) or None when the target cannot be formed."""
    t = desc["target"]
    kind = t["kind"]
    relaxed: list = []
    if (kind in ("graph", "view") and not b.graphs) or (kind == "function" and not b.functions) \
            or (kind == "model" and b.model is None and not b.graphs):
        return None  # a shrunk source may no longer offer the target
    if kind == "model":
        if b.model is not None:
            m = b.model
        else:
            g = b.graphs[t["g"] % len(b.graphs)]
            if any(f.graph is g for f in b.functions):
                return None
            try:
                m = ir.Model(g, ir_version=10, functions=[f for f in b.functions])
            except Exception:  # noqa: BLE001
                return None
            b.model = m
        merged, parts = analyze_model(m)
        return m, kind, merged, parts, relaxed
    if kind == "graph":
        g = b.graphs[t["g"] % len(b.graphs)]
        a = analyze_graph(g)
        return g, kind, a, [a], relaxed
    if kind == "function":
        f = b.functions[t["f"] % len(b.functions)]
        a = analyze_function(f)
        return f, kind, a, [a], relaxed
    if kind == "view":
        g = b.graphs[t["g"] % len(b.graphs)]
        nodes = list(g)[t["a"]:t["b"]]
        if not nodes:
            return None
        tmp = Analysis()
        for n in nodes:
            tmp.walk_node(n, ())
        boundary = tmp.outer_values()
        inits = []
        if t.get("with_inits"):
            seen = set()
            for v in boundary:
                if v.is_initializer() and v.name and v.name not in seen:
                    seen.add(v.name)
                    inits.append(v)
        inputs = [v for v in boundary if not any(v is i for i in inits)]
        if t.get("drop") is not None and inputs:
            del inputs[t["drop"] % len(inputs)]
        produced = [o for n in nodes for o in n.outputs]
        outs = produced[-t["nout"]:] if t["nout"] else []
        try:
            view = ir.GraphView(inputs, outs, nodes=nodes, initializers=inits, name="view", doc_string="view doc",
                                opset_imports={"": 20, "custom.domain": 1}, metadata_props={"vk": "vv"})
        except Exception:  # noqa: BLE001
            return None
        a = analyze_graph(view)
        # a view does not own what it shows: ownership facets of its top-level objects legitimately differ
        for n in nodes:
            relaxed.append((n, ("graph",)))
        top = set(map(id, inputs)) | set(map(id, inits)) | {id(o) for n in nodes for o in n.outputs}
        for v in a.values:
            if id(v) in top:
                relaxed.append((v, ("graph", "flags")))
        for v in list(inputs) + list(inits):
            relaxed.append((v, ("graph", "flags", "producer", "index")))
        return view, kind, a, [a], relaxed
    return None


def do_clone(target, kind, desc):
    deep = bool(desc.get("deep"))
    if kind == "graph":
        return target.clone(allow_outer_scope_values=bool(desc.get("allow")), deep_copy=deep)
    return target.clone(deep_copy=deep)


def clone_analysis(clone, kind):
    if kind == "model":
        return analyze_model(clone)[0]
    if kind == "function":
        return analyze_function(clone)
    return analyze_graph(clone)


def top_graphs(obj, kind) -> list:
    if kind == "model":
        return [obj.graph] + [f.graph for f in obj.functions.values()]
    if kind == "function":
        return [obj.graph]
    return [obj]


# =============================================================================================
# one case
# =============================================================================================
class Outcome:
    def __init__(self) -> None:
        self.violations: list[dict] = []   # {"sig", "msg", "n_edits"}
        self.edits: list = []
        self.results: list = []
        self.counters: Counter = Counter()
        self.nontrivial = False
        self.key = None
        self.status = "?"

    def add(self, sig, msg, n_edits=0) -> None:
        for v in self.violations:
            if v["sig"] == sig:
                return
        self.violations.append({"sig": sig, "msg": msg, "n_edits": n_edits})


def describe_desc(desc) -> str:
    t = desc["target"]
    src = desc["src"]
    s = f"source={src['kind']}" + (f" spec={src['spec']}" if src["kind"] == "gen" else f" ({len(src['ops'])} ops)")
    return (f"{s}; target={t}; deep_copy={desc.get('deep')}; allow_outer_scope_values={desc.get('allow')}; "
            f"edited copy={desc.get('side')}")


def first_proto_difference(a: bytes, b: bytes, proto_type) -> str:
    try:
        pa, pb = proto_type(), proto_type()
        pa.ParseFromString(a)
        pb.ParseFromString(b)
        la, lb = str(pa).splitlines(), str(pb).splitlines()
        for i, (x, y) in enumerate(zip(la, lb)):
            if x != y:
                return f"line {i}: original {x.strip()!r} / clone {y.strip()!r} (context: {' '.join(s.strip() for s in la[max(0, i - 3):i])})"
        return f"lengths differ: {len(la)} vs {len(lb)} lines; first extra: {(la + lb)[min(len(la), len(lb))].strip()!r}"
    except Exception as e:  # noqa: BLE001
        return f"(no textual diff: {type(e).__name__})"


def execute(desc: dict, edits: list | None, rng, n_edits: int, stop_after_sig: str | None = None,
            built: Built | None = None) -> Outcome:
    """Run one fully described case.  ``edits`` None: generate ``n_edits`` edits with ``rng``;
    otherwise replay the given edits."""
    out = Outcome()
    c = out.counters
    b = built if built is not None else build_source(desc["src"])
    if b.c01:
        out.status = "skipped:source-not-C01-consistent"
        c["skipped_source_not_C01_consistent"] += 1
        return out
    resolved = resolve_target(b, desc)
    if resolved is None:
        out.status = "skipped:target-cannot-be-formed"
        c["skipped_target_cannot_be_formed"] += 1
        return out
    target, kind, ana, parts, relaxed = resolved
    api = API[kind]
    gen_source = desc["src"]["kind"] == "gen"
    allow = bool(desc.get("allow")) and kind == "graph"
    deep = bool(desc.get("deep"))

    outer = [r for p in parts for r in p.outer_refs()]
    forward = [r for p in parts for r in p.forward_refs()]
    problems = sorted(set(ana.problems))
    must_raise = bool(outer) and not allow
    ambiguous = bool(forward) or bool(problems) or (allow and any(role == "graph.output" for role, _ in outer))

    # ---- the original, observed before clone() -----------------------------------------------------
    universe_w = World()
    if b.hist_world is not None:
        for pool in (b.hist_world.graphs, b.hist_world.nodes, b.hist_world.values):
            for o in pool:
                universe_w._add([], "u", o)  # noqa: SLF001 - registry of ids only
    for g in b.graphs + top_graphs(target, kind):
        universe_w.add_graph(g)
    if b.model is not None:
        universe_w.adopt_model(b.model)
    universe_w.discover()
    w_orig = RegionWorld(set())
    w_orig.foreign = set(universe_w._labels) - ana.region_ids()  # noqa: SLF001
    w_orig.add_region(ana)
    # serialise first: serialisation renames initializer tensors after their values (C03's business)
    try:
        proto_o = proto_bytes(target)
    except Exception as e:  # noqa: BLE001 - an unserialisable original is not C13's business
        proto_o = None
        c["report_only_original_not_serialisable:" + type(e).__name__] += 1
    snap_before = full_snapshot(w_orig)

    # ---- clone() -----------------------------------------------------------------------------------
    try:
        clone = do_clone(target, kind, desc)
        exc = None
    except RecursionError:
        out.status = "report-only:recursion"
        c["report_only_clone_recursion_error"] += 1
        return out
    except Exception as e:  # noqa: BLE001 - "a clear error": any exception type is accepted
        clone, exc = None, e
    c[f"target:{kind}"] += 1
    c[f"clone_calls:{api}|allow={allow}|deep={deep}"] += 1

    snap_after = full_snapshot(w_orig)
    d = [x for x in snapshot.diff(snap_before, snap_after) if x[1] != "const_tensor_name"]
    if d and (ambiguous or (must_raise and exc is None)):
        c["report_only_original_changed_by_clone_outside_judged_domain"] += 1
    elif d:
        fields = "+".join(sorted({f"{KIND.get(lab[0], 'obj')}.{f}" for lab, f, _, _ in d}))
        out.add(f"clone-changed-original|{api}|{fields}",
                f"{api}() itself changed the original: " + "; ".join(f"{lab}.{f}: {x!r} -> {y!r}" for lab, f, x, y in d[:4])
                + "\n  " + describe_desc(desc))

    if exc is not None:
        root = exc
        for _ in range(12):  # the cloner wraps errors once per nesting level: name the root cause
            if root.__cause__ is None:
                break
            root = root.__cause__
        site = f"{type(root).__name__}@{histories.raise_site(root)}"
        c[f"clone_raised:{site}"] += 1
        if must_raise:
            c["capture_rejections_expected_and_seen"] += 1
            out.status = "rejected-capture"
            out.nontrivial = True
            out.key = ("rejected", kind, len(ana.graphs), len(ana.nodes), len(outer), deep)
        elif ambiguous or not gen_source:
            c["report_only_clone_raised_outside_judged_domain"] += 1
            out.status = "report-only:raised"
        else:
            out.add(f"clone-raised|{api}|{site}",
                    f"{api}() raised {type(exc).__name__}: {str(exc)[:300]}"
                    + (f" (root cause {type(root).__name__}: {str(root)[:200]})" if root is not exc else "")
                    + " on a well-formed, topologically sorted region without captured outer values\n  " + describe_desc(desc))
            out.status = "violation:raised"
        return out

    if must_raise and not problems:
        role, v = outer[0]
        out.add(f"no-error|outer-capture|{api}",
                f"{api}() returned although the region references {len(outer)} value(s) it does not define "
                f"(first: {role} {v.name!r}) and outer-scope values are not allowed\n  " + describe_desc(desc))
        out.status = "violation:no-error"
        return out
    if ambiguous or must_raise:
        c["report_only_clone_returned_outside_judged_domain"] += 1
        for p in problems:
            c["report_only_region_problem:" + p] += 1
        if forward:
            c["report_only_region_problem:forward-reference(unsorted)"] += 1
        out.status = "report-only:returned"
        return out

    # ---- judged clone ------------------------------------------------------------------------------
    c["clones_judged"] += 1
    if outer:
        c["clones_with_allowed_captures"] += 1
    if ana.has_devcfg():
        c["clones_with_device_annotations"] += 1
    if deep:
        c["clones_deep_copy"] += 1
    pairs = Pairs()
    try:
        if kind == "model":
            pairs.pair_model(target, clone)
        elif kind == "function":
            pairs.pair_function(target, clone)
        else:
            pairs.pair_graph(target, clone)
    except Mismatch as e:
        out.add(f"structure-differs|pairing|{str(e).split(':')[0]}", f"{api}(): {e}\n  " + describe_desc(desc))
        out.status = "violation:pairing"
        return out
    c["paired_values"] += len(pairs.values)
    c["paired_nodes"] += len(pairs.nodes)
    c["paired_graphs"] += len(pairs.graphs)

    for vo, _, _ in pairs.values:
        if vo.name is None:
            relaxed.append((vo, ("name",)))
    for no_, _ in pairs.nodes:
        if no_.name is None:
            relaxed.append((no_, ("name",)))
    tail = "\n  " + describe_desc(desc)
    for sig, msg in identity_findings(pairs):
        out.add(sig, f"{api}(): {msg}" + tail)
    if deep:
        for sig, msg in deep_meta_findings(pairs):
            out.add(sig, f"{api}(): {msg}" + tail)
    for sig, msg in reference_findings(pairs, allow):
        out.add(sig, f"{api}(): {msg}" + tail)
    for sig, msg in structure_findings(pairs, relaxed, c):
        out.add(sig, f"{api}(): {msg}" + tail)

    outer_ids = {id(v) for p in parts for v in p.outer_values()}
    region = {id(o): o for o in ana.graphs + ana.nodes + ana.values}
    reached = reach_ids(top_graphs(clone, kind), outer_ids)
    for i in sorted(reached & set(region), key=lambda i: type(region[i]).__name__)[:3]:
        o = region[i]
        out.add(f"reach-into-original|{type(o).__name__}",
                f"{api}(): {type(o).__name__} {getattr(o, 'name', None)!r} of the original is reachable from the clone" + tail)

    if proto_o is not None and not ana.has_none_names():
        try:
            proto_c = proto_bytes(clone)
        except Exception as e:  # noqa: BLE001
            proto_c = None
            out.add(f"proto-differs|{api}|clone not serialisable",
                    f"the original serialises, the clone raises {type(e).__name__}: {str(e)[:200]}" + tail)
        if proto_c is not None:
            c["proto_comparisons"] += 1
            if proto_c != proto_o and kind == "view":
                # serialising a GraphView decides what goes under value_info from is_graph_output() of
                # the graph that owns the values, not from the view's own outputs, so a view output is
                # listed again and an owner-graph output is left out; the clone is a real Graph.  Types
                # and shapes of all values are compared by the structure oracle.
                no, nc = without_value_info(proto_o), without_value_info(proto_c)
                if no == nc:
                    c["report_only_view_value_info_follows_owner_graph_flags"] += 1
                proto_o, proto_c = no, nc
            if proto_c != proto_o:
                out.add(f"proto-differs|{api}",
                        "serialised clone differs from serialised original: "
                        + first_proto_difference(proto_o, proto_c, type(ir.to_proto(target))) + tail)
    else:
        c["report_only_proto_not_compared(none names / unserialisable original)"] += 1

    # ---- worlds of the two copies --------------------------------------------------------------------
    cana = clone_analysis(clone, kind)
    for g in top_graphs(clone, kind):
        universe_w.add_graph(g)
    universe_w.discover()
    universe = set(universe_w._labels) | {id(target), id(clone)}  # noqa: SLF001
    if kind == "model":
        universe |= {id(f) for f in clone.functions.values()} | {id(f) for f in target.functions.values()}
    w_orig.foreign = universe - ana.region_ids()
    w_clone = RegionWorld(universe - cana.region_ids())
    w_clone.add_region(cana)

    # ---- functionalize ---------------------------------------------------------------------------------
    if kind == "model" and gen_source:
        for name in desc.get("passes", []):
            run_pass(out, desc, target, w_orig, name, tail)
        for pipe in desc.get("pipes", []):
            run_pipeline(out, target, w_orig, pipe, tail)

    # ---- edit one copy, watch the other ------------------------------------------------------------------
    side = desc.get("side", "clone")
    w_edit, w_watch = (w_clone, w_orig) if side == "clone" else (w_orig, w_clone)
    base = full_snapshot(w_watch)
    gen = XGen(rng, w_edit, 0.15, deep) if edits is None else None
    todo = n_edits if edits is None else len(edits)
    kinds = []
    for step in range(todo):
        op = gen.op() if gen is not None else edits[step]
        res = w_edit.apply(op)
        out.edits.append(op)
        out.results.append(res)
        if res.skipped:
            c["edits_skipped"] += 1
            continue
        c["edits_applied"] += 1
        c["edit:" + op[0]] += 1
        if res.raised:
            c["edits_rejected"] += 1
        kinds.append(op[0])
        now = full_snapshot(w_watch)
        c["snapshot_comparisons"] += 1
        d = snapshot.diff(base, now)
        if not d:
            continue
        base = now
        real = [x for x in d if x[1] != "const_tensor_name"]
        if len(real) < len(d):
            c["report_only_shared_tensor_renamed"] += 1
        if not real:
            continue
        fields = "+".join(sorted({f"{KIND.get(lab[0], 'obj')}.{f}" for lab, f, _, _ in real}))
        sig = f"edit-leak|{op[0]}|{fields}"
        other = "original" if side == "clone" else "clone"
        out.add(sig,
                f"editing the {side} changed the {other}: after {histories.describe([op], [res])[0]} on the {side}, "
                + "; ".join(f"{other} {lab}.{f}: {x!r} -> {y!r}" for lab, f, x, y in real[:3])
                + f"\n  ({api}, edit {step + 1} of the history)" + tail, n_edits=step + 1)
        if stop_after_sig is not None and sig == stop_after_sig:
            break
    applied = len(kinds)
    rich = len(ana.graphs) >= 2 or bool(outer) or ana.has_devcfg() or bool(ana.functions)
    out.nontrivial = rich and applied >= 10
    out.key = (kind, deep, allow, side, len(ana.graphs), len(ana.nodes), len(ana.values), ana.has_devcfg(), sorted(Counter(kinds).items()))
    out.status = "judged"
    return out


def run_pass(out: Outcome, desc, model, w_orig, name: str, tail: str) -> None:
    c = out.counters
    variants = [("functionalize", lambda p: functionalize(p)(model))]
    probe = getattr(common_passes, name)()
    if not probe.changes_input:
        variants.append(("direct(changes_input=False)", lambda p: p(model)))
    for label, call in variants:
        try:
            pb = proto_bytes(model)
        except Exception:  # noqa: BLE001
            pb = None
        before = full_snapshot(w_orig)
        try:
            result = call(getattr(common_passes, name)())
            c[f"pass_ok:{name}"] += 1
            if result.modified:
                c[f"pass_modified_its_copy:{name}"] += 1
            if label == "functionalize" and result.model is model:
                out.add(f"functionalize-returned-input|{name}", f"functionalize({name})(m) returned m itself" + tail)
        except Exception as e:  # noqa: BLE001 - a pass may reject a structural model; m must still be untouched
            c[f"pass_raised:{name}:{type(e).__name__}"] += 1
        c["functionalize_runs"] += 1
        c[f"pass:{name}"] += 1
        after = full_snapshot(w_orig)
        d = [x for x in snapshot.diff(before, after) if x[1] != "const_tensor_name"]
        if d and label != "functionalize":
            # the statement speaks of functionalized passes; a pass that declares changes_input=False
            # and still edits its input is C14's business - shown in the evidence only
            c[f"report_only_direct_pass_changed_input:{name}"] += 1
            continue
        if d:
            fields = "+".join(sorted({f"{KIND.get(lab[0], 'obj')}.{f}" for lab, f, _, _ in d}))
            out.add(f"{label.split('(')[0]}-changed-input|{name}|{fields}",
                    f"{label} {name} changed its input model: "
                    + "; ".join(f"{lab}.{f}: {x!r} -> {y!r}" for lab, f, x, y in d[:3]) + tail)
        if pb is not None:
            try:
                pa = proto_bytes(model)
            except Exception:  # noqa: BLE001
                pa = None
            ptype = type(ir.to_proto(model)) if pa != pb and pa is not None else None
            if pa != pb and label != "functionalize":
                c[f"report_only_direct_pass_changed_input:{name}"] += 1
            elif ptype is not None and without_attr_tensor_names(pa, ptype) == without_attr_tensor_names(pb, ptype):
                # the pass renamed a value of its copy whose const_value is a tensor that also is an
                # attribute of the input model; same facet as report_only_shared_tensor_renamed
                c["report_only_shared_tensor_renamed_changes_serialised_attribute_tensor_name"] += 1
            elif pa != pb:
                out.add(f"{label.split('(')[0]}-changed-input|{name}|proto",
                        f"{label} {name}: the serialised input model differs afterwards: "
                        + (first_proto_difference(pb, pa, type(ir.to_proto(model))) if pa else "not serialisable") + tail)


PIPE_SIG = "functionalized-pipeline"


def run_pipeline(out: Outcome, model, w_orig, pipe: dict, tail: str) -> None:
    """functionalize(P)(m) for a composed / user-defined P (c13_gen.gen_pipeline): Sequential and
    PassManager objects (nested, several steps), functionalized members, built-in passes and synthetic
    passes of all four declaration classes (in-place, side-effect-only, functional, destructive; some
    raising after their work) in every position.  Whatever P is and whether it returns or raises,
    m's all-observables snapshot and proto must be what they were.  The signature names the kind of
    the functionalized object and what it declares about itself (labels only; the verdict is the
    snapshot / proto comparison)."""
    c = out.counters
    tree = pipe["tree"]
    log: list = []
    inner = c13_gen.build_pipeline(tree, log)
    top = c13_gen.top_kind(tree)
    declares = c13_gen.decl_name(inner.in_place, inner.changes_input)
    leaf_classes = [c13_gen.leaf_class(x) for x in c13_gen.leaves(tree)]
    what = (f"functionalize({c13_gen.describe_pipeline(tree)}) [a {top} that declares itself {declares}] called "
            f"{pipe.get('repeat', 1)}x with a {'PassResult' if pipe.get('arg') == 'result' else 'Model'}")
    wrapper = functionalize(inner)
    try:
        pb = proto_bytes(model)
    except Exception:  # noqa: BLE001
        pb = None
    before = full_snapshot(w_orig)
    for _ in range(pipe.get("repeat", 1)):
        try:
            result = wrapper(PassResult(model, False) if pipe.get("arg") == "result" else model)
            c["pipeline_returned"] += 1
            if result.modified:
                c["pipeline_modified_its_copy"] += 1
            if result.model is model:
                out.add(f"{PIPE_SIG}-returned-input|{top}|declares {declares}", f"{what} returned m itself" + tail)
        except Exception as e:  # noqa: BLE001 - a pipeline may fail (a member raises / rejects the model); m must still be untouched
            root = e
            for _ in range(12):
                if root.__cause__ is None:
                    break
                root = root.__cause__
            c[f"pipeline_raised:{type(root).__name__}"] += 1
    after = full_snapshot(w_orig)
    c["pipeline_runs"] += 1
    c[f"pipeline_top:{top}"] += 1
    c[f"pipeline_declares:{declares}"] += 1
    c[f"pipeline_first_pass:{leaf_classes[0].split('!')[0]}"] += 1
    c[f"pipeline_arg:{pipe.get('arg', 'model')}"] += 1
    for lc in leaf_classes:
        c[f"pipeline_member:{lc}"] += 1
    bare = [x.split("!")[0].split(":")[-1] for x in leaf_classes]  # declaration class of each leaf
    if any(t.startswith(("in-place:", "destructive:")) for t in log) and (
            any(x in ("functional", "destructive") for x in bare) or '"fn"' in json.dumps(tree)):
        c["pipeline_mixing_edits_of_the_given_model_with_out_of_place_members"] += 1
    for t in log:
        c[f"pipeline_copy_edit:{t.split(':')[1].split('(')[0]}"] += 1
    sig = f"{PIPE_SIG}-changed-input|{top}|declares {declares}"
    d = [x for x in snapshot.diff(before, after) if x[1] != "const_tensor_name"]
    if d:
        out.add(sig, f"{what} changed its input model m: "
                + "; ".join(f"{lab}.{f}: {x!r} -> {y!r}" for lab, f, x, y in d[:4])
                + f"\n  work done by the user-defined members: {log[:12]}" + tail)
        return
    if pb is None:
        return
    try:
        pa = proto_bytes(model)
    except Exception:  # noqa: BLE001
        pa = None
    if pa == pb:
        return
    ptype = type(ir.to_proto(model)) if pa is not None else None
    if ptype is not None and without_attr_tensor_names(pa, ptype) == without_attr_tensor_names(pb, ptype):
        c["report_only_shared_tensor_renamed_changes_serialised_attribute_tensor_name"] += 1
        return
    out.add(sig + "|proto-only", f"{what}: the serialised input model differs afterwards: "
            + (first_proto_difference(pb, pa, ptype) if pa else "not serialisable") + tail)


def ensure_synthetic_passes_visible() -> None:
    """Harness self-check: called directly, a synthetic in-place pass leaves a non-empty snapshot
    difference on the model it is given and a side-effect-only one leaves none (the other two
    declarations involve Model.clone(), the code under test, and are not part of the self-check)."""
    spec = {"family": "exec", "nodes": 4, "depth": 1, "funcs": 1, "inits": 2, "dev": False, "meta": True, "seed": 5}
    for decl in ("in-place", "side-effect-only"):
        for seed in (1, 2, 3):
            m = c13_gen.build(spec)
            ana, _ = analyze_model(m)
            w = RegionWorld(set())
            w.add_region(ana)
            before = full_snapshot(w)
            try:
                c13_gen.build_pipeline(["s", decl, seed, False], [])(m)
            except Exception:  # noqa: BLE001 - a public-API rewrite rejected by the tree under test: nothing to self-check
                continue
            changed = bool(snapshot.diff(before, full_snapshot(w)))
            if changed != c13_gen.DECLS[decl][1]:
                raise RuntimeError(f"synthetic {decl} pass (seed {seed}): input changed = {changed}")


# =============================================================================================
# driver, shrinking, replay
# =============================================================================================
def make_desc(ctx, case: int, rng):
    thorough = ctx.tier != "quick"
    if rng.random() < 0.78:
        spec = c13_gen.default_spec(rng)
        src = {"kind": "gen", "spec": spec}
    else:
        w = World()
        g = Gen(rng, w, rng.choice([0.1, 0.3]), avoid={"owned_node_outputs"})
        ops = []
        for _ in range(rng.choice([15, 30, 50, 80] if thorough else [15, 30, 50])):
            op = g.op()
            w.apply(op)
            ops.append(op)
        src = {"kind": "hist", "ops": ops}
    b = build_source(src)
    target = choose_target(rng, b, src["kind"])
    if target["kind"] == "none":
        return None, None
    desc = {"src": src, "target": target, "deep": rng.random() < 0.5, "allow": rng.random() < 0.7,
            "side": rng.choice(["clone", "orig"]), "passes": []}
    if target["kind"] == "model" and src["kind"] == "gen":
        # onnx's C++ shape inference / checker can crash the process (SIGSEGV) on the structural family
        # (If/Loop/Split nodes that only look like the standard operators); the two passes that call
        # into it are run on the plausible 'exec' family only
        menu = PASSES if src["spec"]["family"] == "exec" else [p for p in PASSES if p not in C_API_PASSES]
        k = 6 if src["spec"]["family"] == "exec" else 3
        start = rng.randrange(len(menu))
        desc["passes"] = [menu[(start + 7 * j) % len(menu)] for j in range(k)]
        desc["pipes"] = [c13_gen.gen_pipeline(rng, src["spec"]["family"], PASSES) for _ in range(2)]
    return desc, b


def reproduces(desc, edits, sig, n_edits) -> bool:
    import random

    o = execute(desc, edits, random.Random(0), n_edits, stop_after_sig=sig)
    return any(v["sig"] == sig for v in o.violations)


SPEC_REDUCTIONS = [("funcs", 0), ("dev", False), ("meta", False), ("depth", 0), ("depth", 1), ("inits", 0), ("nodes", 1),
                   ("nodes", 2), ("nodes", 3)]


def minimise(desc, edits, sig):
    """1-minimal edit history (ddmin) and a greedily reduced source for one signature."""
    desc = dict(desc)
    if edits:
        edits = shrink.ddmin(list(edits), lambda sub: reproduces(desc, sub, sig, 0), max_tests=60)
    if sig.startswith(PIPE_SIG):
        for p in desc.get("pipes", []):
            trial = dict(desc, passes=[], pipes=[p])
            if reproduces(trial, edits, sig, 0):
                desc = trial
                break
        tests = 0
        progress = len(desc.get("pipes", [])) == 1
        while progress and tests < 40:
            progress = False
            for smaller in c13_gen.pipeline_reductions(desc["pipes"][0]):
                tests += 1
                trial = dict(desc, pipes=[smaller])
                if reproduces(trial, edits, sig, 0):
                    desc, progress = trial, True
                    break
                if tests >= 40:
                    break
    elif not sig.startswith(("functionalize", "direct")):
        trial = dict(desc, passes=[], pipes=[])
        if reproduces(trial, edits, sig, 0):
            desc = trial
    else:
        name = sig.split("|")[1]
        trial = dict(desc, passes=[name], pipes=[])
        if reproduces(trial, edits, sig, 0):
            desc = trial
    if desc["src"]["kind"] == "gen":
        for key, val in SPEC_REDUCTIONS:
            spec = dict(desc["src"]["spec"])
            if spec.get(key) == val or (isinstance(val, int) and not isinstance(val, bool) and spec.get(key, 0) <= val):
                continue
            spec[key] = val
            trial = dict(desc, src={"kind": "gen", "spec": spec})
            if reproduces(trial, edits, sig, 0):
                desc = trial
    else:
        ops = shrink.ddmin(list(desc["src"]["ops"]),
                           lambda sub: reproduces(dict(desc, src={"kind": "hist", "ops": sub}), edits, sig, 0), max_tests=60)
        desc = dict(desc, src={"kind": "hist", "ops": ops})
    return desc, edits


def report(ctx, desc, outcome: Outcome, seen: set) -> None:
    for v in outcome.violations:
        sig = v["sig"]
        if sig in seen:
            ctx.violation(sig, v["msg"], None)  # counted under the signature already reported by this shard
            continue
        seen.add(sig)
        edits = outcome.edits[: v["n_edits"]] if v["n_edits"] else []
        try:
            small_desc, small_edits = minimise(desc, edits, sig)
            import random

            o2 = execute(small_desc, small_edits, random.Random(0), 0, stop_after_sig=sig)
            msg = next((x["msg"] for x in o2.violations if x["sig"] == sig), v["msg"])
            if small_edits:
                msg += "\n  minimal edit history on the edited copy:\n    " + "\n    ".join(
                    histories.describe(o2.edits, o2.results))
        except RecursionError:
            small_desc, small_edits, msg = desc, edits, v["msg"]
        ctx.violation(sig, msg, {"desc": small_desc, "edits": small_edits, "sig": sig})


def run(ctx) -> None:
    logging.disable(logging.CRITICAL)  # onnx_ir logs a warning per untyped value while serialising
    extra = snapshot.unaccounted_attributes()
    if extra:
        raise RuntimeError(f"snapshot does not account for public attributes {extra}; extend vfpy/snapshot.py")
    ensure_xgen_consistent()
    ensure_synthetic_passes_visible()
    n_edits = int(ctx.params.get("edits", 30))
    seen: set = set()
    for case in ctx.case_ids():
        rng = ctx.rng(case)
        desc, built = make_desc(ctx, case, rng)
        if desc is None:
            ctx.count("skipped_empty_source")
            continue
        outcome = execute(desc, None, rng, n_edits, built=built)
        for k, n in outcome.counters.items():
            ctx.count(k, n)
        ctx.count("status:" + outcome.status)
        ctx.evaluation(key=stable_hash(outcome.key) if outcome.key is not None else None, nontrivial=outcome.nontrivial)
        if case % 131 == 0:
            ctx.sample({"case": case, "desc": {k: v for k, v in desc.items() if k != "src"},
                        "source": desc["src"] if desc["src"]["kind"] == "gen" else {"kind": "hist", "ops": len(desc["src"]["ops"])},
                        "status": outcome.status,
                        "edits": histories.describe(outcome.edits, outcome.results)[:12]})
        if outcome.violations:
            report(ctx, desc, outcome, seen)


def replay(data, ctx) -> None:
    import random

    logging.disable(logging.CRITICAL)
    o = execute(data["desc"], data.get("edits") or [], random.Random(0), 0)
    want = data.get("sig")
    for v in o.violations:
        if want is None or v["sig"] == want:
            msg = v["msg"]
            if o.edits:
                msg += "\n  edit history:\n    " + "\n    ".join(histories.describe(o.edits, o.results))
            ctx.violation(v["sig"], msg, data)
