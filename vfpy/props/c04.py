"""C04 - all tensor representations agree on values and bytes for every dtype/shape.

Runtime monitor: for one logical array D (element type T, shape S, value class V) every applicable
representation is built on the real onnx_ir classes and observed through the public tensor
interface (dtype/shape/size/nbytes, numpy(), __array__, tobytes(), tofile() into eight
destination kinds, serialize_tensor + onnx's decoder + deserialize round trip).  Oracles: a
pure-Python bit packer (vfpy/c04_oracle.py), onnx.numpy_helper / onnx.helper.make_tensor, and the
agreement of all representations with the same D.  The element-type tables of _enums.py are
checked against a table written from the ONNX spec, against each other and against onnx.helper.
"""

from __future__ import annotations

import math
import os
import random
import re
from collections import Counter

import ml_dtypes
import numpy as np
import onnx
from onnx import helper as onnx_helper

import onnx_ir as ir
from onnx_ir import tensor_adapters

from vfpy import c04_checks as K
from vfpy import c04_oracle as O
from vfpy import c04_reps as R
from vfpy.c04_reps import REPS, Env

ID = "C04"
LEVEL = "exploration"
RULE = (
    "case = (element type, representation, shape, value class, tofile destination); grid = 24 numeric "
    "types x 10 shapes (scalar, empty, 1/2/3/5/7/9 elements, rank 4 with a zero dim, rank 6) x value "
    "classes {zeros, all-ones bits, min/max, +-inf, NaN payloads, random} x every applicable "
    "representation x 8 destinations, plus the string grid and random cases (random rank/dims/mixed "
    "values). Representations include plain Python floats that are NOT values of the declared type (just "
    "inside either end of an element's rounding interval, or on an end that ties to it) given to ir.tensor, "
    "and arrays in non-native byte order / unaligned storage (a constructor may refuse the former; a tensor "
    "that is built must agree). thorough enumerates the whole grid; quick = every sub-byte cell + a seeded 60% of the "
    "rest. A case is non-trivial when the array is non-empty and not all-zero; distinct = distinct "
    "(type, representation, shape, value class, destination)."
)
ASSUMPTIONS = [
    "numpy, ml_dtypes, protobuf and torch store and copy bytes faithfully (they carry the logical data to and from the library)",
    "onnx.numpy_helper / onnx.helper are used only as an additional, independent encoder/decoder; the primary oracle is the harness bit packer, and both agreed on the whole grid",
    "the host is little endian (the big-endian branches of the library are not exercised)",
    "signalling NaNs are excluded for representations whose data passes through Python floats / protobuf float fields (the CPU quiets them outside the library)",
    "an unrounded Python float is used as a source only where numpy/ml_dtypes' own conversion of that one Python float and onnx.helper.make_tensor both return the element it was constructed for (round to nearest, ties to even); elsewhere the expected value is ambiguous, the exact value is used and the element is counted in report_only_trusted_base_conversion_differs",
    "the file system of $VF_SHARD_TMP is a regular local file system supporting copy_file_range or rejecting it with one of the errno values the library tolerates",
]

SUBBYTE = [n for n in O.NUMERIC if O.SPECS[n].bits < 8]
QUICK_FRACTION = 0.60
N_RANDOM = {"quick": 30000, "thorough": 1200000}

_grid_cache: dict | None = None


def _grid() -> dict:
    """Deterministic enumeration of the grid (independent of the seed)."""
    global _grid_cache
    if _grid_cache is not None:
        return _grid_cache
    sub, rest, static_na = [], [], Counter()
    for name in O.NUMERIC:
        sp = O.SPECS[name]
        classes = [c for c in O.VCLASSES if O.has_class(sp, c)]
        static_na["n/a:value-class-not-in-type"] += (len(O.VCLASSES) - len(classes)) * len(O.SHAPES)
        for shape in O.SHAPES:
            probe = Env(sp, shape, [0] * O.prod(shape), None, None)
            for rep_name, rep in REPS.items():
                r = rep.applicable(probe)
                if r is not None and r.startswith("n/a:"):
                    static_na[r] += len(classes)
                    continue
                for vc in classes:
                    (sub if sp.bits < 8 else rest).append((name, shape, vc, rep_name))
    strings = [(rep, shape, vc) for rep in K.STRING_REPS for shape in O.SHAPES for vc in K.STRING_VCLASSES]
    _grid_cache = {"sub": sub, "rest": rest, "strings": strings, "static_na": static_na}
    return _grid_cache


def _n_rest_quick() -> int:
    return math.ceil(len(_grid()["rest"]) * QUICK_FRACTION)


def plan(tier: str) -> dict:
    g = _grid()
    n_grid = len(g["sub"]) + len(g["strings"]) + (len(g["rest"]) if tier == "thorough" else _n_rest_quick())
    quick = tier == "quick"
    return {
        "cases": n_grid + N_RANDOM[tier],
        "shards": 16,
        "budget_s": 30 if quick else 480,
        "floors": {
            "table_checks": 200,
            # "The monitor was reached" floors.  Deliberately low for quick: on this machine the 16 cores
            # were shared with 100-140 other runnable processes while this was built and a shard then gets
            # through only a few dozen cases in its 30 s; an idle machine completes all planned cases
            # (compare cases_done with cases_planned in the evidence).
            "obs_numpy": 100 if quick else 36000,
            "obs_tobytes": 100 if quick else 36000,
            "obs_tofile": 800 if quick else 288000,
            "obs_onnx_decode": 80 if quick else 30000,
            "groups_subbyte": 30 if quick else 7000,
            "groups_external": 20 if quick else 9000,
            "groups_string": 2 if quick else 250,
            "unrounded_elements_hard(eps<=2^-30)": 60 if quick else 7000,
            "nonnative_byte_order_constructions": 20 if quick else 700,
        },
        "min_nontrivial": 400 if quick else 150000,
        "params": {},
    }


# ---- case list of this run --------------------------------------------------------------------------
def _lanes(cases: list, nshards: int) -> list:
    """Importing torch costs seconds of CPU (tens of seconds of wall time on an oversubscribed machine),
    so the cases that need torch are placed only on the first quarter of the shards (case i runs on shard
    i mod nshards); the other shards never import it."""
    tl = max(1, nshards // 4)
    t_cases = [c for c in cases if (c[0] == "grid" and _needs_torch(c[4])) or (c[0] == "random" and _random_is_torch(c[1]))]
    n_cases = [c for c in cases if not ((c[0] == "grid" and _needs_torch(c[4])) or (c[0] == "random" and _random_is_torch(c[1])))]
    out, ti, ni = [], 0, 0
    for p in range(len(cases)):
        want_t = (p % nshards) < tl
        if (want_t and ti < len(t_cases)) or ni >= len(n_cases):
            out.append(t_cases[ti])
            ti += 1
        else:
            out.append(n_cases[ni])
            ni += 1
    return out


def _case_list(tier: str, seed: int, nshards: int = 16) -> list:
    return _lanes(_case_list_unplaced(tier, seed), nshards)


def _case_list_unplaced(tier: str, seed: int) -> list:
    """All sub-byte grid cases + strings + (thorough: the rest of the grid | quick: a seeded sample of
    it) + random cases.  The two halves are shuffled and interleaved so that a shard stopped by its time
    budget on a loaded machine has still seen a spread of every kind of case."""
    g = _grid()
    rng = random.Random(f"{seed}:C04:order")
    first = [("grid",) + c for c in g["sub"]]
    strings = [("string",) + c for c in g["strings"]]
    randoms = [("random", k) for k in range(N_RANDOM[tier])]
    if tier == "thorough":   # the whole grid first (so it is complete even when the budget cuts the tail)
        grid = first + [("grid",) + c for c in g["rest"]] + strings
        rng.shuffle(grid)
        return grid + randoms
    idx = sorted(random.Random(f"{seed}:C04:sample").sample(range(len(g["rest"])), _n_rest_quick()))
    rest = [("grid",) + g["rest"][i] for i in idx] + randoms
    rng.shuffle(first)
    rng.shuffle(rest)
    second = strings + rest
    keyed = [(i / len(first), 0, c) for i, c in enumerate(first)] + [(i / len(second), 1, c) for i, c in enumerate(second)]
    keyed.sort(key=lambda t: (t[0], t[1]))
    return [c for _, _, c in keyed]


_DIMS = [0, 1, 1, 2, 2, 3, 3, 4, 5, 7, 8, 9, 16, 17]


def _needs_torch(rep_name: str) -> bool:
    return "orch" in rep_name


TORCH_REPS = [r for r in R.REP_NAMES if _needs_torch(r)]
PLAIN_REPS = [r for r in R.REP_NAMES if not _needs_torch(r)]


def _random_is_torch(k: int) -> bool:
    return k % 8 == 0


def _random_case(rng, k: int = 1) -> tuple:
    name = rng.choice(SUBBYTE) if rng.random() < 0.4 else rng.choice(O.NUMERIC)
    r = rng.random()
    if r < 0.08:
        shape = (rng.randrange(18, 2500),)
    else:
        for _ in range(20):
            shape = tuple(rng.choice(_DIMS) for _ in range(rng.randrange(0, 7)))
            if O.prod(shape) <= 600:
                break
        else:
            shape = (rng.randrange(0, 40),)
    sp = O.SPECS[name]
    vc = rng.choice([c for c in O.VCLASSES if O.has_class(sp, c)] + ["mixed", "mixed", "mixed"])
    return name, shape, vc, rng.choice(TORCH_REPS if _random_is_torch(k) else PLAIN_REPS)


# ---- shrinking and signatures ---------------------------------------------------------------------
_SHRINK_SHAPES = [(1,), (2,), (3,), (4,), (5,), (8,)]
_sig_cache: dict = {}
_trial_cache: dict = {}


def _coarse_shape(shape) -> str:
    if O.prod(shape) == 0:
        return "empty"
    return "scalar" if len(shape) == 0 else "rank1" if len(shape) == 1 else "rank>=2"


def _shape_class(shape) -> str:
    if O.prod(shape) == 0:
        return "empty"
    if len(shape) == 0:
        return "scalar"
    return "rank>=2" if len(shape) >= 2 else f"size={shape[0]}"


class Shrinker:
    def __init__(self, tmp: str, counts: Counter):
        self.tmp = tmp
        self.counts = counts

    def trial(self, dtype: str, shape, values, rep_name: str, check_id: str):
        """values: a value-class name or an explicit pattern list. Returns (env, message) if the same
        check fails on this simpler case, else None."""
        sp = O.SPECS[dtype]
        rep = REPS[rep_name]
        if isinstance(values, str):
            vc = values if O.has_class(sp, values) else "random"
            pats = O.gen_patterns(sp, O.prod(shape), vc, random.Random(f"C04-shrink:{dtype}:{shape}:{vc}"))
        else:
            pats = values
        env = Env(sp, shape, pats, self.tmp, random.Random("C04-shrink-env"))
        if rep.applicable(env.quiet() if rep.pyfloat else env) is not None:
            return None
        phase = K.phase_of(check_id)
        tkey = (dtype, tuple(shape), values if isinstance(values, str) else tuple(values), rep_name, phase)
        fails = _trial_cache.get(tkey)
        if fails is None:
            self.counts["shrink_trials"] += 1
            fails = K.evaluate(env, rep_name, Counter(), phases=phase)
            if len(_trial_cache) < 20000:
                _trial_cache[tkey] = fails
        if check_id in fails:
            return env, fails[check_id]
        return None

    def shrink(self, dtype: str, shape, vclass: str, patterns, rep_name: str, check_id: str, message: str):
        # one shrink per (check, representation, element type, coarse shape class, all-zero data?)
        key = (check_id, rep_name, dtype, _coarse_shape(shape), not any(patterns))
        if key in _sig_cache:
            self.counts["shrink_cache_hits"] += 1
            return _sig_cache[key]
        values: object = list(patterns)
        # 0. a round trip ends in a raw_data proto tensor: if that class fails by itself, say so
        if check_id.startswith("roundtrip") and rep_name != "TensorProtoTensor/raw_data":
            for inner in ("numpy-mismatch", "tobytes-mismatch"):
                t = self.trial(dtype, shape, values, "TensorProtoTensor/raw_data", inner)
                if t is not None:
                    out = self.shrink(dtype, shape, vclass, patterns, "TensorProtoTensor/raw_data", inner, t[1])
                    _sig_cache[key] = out
                    return out
        # 1. representation: walk to the simplest sibling that still fails the same check
        first = True
        while REPS[rep_name].sibling is not None:
            t = self.trial(dtype, shape, values if first else (vclass if vclass != "mixed" else "random"),
                           REPS[rep_name].sibling, check_id)
            if t is None:
                break
            rep_name, message, values, first = REPS[rep_name].sibling, t[1], t[0].patterns, False
        # 2. shape
        shape_cls = None
        if O.prod(shape) > 0:
            for cand in _SHRINK_SHAPES:
                if tuple(shape) == cand:
                    shape_cls = "nonempty"
                    break
                t = self.trial(dtype, cand, vclass if vclass != "mixed" else "random", rep_name, check_id)
                if t is not None:
                    shape, values, message, shape_cls = cand, t[0].patterns, t[1], "nonempty"
                    break
        n = O.prod(shape)
        if shape_cls is None and n > 8:
            # fails only beyond the small candidates: find the smallest failing 1-D size by bisection
            vc = vclass if vclass != "mixed" else "random"
            if len(shape) == 1 or self.trial(dtype, (n,), vc, rep_name, check_id) is not None:
                lo, hi = 8, n
                while hi - lo > 1:
                    mid = (lo + hi) // 2
                    if self.trial(dtype, (mid,), vc, rep_name, check_id) is not None:
                        hi = mid
                    else:
                        lo = mid
                t = self.trial(dtype, (hi,), vc, rep_name, check_id)
                if t is not None:
                    shape, values, message, shape_cls = (hi,), t[0].patterns, t[1], "large-only"
        if shape_cls is None:
            shape_cls = _shape_class(shape)
        # 3. values
        val_cls = None
        for cand, label in (("zeros", "any"), ("ones", "nonzero"), ("random", "some")):
            t = self.trial(dtype, shape, cand, rep_name, check_id)
            if t is not None:
                values, message, val_cls = t[0].patterns, t[1], label
                break
        if val_cls is None:
            val_cls = f"class:{vclass}"
        # 4. element type
        bits = O.SPECS[dtype].bits
        bits_cls = None
        vsrc = {"any": "zeros", "nonzero": "ones", "some": "random"}.get(val_cls, vclass if vclass != "mixed" else "random")
        for cand, label in (("UINT8", "*"), (f"UINT{bits}", str(bits))):
            if cand not in O.SPECS:
                continue
            if cand == dtype:
                if dtype == "UINT8" and self.trial("UINT16", shape, vsrc, rep_name, check_id) is None:
                    label = "8"
                bits_cls = label
                break
            t = self.trial(cand, shape, vsrc, rep_name, check_id)
            if t is not None:
                dtype, values, message, bits_cls = cand, t[0].patterns, t[1], label
                break
        if bits_cls is None:
            bits_cls = f"{bits}:{dtype}"
        rep_sig = REPS[rep_name].sig.replace("typed-field", O.SPECS[dtype].field)
        sig = f"{check_id}|{rep_sig}|bits={bits_cls}|shape={shape_cls}|values={val_cls}"
        witness = {"kind": "numeric", "dtype": dtype, "shape": list(shape), "patterns": list(values),
                   "rep": rep_name, "check": check_id, "signature": sig}
        out = (sig, witness, message)
        _sig_cache[key] = out
        return out


def _report(ctx, shrinker: Shrinker, dtype, shape, vclass, env: Env, rep_name: str, fails: dict) -> None:
    for check_id, message in fails.items():
        ctx.count("failed_checks_raw")
        sig, witness, msg = shrinker.shrink(dtype, shape, vclass, env.patterns, rep_name, check_id, message)
        sp = O.SPECS[witness["dtype"]]
        text = (f"{check_id} on {witness['rep']} with {witness['dtype']} shape {tuple(witness['shape'])} "
                f"patterns {[hex(p) for p in witness['patterns'][:12]]} (expected bytes "
                f"{O.pack(witness['patterns'], sp.bits).hex()[:64]}): {msg}  [first seen on {dtype} {tuple(shape)} "
                f"{vclass} via {rep_name}]")
        ctx.violation(sig, text, witness)


# ---- element-type tables ----------------------------------------------------------------------------
_KIND_PREFIX = {"f": "float", "bf": "float", "i": "int", "u": "uint", "c": "complex", "b": "bool", "s": "string"}


def check_tables(count, with_torch: bool = True) -> list[tuple[str, str]]:
    bad: list[tuple[str, str]] = []

    def chk(cond: bool, what: str, name: str, msg: str) -> None:
        count("table_checks")
        if not cond:
            bad.append((f"table:{what}|{name}", msg))

    def get(fn):
        try:
            return fn()
        except Exception as e:  # noqa: BLE001
            return e

    members = {m.name: m for m in ir.DataType}
    onnx_members = dict(onnx.TensorProto.DataType.items())
    for name, value in onnx_members.items():
        chk(name in members and int(members[name]) == value, "onnx-enum", name,
            f"onnx.TensorProto.{name}={value} vs ir.DataType {members.get(name)!r}")
    for name, m in members.items():
        chk(onnx_members.get(name) == int(m), "onnx-enum", name, f"ir.DataType.{name}={int(m)} not in onnx")
        if name == "UNDEFINED":
            continue
        sp = O.SPECS.get(name)
        chk(sp is not None and sp.value == int(m), "enum-value", name, f"{name}={int(m)} vs spec {sp}")
        if sp is None:
            continue
        npdt = get(m.numpy)
        chk(not isinstance(npdt, Exception) and npdt == sp.np_dtype, "numpy-type", name, f"{name}.numpy() = {npdt!r}, spec says {sp.np_dtype}")
        chk(get(lambda: ir.DataType.from_numpy(sp.np_dtype)) == m, "from_numpy", name, f"from_numpy({sp.np_dtype}) = {get(lambda: ir.DataType.from_numpy(sp.np_dtype))!r}")
        if not isinstance(npdt, Exception):
            chk(get(lambda: ir.DataType.from_numpy(npdt)) == m, "from_numpy-roundtrip", name, f"from_numpy({name}.numpy()) != {name}")
        if sp.np_dtype is not None and sp.np_dtype.byteorder == "=" and sp.np_dtype.itemsize > 1:
            # the statement does not say whether the numpy-type table knows byte orders; what must hold is
            # that a tensor built on such an array agrees with the others (representations */byteswapped)
            other = get(lambda: ir.DataType.from_numpy(sp.np_dtype.newbyteorder(">" if np.little_endian else "<")))
            count("report_only_from_numpy(non-native-byte-order)_" + (
                "refuses:" + type(other).__name__ if isinstance(other, Exception) else
                "maps-to-same-element-type" if other == m else "maps-to-other-element-type"))
        sn = get(m.short_name)
        chk(isinstance(sn, str) and get(lambda: ir.DataType.from_short_name(sn)) == m, "short-name-roundtrip", name, f"short_name {sn!r} does not round trip")
        if isinstance(sn, str):
            mm = re.match(r"^([a-z]+?)(\d*)(e\d+m\d+\w*)?$", sn)
            chk(mm is not None and _KIND_PREFIX.get(mm.group(1)) == sp.kind, "short-name-kind", name, f"short name {sn!r} for a {sp.kind} type")
            if sp.kind != "string":
                chk(mm is not None and mm.group(2) == str(sp.bits), "short-name-bits", name, f"short name {sn!r} vs {sp.bits} bits")
        chk(get(lambda: onnx_helper.tensor_dtype_to_np_dtype(int(m))) == npdt, "onnx-np-dtype", name,
            f"onnx.helper.tensor_dtype_to_np_dtype = {get(lambda: onnx_helper.tensor_dtype_to_np_dtype(int(m)))!r} vs {npdt!r}")
        if sp.kind == "string":
            count("string_bitwidth_" + ("raises(documented)" if isinstance(get(lambda: m.bitwidth), TypeError) else "report_only_other"))
            continue
        chk(get(lambda: onnx_helper.np_dtype_to_tensor_dtype(sp.np_dtype)) == int(m), "onnx-np-dtype-inverse", name, "np_dtype_to_tensor_dtype disagrees")
        bw = get(lambda: m.bitwidth)
        chk(bw == sp.bits and isinstance(bw, int), "bitwidth", name, f"{name}.bitwidth = {bw!r}, spec says {sp.bits}")
        isz = get(lambda: m.itemsize)
        chk(isz == sp.bits / 8, "itemsize", name, f"{name}.itemsize = {isz!r}, spec says {sp.bits / 8}")
        chk(not isinstance(bw, Exception) and isz == bw / 8, "itemsize-vs-bitwidth", name, f"itemsize {isz!r} vs bitwidth {bw!r}")
        if not isinstance(npdt, Exception):
            chk(np.dtype(npdt).itemsize == max(1, sp.bits // 8), "numpy-itemsize", name, f"numpy itemsize {np.dtype(npdt).itemsize} vs {sp.bits} bits")
        # harness self-check of the spec table against ml_dtypes (not a verdict on the library)
        info = ml_dtypes.finfo(sp.np_dtype) if sp.kind == "float" else ml_dtypes.iinfo(sp.np_dtype) if sp.kind in ("int", "uint") else None
        assert info is None or info.bits == sp.bits, (name, info.bits)
        if with_torch and sp.torch is not None and hasattr(R.torch(), sp.torch):
            tdt = getattr(R.torch(), sp.torch)
            chk(get(lambda: tensor_adapters.to_torch_dtype(m)) == tdt, "torch-dtype", name, f"to_torch_dtype({name}) = {get(lambda: tensor_adapters.to_torch_dtype(m))!r}")
            chk(get(lambda: tensor_adapters.from_torch_dtype(tdt)) == m, "torch-dtype-inverse", name, f"from_torch_dtype({tdt}) = {get(lambda: tensor_adapters.from_torch_dtype(tdt))!r}")
            chk(tdt.itemsize == max(1, sp.bits // 8), "torch-itemsize", name, f"{tdt}.itemsize={tdt.itemsize}")
    for name in O.SPECS:
        chk(name in members, "enum-missing", name, f"ir.DataType has no {name}")
    shorts = [get(m.short_name) for m in members.values()]
    chk(len(set(map(str, shorts))) == len(shorts), "short-name-unique", "*", f"duplicate short names {shorts}")
    return bad


# ---- run ------------------------------------------------------------------------------------------------
def _run_numeric(ctx, shrinker, counts: Counter, dtype, shape, vclass, rep_name, rng, kind: str) -> None:
    sp = O.SPECS[dtype]
    rep = REPS[rep_name]
    shape = tuple(shape)
    pats = O.gen_patterns(sp, O.prod(shape), vclass, rng)
    env = Env(sp, shape, pats, os.environ["VF_SHARD_TMP"], rng)
    reason = rep.applicable(env.quiet() if rep.pyfloat else env)
    if reason is not None:
        ctx.count(("not_applicable:" if reason.startswith("n/a:") else "skipped_unsupported:") + reason.split(":", 1)[1])
        return
    refused_before = counts["refused_by_constructor"]
    fails = K.evaluate(env, rep_name, counts)
    if counts["refused_by_constructor"] != refused_before:
        # the constructor refused this input (allowed for this representation): no tensor, nothing observed
        ctx.count("groups_refused_by_constructor")
        return
    ctx.count("groups")
    ctx.count(f"groups_{kind}")
    ctx.count(f"groups_bits={sp.bits}")
    ctx.count(f"groups_class:{rep.cls}")
    if sp.bits < 8:
        ctx.count("groups_subbyte")
    if rep.external:
        ctx.count("groups_external")
    nontrivial = env.size > 0 and any(pats)
    for dest in K.DESTS:
        ctx.evaluation(f"{dtype}|{shape}|{vclass}|{rep_name}|{dest}", nontrivial=nontrivial)
    if env.size and ctx.shard == 0:
        ctx.sample({"dtype": dtype, "shape": list(shape), "value_class": vclass, "representation": rep_name,
                    "patterns": [hex(p) for p in pats[:8]], "expected_bytes": env.exp_bytes.hex()[:48],
                    "failed_checks": sorted(fails)})
    if fails:
        _report(ctx, shrinker, dtype, shape, vclass, env, rep_name, fails)


def _string_sig(check_id, rep, shape, vclass, counts, rng) -> tuple[str, dict]:
    scls, vcls, wshape, wvc = _shape_class(shape), f"class:{vclass}", tuple(shape), vclass
    for cand in ((2,), (3,)):
        f = K.evaluate_string(rep, K.gen_strings(O.prod(cand), wvc, rng), cand, wvc, Counter())
        if isinstance(f, dict) and check_id in f:
            scls, wshape = "nonempty", cand
            break
    f = K.evaluate_string(rep, K.gen_strings(O.prod(wshape), "ascii", rng), wshape, "ascii", Counter())
    if isinstance(f, dict) and check_id in f:
        vcls, wvc = "any", "ascii"
    return f"{check_id}|{rep}|string|shape={scls}|values={vcls}", {"shape": list(wshape), "vclass": wvc}


def _run_string(ctx, counts: Counter, rep, shape, vclass, rng) -> None:
    vals = K.gen_strings(O.prod(shape), vclass, rng)
    fails = K.evaluate_string(rep, vals, shape, vclass, counts)
    if isinstance(fails, str):
        ctx.count("not_applicable:" + fails.split(":", 1)[1])
        return
    ctx.count("groups")
    ctx.count("groups_string")
    ctx.evaluation(f"STRING|{shape}|{vclass}|{rep}", nontrivial=bool(vals) and any(vals))
    for check_id, message in fails.items():
        sig, w = _string_sig(check_id, rep, shape, vclass, counts, random.Random("C04-string-shrink"))
        wvals = K.gen_strings(O.prod(w["shape"]), w["vclass"], random.Random("C04-string-witness"))
        ctx.violation(sig, f"{check_id} on {rep} with strings {vals[:4]!r} shape {tuple(shape)}: {message}",
                      {"kind": "string", "rep": rep, "shape": w["shape"], "vclass": w["vclass"],
                       "vals": [v.hex() for v in wvals], "check": check_id, "signature": sig})


def run(ctx) -> None:
    counts: Counter = Counter()
    for key, n in _grid()["static_na"].items():
        if ctx.shard == 0:
            ctx.count("not_applicable_static:" + key.split(":", 1)[1], n)
    for sig, msg in check_tables(ctx.count, with_torch=False):
        ctx.violation(sig, msg, {"kind": "table", "signature": sig})
    ctx.evaluation("element-type tables", nontrivial=True)
    cases = _case_list(ctx.tier, ctx.seed, ctx.nshards)
    shrinker = Shrinker(os.environ["VF_SHARD_TMP"], counts)
    assert ctx.total_cases <= len(cases), (len(cases), ctx.total_cases)
    for case in ctx.case_ids():
        c = cases[case]
        if c[0] == "random":
            rng = ctx.rng(c[1], "random")
            dtype, shape, vclass, rep_name = _random_case(rng, c[1])
            _run_numeric(ctx, shrinker, counts, dtype, shape, vclass, rep_name, rng, "random")
        elif c[0] == "grid":
            _, dtype, shape, vclass, rep_name = c
            _run_numeric(ctx, shrinker, counts, dtype, shape, vclass, rep_name,
                         ctx.rng(f"{dtype}/{shape}/{vclass}", "cell"), "grid")
        else:
            _, rep, shape, vclass = c
            _run_string(ctx, counts, rep, shape, vclass, ctx.rng(f"{shape}/{vclass}", "string"))
    if R._torch is not None:      # this shard ran torch cases: check the adapter's dtype table too
        for sig, msg in check_tables(lambda k, n=1: None, with_torch=True):
            if sig.startswith("table:torch"):
                ctx.violation(sig, msg, {"kind": "table", "signature": sig})
        ctx.count("table_checks_torch")
    grid_done = not ctx.truncated_by_time and ctx.total_cases == len(cases) and len(ctx.violations) < ctx.MAX_VIOLATIONS
    for k, v in counts.items():
        ctx.count(k, v)
    ctx.exhaustive = bool(ctx.tier == "thorough" and grid_done)
    if ctx.tier == "thorough":
        ctx.note("exhaustive refers to the finite grid (types x shapes x value classes x representations x destinations); "
                 "the random cases beyond the grid are a sample")


# ---- replay ------------------------------------------------------------------------------------------------
def replay(data, ctx) -> None:
    tmp = os.environ.get("VF_SHARD_TMP")
    own = None
    if not tmp:
        import tempfile

        own = tempfile.TemporaryDirectory(prefix="vf-C04-replay-")
        tmp = own.name
    try:
        kind = data.get("kind")
        if kind == "table":
            for sig, msg in check_tables(ctx.count):
                if sig == data["signature"]:
                    ctx.violation(sig, msg, data)
        elif kind == "string":
            vals = [bytes.fromhex(v) for v in data["vals"]]
            fails = K.evaluate_string(data["rep"], vals, tuple(data["shape"]), data["vclass"], Counter())
            if isinstance(fails, dict) and data["check"] in fails:
                ctx.violation(data["signature"], f"{data['check']} on {data['rep']} {vals[:4]!r}: {fails[data['check']]}", data)
        else:
            sp = O.SPECS[data["dtype"]]
            env = Env(sp, tuple(data["shape"]), data["patterns"], tmp, random.Random("C04-shrink-env"))
            fails = K.evaluate(env, data["rep"], Counter())
            if data["check"] in fails:
                ctx.violation(data["signature"], f"{data['check']} on {data['rep']} {data['dtype']} shape {tuple(data['shape'])} "
                              f"patterns {data['patterns'][:12]}: {fails[data['check']]}", data)
    finally:
        if own is not None:
            own.cleanup()
