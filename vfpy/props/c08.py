"""C08 - an interrupted external-data save never damages an existing data file.

Monitor shape (DESIGN.md section 3, C08): for every generated scenario

1. a *recording run* of ``ir.save(..., external_data=...)`` counts every LINE event in
   ``onnx_ir.external_data`` / ``onnx_ir._io`` (``sys.monitoring``) and every call of the
   file-system functions, tensor methods and callbacks the save uses (counting wrappers);
2. *process death* at every recorded LINE-event index (``os.fork`` + ``os._exit`` inside the LINE
   callback) and in the middle of every counted write (file object / tensor / copy_file_range
   that dies after half of its bytes);
3. *exceptions* at every counted call of a realistic source (file-system function raising
   ``OSError``, tensor raising before / after a partial write, callback raising).

Oracle (parent process, independent of the code under test): directory listing and file bytes
against the two legal contents (the harness wrote the old bytes itself; the complete new bytes
come from an undisturbed reference save into another directory and are cross-checked against
the concatenation of the payloads the harness generated); ``valid()`` / ``tobytes()`` of the
model's external tensors against the old bytes; inode + content of each backing file to decide
whether it "was actually replaced".
"""

from __future__ import annotations

import contextlib
import gc
import logging
import os
import select
import shutil
import signal
import stat
import time
import traceback
from collections import Counter

import numpy as np
import onnx
import onnx.numpy_helper

import onnx_ir as ir
from onnx_ir import _core as _ir_core
from onnx_ir import _io as _ir_io
from onnx_ir import external_data as _ir_ed
from onnx_ir import serde as _ir_serde

from vfpy import c08_faults as F
from vfpy.ctx import stable_hash

ID = "C08"
LEVEL = "fault_enumeration"
RULE = (
    "scenario = model with 1-6 initializers of mixed kinds (in-memory, ExternalTensor backed by the "
    "destination directly / through a symlink alias / through the link target, ExternalTensor backed by "
    "another file in the model directory, LazyTensor, TensorProto-backed, two independent TensorProtocol probes) x destination "
    "plain / symlink / read-only / absent x serial or 2-3 workers x size threshold (small external "
    "tensors are loaded first) x callback x data-file object with or without fileno x single file or "
    "sharded next to pre-existing files (with and without a colliding shard name) x data-file name w.data / "
    "200-245 characters / 246-255 characters (no room for the staging directory name) / nested 3-9 directories "
    "deep x (symlink destinations) the name leads to its regular file directly / through a chain of 2-3 links "
    "in two directories / by an absolute link text / through a symlinked directory / through a text with '..', and "
    "destination-backed tensors read through the first name, the last intermediate link or the file's own name "
    "x base directories: 0-2 extra ExternalTensors (a fixed quarter of the scenarios has one, written, behind a "
    "written destination-backed tensor) whose location string equals that of a destination-backed tensor / the "
    "external_data argument but whose base_dir is another directory holding a different file of that name "
    "(never a destination: must stay valid with its bytes whatever happens) "
    "x client state: for every external tensor of the model (and for all together) the undisturbed save is "
    "repeated while the caller holds a live array from tensor.numpy() / np.asarray(tensor) - a view of the "
    "tensor's memory map, so release() of that tensor raises BufferError wherever the save calls it. Every LINE event of "
    "the recorded save is a death position; every counted call of a file-system function, tensor "
    "method or callback is an exception position (and a mid-write death position for writes); so is every "
    "write(2) below the buffered file object of the data file being produced (refused for good from the k-th one on, "
    "whole or after a short write: the failure surfaces at whatever later seek/flush/close flushes the buffer and "
    "the buffered bytes are lost). Fault pairs: "
    "every single fault after which the save still returned normally (failing setup call worked around, "
    "EXDEV fallback) is kept in place while the run is recorded again and the positions that follow it "
    "(exceptions, mid-write and LINE deaths) are exercised - sampled in quick, all in thorough - plus a "
    "primary failure followed by a failing cleanup call. File-system fault sites are the effects the property names, "
    "whichever stdlib function the save reaches them through (mode copy = shutil.copymode/copystat, os.chmod/fchmod; "
    "rename = os.replace/rename/renames, shutil.move; temp creation = tempfile.mkdtemp/mkstemp; cleanup = os.remove/unlink, "
    "os.rmdir, also inside a shutil.rmtree). Resource exhaustion: from every descriptor-consuming call of the recorded run "
    "(open of the data file, open of a source file, temp creation), from a sample of the other counted calls and from a "
    "sample of the LINE events onwards the process cannot obtain another file descriptor until the save ends (kernel-"
    "enforced RLIMIT_NOFILE: EMFILE from open/os.open/scandir/listdir/mmap/... alike, path-based calls keep working), so "
    "cleanup code that itself needs a descriptor is exercised. Before the enumeration (which the time budget cuts "
    "after a few scenarios per shard) the undisturbed save of every planned scenario is run and judged, together with "
    "its client-state variants, five sampled single exception positions and two sampled starting points of descriptor exhaustion, "
    "every effect class (temp creation, open of the data file, mode copy, rename) failing on EVERY attempt from its first call on "
    "with each error class of a table (rename: EACCES, EPERM, EBUSY, EXDEV, ENOSPC; injected OSErrors are instances of the "
    "subclass the interpreter raises for the errno, e.g. PermissionError), and call sequences on ONE model object in ONE directory: "
    "two or three saves in a row (undisturbed; another worker count; a sampled fault in the first, the second or the first of "
    "three), every save judged against the directory, destination bytes and backing files as the previous save left them - after a "
    "save that replaced the data file the model still holds the invalidated tensors, so the next save fails by itself, with no "
    "injected fault, wherever the code notices. A save that returns although an effect on the data file failed before any rename "
    "returned must have installed the complete new bytes. "
    "Non-trivial: a destination data file pre-exists, at least one tensor is written, and at least one "
    "death and one exception position were exercised; distinct by scenario description."
)
ASSUMPTIONS = [
    "process death is os._exit at a LINE event or in the middle of a write: page cache survives, no power loss / fsync ordering is modelled",
    "exceptions are injected only at calls the save makes to tempfile.mkdtemp, open, file seek/write/truncate/flush/close, the write(2) calls CPython's own buffered layer makes for the data file being produced (the harness opens it unbuffered and puts a real io.BufferedWriter/BufferedRandom on top; once refused, every later write(2) on a data file is refused too; bytes numpy/copy_file_range write through the descriptor itself are not intercepted there), os.copy_file_range, the mode copy (shutil.copymode/copystat, os.chmod/fchmod/lchmod - whichever the save calls), the rename (os.replace/rename/renames, shutil.move), the cleanup calls (os.remove/unlink, os.rmdir, directly or inside shutil.rmtree), tensor tofile/tobytes/numpy, LazyTensor functions and the user callback - never at arbitrary lines; descriptor exhaustion is the kernel's own EMFILE (RLIMIT_NOFILE soft limit 0 from the chosen call / LINE event until the save ends), ENFILE is taken to behave alike",
    "the wrappers take effect because external_data/_core resolve the os/shutil/tempfile functions and open at call time (a call counts as an effect of the save when onnx_ir code makes it directly or through shutil/tempfile/pathlib, outermost wrapped call only); a refactoring that binds them early makes the position counters drop below their floors (inconclusive), never 'held'",
    "the complete new bytes are those of an undisturbed save of the same scenario into another directory (cross-checked against the concatenation of the generated payloads: mismatches are counted, C07 judges layout)",
    "in parallel saves the k-th call / n-th LINE event is schedule dependent; every index of the recorded run is still exercised once",
    "failures of the cleanup calls and injected tensor/callback/source-open faults that fire after the rename returned (tensors below the threshold are evaluated while the model file is serialised) are judged on destination bytes only, and so is descriptor exhaustion when the rename had returned before the save ended (what failed for want of a descriptor came after the data file was in place); a failing file-system effect on the data file itself (temp creation, open/write/close, mode copy) is judged strictly wherever the code placed it, also behind the rename; a save that raises although no injected fault fired (the exception is its own reaction to the scenario: a tensor whose memory map the client still holds cannot be released, a name is too long) is judged strictly wherever the code let it happen",
    "'its backing file was actually replaced' is decided per tensor from the inode and content behind the name the tensor itself reads through (links followed), before and after the save",
    "when the undisturbed reference save returns but leaves the regular file behind the destination unchanged, the complete new bytes are taken to be the concatenation of the generated payloads (report-only counter) and the scenario is still judged",
    "a save that RETURNS normally after an injected failure of a file-system effect on the data file (temp creation, open/write/close, mode copy, rename) that fired before any rename returned is read as claiming success: of the two legal contents only the complete new bytes are then accepted (previous bytes under a model file describing the new layout are a damaged data file for every reader); without an injected failure 'returned but still old' stays report-only",
    "in a sequence of saves of one model object the previous bytes / directory listing / backing inodes are re-observed before every save; the complete new bytes are known (the reference save's) only while no tensor of the model is invalid or reads from a file an earlier save of the sequence replaced - afterwards a later save is judged on 'exactly as before this save', leftovers and tensor validity only, and tensors whose file an earlier save replaced are not judged again",
]

logging.getLogger("onnx_ir").setLevel(logging.CRITICAL)

DEST = "w.data"            # external_data argument of every save
STORE = "store"            # sub directory holding the symlink target
TARGET = "store/w.blob"    # where w.data points to in symlink mode
ALIAS = "alias.data"       # symlink -> w.data in plain / read-only mode
OTHER = "other.data"       # a second data file that is never a destination
TWIN = "twin"              # another base directory: holds files with the SAME relative names, never destinations
MODEL = "m.onnx"
CHILD_TIMEOUT_S = 60.0

_DTYPES = {
    "FLOAT": (np.float32, ir.DataType.FLOAT),
    "INT64": (np.int64, ir.DataType.INT64),
    "UINT8": (np.uint8, ir.DataType.UINT8),
    "INT8": (np.int8, ir.DataType.INT8),
    "FLOAT16": (np.float16, ir.DataType.FLOAT16),
    "INT32": (np.int32, ir.DataType.INT32),
    "DOUBLE": (np.float64, ir.DataType.DOUBLE),
}

_MON: F.LineMonitor | None = None


def names(spec: dict) -> dict[str, str]:
    """Relative paths of one scenario: the ``external_data`` argument (``w.data`` by default, or a
    200-255 character name and/or a deeply nested relative path), and the regular file behind it in
    symlink mode (same directory depth + ``store/``, same name length, so that the temporary
    directory name derived from it is as long as the one derived from the link)."""
    dest = spec.get("dest") or DEST
    d, base = os.path.split(dest)
    stem = base[:-5] if base.endswith(".data") else base
    return {"dest": dest, "dir": d, "target": os.path.join(d, STORE, stem + ".blob"), "alias": ALIAS}


LINK_SHAPES = ("one", "chain2", "chain3", "abs", "dirlink", "dotdot")


def link_layout(spec: dict, root: str) -> tuple[list[tuple[str, str]], str | None]:
    """Symlink mode: the links that lead from the ``external_data`` name to the regular file, as
    (relative path of the link, link text) in the order they are followed, and the relative path of
    the last intermediate link (None when the name points at the file directly).  Link texts are
    relative to the directory of the link unless the shape is ``abs``.

    one      w.data -> store/w.blob
    chain2   w.data -> hop1.data -> store/w.blob
    chain3   w.data -> hop1.data -> store/hop2.lnk -> w.blob       (hops in two directories)
    abs      w.data -> <root>/.../store/w.blob                      (absolute link text)
    dirlink  w.data -> lstore/w.blob, lstore -> store               (symlinked parent directory)
    dotdot   w.data -> store/../store/w.blob"""
    nm = names(spec)
    d, dest, target = nm["dir"], nm["dest"], nm["target"]
    tb = os.path.basename(target)
    shape = spec.get("link") or "one"
    if shape == "chain2":
        hop = os.path.join(d, "hop1.data")
        return [(dest, "hop1.data"), (hop, os.path.join(STORE, tb))], hop
    if shape == "chain3":
        hop1, hop2 = os.path.join(d, "hop1.data"), os.path.join(d, STORE, "hop2.lnk")
        return [(dest, "hop1.data"), (hop1, os.path.join(STORE, "hop2.lnk")), (hop2, tb)], hop2
    if shape == "abs":
        return [(dest, os.path.join(os.path.abspath(root), target))], None
    if shape == "dirlink":
        return [(os.path.join(d, "lstore"), STORE), (dest, os.path.join("lstore", tb))], None
    if shape == "dotdot":
        return [(dest, os.path.join(STORE, "..", STORE, tb))], None
    return [(dest, os.path.join(STORE, tb))], None


def monitor() -> F.LineMonitor:
    global _MON
    if _MON is None:
        _MON = F.LineMonitor([_ir_ed, _ir_io])
    return _MON


# ---------------------------------------------------------------------------------------------
# plan
# ---------------------------------------------------------------------------------------------
def plan(tier: str) -> dict:
    quick = tier == "quick"
    return {
        # one scenario = ~450 forks (~3 s on an idle core, 3-5x that on a loaded machine); shards stop
        # (also in the middle of a scenario) when the soft budget is used up
        "cases": 128 if quick else 1920,
        "shards": 16,
        "budget_s": 50 if quick else 540,
        "hard_timeout_s": 240 if quick else 1500,
        # floors are what a run on a machine loaded 5x over its cores still reaches (shards are cut by
        # budget_s); an idle machine does about four times as much
        "floors": {
            "scenarios_enumerated": 3 if quick else 100,
            # pass 1: the undisturbed save of every planned scenario is judged before the enumeration
            "undisturbed_pass|scenarios": 100 if quick else 1500,
            # ... and repeated while the client holds live arrays of its external tensors
            "undisturbed_pass|held_array_cases|array of ext_dest/written": 50 if quick else 600,
            "undisturbed_pass|held_array_cases|save raised|BufferError": 60 if quick else 800,
            "undisturbed_pass|sampled_exception_positions": 300 if quick else 4000,
            # every effect failing on every attempt, by error class (PermissionError family on the rename included)
            "undisturbed_pass|every_attempt_fault_cases": 500 if quick else 7000,
            "undisturbed_pass|exc_fired|every-attempt|replace|EACCES": 50 if quick else 700,
            "undisturbed_pass|exc_fired|every-attempt|replace|EBUSY": 50 if quick else 700,
            # the same model object saved again: judged against what the previous save left
            "undisturbed_pass|sequence_steps|later saves judged": 500 if quick else 7000,
            "undisturbed_pass|sequence_steps|later single-file save after the data file was replaced: "
            "raised by itself": 100 if quick else 1500,
            # symlink destinations that are not a single link straight to the file
            "undisturbed_pass|scenarios|symlink|chain of links, single file, "
            "written tensor reads the final file by its own name": 3 if quick else 40,
            "death_points|line": 3000 if quick else 30000,
            "death_points|midwrite": 10 if quick else 150,
            "death_outcome|old": 1500 if quick else 15000,
            "death_outcome|new": 300 if quick else 3000,
            "exc_points|total": 300 if quick else 5000,
            # effect classes (whichever stdlib function the save uses for them): rename, mode copy, temp creation
            "exc_fired|replace": 8 if quick else 100,
            "exc_fired|copymode": 6 if quick else 80,
            "exc_fired|mkdtemp": 4 if quick else 80,
            # descriptor exhaustion (kernel-enforced) from a counted call / LINE event onwards
            "exc_fired|descriptors-exhausted": 40 if quick else 600,
            "undisturbed_pass|exc_fired|descriptors-exhausted": 100 if quick else 1500,
            "exc_fired|open": 5 if quick else 80,
            "exc_fired|file.write": 15 if quick else 200,
            # write(2) refused below the buffered layer (reported late, buffered bytes lost)
            "exc_fired|raw.write": 15 if quick else 200,
            "exc_fired|tensor": 8 if quick else 100,
            "exc_fired|callback": 8 if quick else 100,
            "exc_judged|strict": 150 if quick else 3000,
            "tensor_checks|valid-and-old-bytes": 150 if quick else 2000,
            "tensor_checks|invalidated-and-replaced": 6 if quick else 80,
            # base directories: a tensor with the location string of a destination-backed tensor but another
            # base_dir (another file) stays valid and keeps its bytes
            "undisturbed_pass|scenarios|external tensor with a destination's location under another base_dir|"
            "written behind a written destination-backed tensor, single file": 8 if quick else 120,
            "undisturbed_pass|tensor_checks|valid-and-old-bytes|same location under another base_dir": 100 if quick else 1500,
            "sharded_preexisting_checks": 300 if quick else 3000,
            # every failing setup call (mkdtemp / first open / copymode) is looked at as the first half
            # of a fault pair; the second stage runs whenever the save carries on after it
            "pair_first_faults|setup call failed: save raised by itself": 10 if quick else 200,
        },
        "min_nontrivial": 3 if quick else 60,
        "params": {},
    }


# ---------------------------------------------------------------------------------------------
# scenario generation (pure data; everything needed to rebuild the scenario in a child)
# ---------------------------------------------------------------------------------------------
def gen_spec(rng, case: int) -> dict:
    mode = ["plain", "symlink", "readonly", "plain", "symlink", "readonly", "absent"][case % 7]
    sharded = case % 5 == 4
    parallel = case % 2 == 1
    n = rng.randint(2 if sharded else 1, 6)
    kinds_pool = ["mem"] * 3 + ["ext_dest"] * 4 + ["ext_other", "lazy", "probe_tofile", "probe_bytes", "proto"]
    # every third scenario uses a very long but legal data-file name and/or a deeply nested relative
    # path (a name of 246-255 characters leaves no room for the '.<name>.<random>' staging directory)
    dest, family = DEST, "short"
    if case % 3 == 2:
        family = rng.choice(["long-fits", "long-no-room", "long-no-room", "nested", "nested-long"])

        def long_name(length: int) -> str:
            head = f"w{rng.getrandbits(40):010x}"
            return head + "x" * (length - len(head) - 5) + ".data"

        nest = "/".join(f"d{i}" + "n" * rng.randint(0, 30) for i in range(rng.randint(3, 9)))
        if family == "long-fits":
            dest = long_name(rng.randint(200, 245))
        elif family == "long-no-room":
            dest = long_name(rng.randint(246, 255))
        elif family == "nested":
            dest = nest + "/" + DEST
        else:
            dest = nest + "/" + long_name(rng.randint(200, 255))
        if rng.random() < 0.5:
            # saves that do not stream any input from the destination itself
            kinds_pool = [k for k in kinds_pool if k != "ext_dest"] + ["mem"]
    tensors = []
    for i in range(n):
        kind = rng.choice(kinds_pool)
        if kind == "ext_dest" and mode == "absent":
            kind = "ext_other"
        dt = rng.choice(sorted(_DTYPES))
        r = rng.random()
        elems = rng.randint(1, 12) if r < 0.4 else (rng.randint(13, 300) if r < 0.92 else rng.randint(800, 2500))
        t = {"kind": kind, "dtype": dt, "n": elems, "seed": rng.getrandbits(32), "name": f"t{i}_{kind}"}
        if kind == "ext_dest":
            if mode == "symlink":
                t["via"] = rng.choice(["direct", "direct", "target"])
            else:
                t["via"] = rng.choice(["direct", "direct", "alias"])
        tensors.append(t)
    if (mode != "absent" and "ext_dest" in kinds_pool and not any(t["kind"] == "ext_dest" for t in tensors)
            and rng.random() < 0.85):
        t = tensors[rng.randrange(len(tensors))]
        t["kind"] = "ext_dest"
        t["via"] = "direct"
        t["name"] = t["name"].split("_")[0] + "_ext_dest"
    threshold = rng.choice([0, 0, 16, 48, 100, 256])
    sizes = [_nbytes(t) for t in tensors]
    if not any(s > threshold for s in sizes):
        threshold = 0
    spec = {
        "mode": mode,
        "sharded": sharded,
        "workers": (rng.choice([2, 3]) if parallel else rng.choice([None, None, 1])),
        "threshold": threshold,
        "callback": rng.random() < 0.6,
        "opaque": rng.random() < 0.5,
        "tensors": tensors,
        "old_seed": rng.getrandbits(32),
        "max_shard": None,
        "collide": None,
        "dest": dest,
        "dest_family": family,
    }
    if sharded:
        written = sum(s for s in sizes if s > threshold)
        r = rng.random()
        if r < 0.15:
            spec["max_shard"] = written + 10          # one shard: the shard name is w.data itself
        else:
            spec["max_shard"] = max(1, written // rng.choice([2, 3, 4]))
        # whether a destination shard name is pre-created is decided after the reference run
        spec["collide_kind"] = rng.choice(["none", "none", "file", "symlink", "dangling"])
        spec["collide_pick"] = rng.random()
    # (drawn last: the draws above stay what they were for a given case)
    # how the symlinked destination leads to its regular file: directly, through a chain of links,
    # by an absolute text, through a symlinked directory or a text with '..' - and which name of the
    # chain each destination-backed tensor reads through
    spec["link"] = "one"
    if mode == "symlink":
        spec["link"] = rng.choice(["one", "chain2", "chain2", "chain3", "chain3", "abs", "dirlink", "dotdot"])
        if spec["link"] in ("chain2", "chain3"):
            for t in tensors:
                if t["kind"] == "ext_dest":
                    t["via"] = rng.choice(["direct", "hop", "target", "target"])
    # a fixed stratum (not left to chance, so that every seed reaches it): single-file saves over a chain
    # of links in which a written destination-backed tensor reads the final file by its own name
    if mode == "symlink" and not sharded and family == "short" and (case // 7) % 3 == 0:
        spec["link"] = "chain2" if (case // 21) % 2 == 0 else "chain3"
        dest_backed = [t for t in tensors if t["kind"] == "ext_dest"]
        if not dest_backed:
            t = tensors[0]
            t["kind"] = "ext_dest"
            t["name"] = t["name"].split("_")[0] + "_ext_dest"
            dest_backed = [t]
        big = max(dest_backed, key=_nbytes)
        big["via"] = "target"
        if _nbytes(big) <= spec["threshold"]:
            spec["threshold"] = 0
    # (drawn last) base directories: the tensors of a model need not share one base_dir (two models loaded
    # from their own folders and combined).  An ``ext_twin`` tensor has the SAME location string as a
    # destination-backed tensor (or as the external_data argument) but another base_dir, where a
    # different file of that name lives: it is never backed by a destination.  A fixed stratum (every
    # seed reaches it) puts a written twin behind a written destination-backed tensor of the same location;
    # elsewhere position, size and count are random.
    stratum = (case // 2) % 4 == 1
    if stratum or rng.random() < 0.2:
        for j in range(1 if rng.random() < 0.7 else 2):
            dest_backed = [i for i, t in enumerate(tensors) if t["kind"] == "ext_dest"]
            written = [i for i in dest_backed if _nbytes(tensors[i]) > spec["threshold"]]
            if stratum and j == 0 and written:
                i = rng.choice(written)
                d = tensors[i]
                twin = {"kind": "ext_twin", "dtype": d["dtype"], "n": d["n"], "via": d.get("via", "direct")}
                pos = rng.randint(i + 1, len(tensors))
            else:
                via = tensors[rng.choice(dest_backed)].get("via", "direct") if dest_backed else "direct"
                r = rng.random()
                twin = {"kind": "ext_twin", "dtype": rng.choice(sorted(_DTYPES)),
                        "n": rng.randint(1, 12) if r < 0.3 else rng.randint(13, 300), "via": via}
                pos = rng.randint(0, len(tensors))
            twin["seed"] = rng.getrandbits(32)
            twin["name"] = f"tw{j}_ext_twin"
            tensors.insert(pos, twin)
    return spec


def _nbytes(t: dict) -> int:
    return t["n"] * np.dtype(_DTYPES[t["dtype"]][0]).itemsize


def _payload(t: dict) -> bytes:
    import random

    return random.Random(f"payload:{t['seed']}").randbytes(_nbytes(t))


def _layout_old_files(spec: dict) -> tuple[bytes, bytes, dict]:
    """Old bytes of the destination file and of other.data, and name -> (file, offset, length)."""
    import random

    rng = random.Random(f"old:{spec['old_seed']}")
    where: dict[str, tuple[str, int, int]] = {}
    blobs = {}
    for which in ("ext_dest", "ext_other"):
        buf = bytearray(rng.randbytes(rng.randint(3, 40)))       # junk header: offsets differ from the new layout
        members = [t for t in spec["tensors"] if t["kind"] == which]
        rng.shuffle(members)
        for t in members:
            buf += rng.randbytes(rng.randint(0, 9))
            where[t["name"]] = (which, len(buf), _nbytes(t))
            buf += _payload(t)
        buf += b"\xeeOLD\xee" + rng.randbytes(rng.randint(0, 30))
        blobs[which] = bytes(buf)
    return blobs["ext_dest"], blobs["ext_other"], where


def _layout_twins(spec: dict) -> tuple[dict[str, bytes], dict[str, tuple[int, int]]]:
    """Bytes of the files in the other base directory (one per distinct name the twins read through)
    and tensor name -> (offset, length).  Own random stream: the layout above is what it was."""
    import random

    blobs: dict[str, bytes] = {}
    where: dict[str, tuple[int, int]] = {}
    twins = [t for t in spec["tensors"] if t["kind"] == "ext_twin"]
    for via in sorted({t.get("via", "direct") for t in twins}):
        rng = random.Random(f"twin:{spec['old_seed']}:{via}")
        buf = bytearray(rng.randbytes(rng.randint(0, 40)))
        for t in twins:
            if t.get("via", "direct") != via:
                continue
            buf += rng.randbytes(rng.randint(0, 9))
            where[t["name"]] = (len(buf), _nbytes(t))
            buf += _payload(t)
        buf += b"\xeeTWIN\xee" + rng.randbytes(rng.randint(0, 30))
        blobs[via] = bytes(buf)
    return blobs, where


def location_of(spec: dict, root: str, via: str) -> str:
    """The location string of a tensor that reads the destination 'via' one of its names."""
    nm = names(spec)
    hop = link_layout(spec, root)[1] if spec["mode"] == "symlink" else None
    return {"direct": nm["dest"], "alias": ALIAS, "target": nm["target"], "hop": hop or nm["dest"]}[via]


class Scenario:
    def __init__(self, spec: dict, root: str) -> None:
        self.spec = spec
        self.root = root
        self.plan_ref: list = [F.Plan()]
        self.model = None
        self.ext: list[dict] = []        # external tensors: {tensor, name, backing (rel path), old (bytes), role}
        self.old_dest = b""
        self.old_other = b""
        self.dest_rel = DEST             # path (relative) of the regular file that holds the data
        self.expected_new_concat = b""


def materialize(spec: dict, root: str) -> Scenario:
    """Create the directory content and the model.  Deterministic in (spec, root)."""
    sc = Scenario(spec, root)
    os.makedirs(root)
    old_dest, old_other, where = _layout_old_files(spec)
    sc.old_dest, sc.old_other = old_dest, old_other
    mode = spec["mode"]
    nm = names(spec)
    dest, target = nm["dest"], nm["target"]
    if nm["dir"]:
        os.makedirs(os.path.join(root, nm["dir"]))
    sc.dest_rel = dest
    if mode == "symlink":
        os.mkdir(os.path.join(root, os.path.dirname(target)))
        with open(os.path.join(root, target), "wb") as f:
            f.write(old_dest)
        links, hop = link_layout(spec, root)
        for rel, text in links:
            os.symlink(text, os.path.join(root, rel))
        sc.dest_rel = target
    elif mode in ("plain", "readonly"):
        with open(os.path.join(root, dest), "wb") as f:
            f.write(old_dest)
        os.symlink(dest, os.path.join(root, ALIAS))
        if mode == "readonly":
            os.chmod(os.path.join(root, dest), 0o444)
    with open(os.path.join(root, OTHER), "wb") as f:
        f.write(old_other)
    twin_blobs, twin_where = _layout_twins(spec)
    for via, blob in twin_blobs.items():
        path = os.path.join(root, TWIN, location_of(spec, root, via))
        os.makedirs(os.path.dirname(path), exist_ok=True)
        with open(path, "wb") as f:
            f.write(blob)
    if spec["sharded"]:
        # stale shards of an earlier layout with another shard count: never destinations
        for name in ("w-00001-of-00009.data", "w-00002-of-00009.data"):
            with open(os.path.join(root, name), "wb") as f:
                f.write(b"stale:" + name.encode())
        if spec.get("collide"):
            path = os.path.join(root, spec["collide"])
            kind = spec["collide_kind"]
            if kind == "file":
                with open(path, "wb") as f:
                    f.write(b"precious bytes of somebody else")
            elif kind == "symlink":
                os.symlink(OTHER, path)
            elif kind == "dangling":
                os.symlink("nowhere.bin", path)

    values = []
    concat = bytearray()
    for t in spec["tensors"]:
        np_dt, ir_dt = _DTYPES[t["dtype"]]
        payload = _payload(t)
        shape = ir.Shape([t["n"]])
        kind = t["kind"]
        name = t["name"]
        if kind == "mem":
            tensor = ir.Tensor(np.frombuffer(payload, dtype=np_dt).copy(), name=name)
        elif kind == "proto":
            proto = onnx.numpy_helper.from_array(np.frombuffer(payload, dtype=np_dt).copy(), name)
            tensor = _ir_serde.TensorProtoTensor(proto)
        elif kind == "lazy":
            tensor = ir.LazyTensor(_lazy_func(sc.plan_ref, payload, np_dt, name), dtype=ir_dt, shape=shape, name=name)
        elif kind == "probe_tofile":
            tensor = F.ProbeTensorToFile(payload, np.dtype(np_dt), shape, ir_dt, name, sc.plan_ref)
        elif kind == "probe_bytes":
            tensor = F.ProbeTensorBytes(payload, np.dtype(np_dt), shape, ir_dt, name, sc.plan_ref)
        elif kind in ("ext_dest", "ext_other", "ext_twin"):
            base_dir = root
            if kind == "ext_twin":
                # same location string as the destination-backed tensors, another base_dir, another file
                offset, length = twin_where[name]
                location = location_of(spec, root, t.get("via", "direct"))
                base_dir = os.path.join(root, TWIN)
                backing, old = os.path.join(TWIN, location), twin_blobs[t.get("via", "direct")]
            elif kind == "ext_other":
                _, offset, length = where[name]
                location, backing, old = OTHER, OTHER, old_other
            else:
                _, offset, length = where[name]
                location = location_of(spec, root, t.get("via", "direct"))
                backing, old = sc.dest_rel, old_dest
            tensor = ir.ExternalTensor(location, offset, length, ir_dt, shape=shape, name=name, base_dir=base_dir)
            sc.ext.append({
                # loc: the name (relative to the scenario directory) the tensor itself reads through
                "tensor": tensor, "name": name, "backing": backing,
                "loc": backing if kind == "ext_twin" else location,
                "old": old[offset:offset + length],
                "role": ("written" if length > spec["threshold"] else "loaded-first"),
                "kind": kind,
            })
        else:
            raise AssertionError(kind)
        if len(payload) > spec["threshold"]:
            concat += payload
        values.append(ir.Value(name=name, const_value=tensor, shape=shape, type=ir.TensorType(ir_dt)))
    graph = ir.Graph([], [], nodes=[], initializers=values, name="g", opset_imports={"": 20})
    sc.model = ir.Model(graph, ir_version=10)
    sc.expected_new_concat = bytes(concat)
    return sc


def _lazy_func(plan_ref, payload, np_dt, name):
    def func():
        F._apply_simple(plan_ref[0].hit("lazy.func"))
        return ir.Tensor(np.frombuffer(payload, dtype=np_dt).copy(), name=name)

    return func


# ---------------------------------------------------------------------------------------------
# running one save
# ---------------------------------------------------------------------------------------------
def run_save(sc: Scenario, plan: F.Plan, mon_mode: str = "off", target: int = -1, options: dict | None = None):
    """One ``ir.save`` of the scenario under the wrappers.  Returns (exception or None, LINE events).
    ``options`` overrides write options of the scenario for this call (``workers``)."""
    spec = sc.spec
    if options and "workers" in options:
        spec = dict(spec, workers=options["workers"])
    sc.plan_ref[0] = plan
    callback = None
    if spec["callback"]:
        def callback(tensor, info):  # noqa: ARG001
            F._apply_simple(plan.hit("callback"))

    kwargs = dict(
        external_data=names(spec)["dest"],
        size_threshold_bytes=spec["threshold"],
        max_workers=spec["workers"],
        callback=callback,
    )
    if spec["sharded"]:
        kwargs["max_shard_size_bytes"] = spec["max_shard"]
    mon = monitor()
    exc = None
    action = None
    if mon_mode == "off" and plan.line_exhaust() is not None:
        # descriptors run out at a LINE event of the save (position independent of every wrapper)
        mon_mode, target, action = "call", plan.line_exhaust(), plan.exhaust_at_line
    with F.patched(plan, opaque=spec["opaque"], external_data_module=_ir_ed, core_module=_ir_core):
        mon.start(mon_mode, target, action)
        try:
            ir.save(sc.model, os.path.join(sc.root, MODEL), **kwargs)
        except BaseException as e:  # noqa: BLE001 - injected KeyboardInterrupt/MemoryError included
            exc = e
        finally:
            events = mon.stop()
    return exc, events


# ---------------------------------------------------------------------------------------------
# observation of a directory
# ---------------------------------------------------------------------------------------------
def snapshot(root: str) -> dict[str, tuple]:
    out: dict[str, tuple] = {}
    for dirpath, dirnames, filenames in os.walk(root):
        for name in list(dirnames) + filenames:
            full = os.path.join(dirpath, name)
            rel = os.path.relpath(full, root)
            st = os.lstat(full)
            if stat.S_ISLNK(st.st_mode):
                text = os.readlink(full)
                # absolute link texts name the run directory: comparable across runs
                absroot = os.path.abspath(root)
                if text == absroot or text.startswith(absroot + os.sep):
                    text = "<root>" + text[len(absroot):]
                out[rel] = ("l", text)
            elif stat.S_ISDIR(st.st_mode):
                out[rel] = ("d",)
            else:
                with open(full, "rb") as f:
                    out[rel] = ("f", f.read(), stat.S_IMODE(st.st_mode))
    return out


def classify_bytes(got: bytes, old: bytes, new: bytes | None) -> str:
    if got == old:
        return "old"
    if new is not None and got == new:
        return "new"
    if new is not None and len(got) < len(new) and new.startswith(got):
        return "truncated-new"
    if len(got) < len(old) and old.startswith(got):
        return "truncated-old"
    if new is not None and len(got) == len(new):
        return "mixed-new-length"
    return "other"


def dest_state(sc_spec: dict, dest_rel: str, s0: dict, s1: dict, old: bytes, new: bytes | None) -> tuple[str, str]:
    """('old'|'new'|<defect>, detail) for the pre-existing destination."""
    if sc_spec["mode"] == "symlink":
        link = names(sc_spec)["dest"]
        if s1.get(link) != s0.get(link):
            return "symlink-replaced", f"{_brief(link)}: {s0.get(link)} -> {_short(s1.get(link))}"
    entry = s1.get(dest_rel)
    if entry is None:
        return "missing", f"{_brief(dest_rel)} no longer exists"
    if entry[0] != "f":
        return "not-regular", f"{_brief(dest_rel)} became {entry[0]}"
    cls = classify_bytes(entry[1], old, new)
    detail = f"{_brief(dest_rel)}: {len(entry[1])} bytes (old {len(old)}, new {len(new) if new is not None else '?'})"
    return cls, detail


def _brief(path: str) -> str:
    return path if len(path) <= 60 else f"{path[:24]}...{path[-12:]} ({len(path)} chars)"


def _short(entry) -> str:
    if entry is None:
        return "absent"
    if entry[0] == "f":
        return f"file[{len(entry[1])}B mode={oct(entry[2])}]"
    return repr(entry)


def new_entries(s0: dict, s1: dict, allowed: set[str]) -> list[str]:
    return sorted(k for k in s1 if k not in s0 and k not in allowed)


def leftover_class(rel: str, entry: tuple, dest_rel: str) -> str:
    base = os.path.basename(rel)
    parent_base = os.path.basename(os.path.dirname(rel))
    prefix = "." + os.path.basename(dest_rel) + "."
    if base.startswith(prefix) or base.startswith(".w"):
        return "leftover-tempdir" if entry[0] == "d" else "leftover-tempfile"
    if parent_base.startswith(prefix) or parent_base.startswith(".w"):
        return "leftover-tempfile"
    return "leftover-other"


# ---------------------------------------------------------------------------------------------
# per-scenario driver
# ---------------------------------------------------------------------------------------------
class Judge:
    """Holds what is legal for one scenario and turns observations into verdicts."""

    def __init__(self, ctx, spec: dict, base: str) -> None:
        self.ctx = ctx
        self.spec = spec
        self.base = base
        self.runs = 0
        self.s0: dict = {}
        self.new: bytes | None = None
        self.ref_outputs: set[str] = set()
        self.dest_rel = DEST
        self.old = b""
        self.found: list[tuple[str, str, dict]] = []   # (signature, message, replay)
        self.outcomes: Counter[str] = Counter()
        # later saves of a call sequence on one model object (``run_sequence_case``): what the complete new
        # bytes would be is not known to the harness once a tensor reads from a file an earlier save replaced
        self.new_unknown = False
        self.context = ""

    def fresh_dir(self) -> str:
        self.runs += 1
        return os.path.join(self.base, f"r{self.runs}")

    # -- violations -----------------------------------------------------------------------------
    def violate(self, sig: str, msg: str, replay: dict) -> None:
        self.found.append((sig, msg, replay))

    def describe(self) -> str:
        s = self.spec
        tens = ", ".join(
            f"{t['name']}[{_nbytes(t)}B{'/' + t['via'] if t.get('via') else ''}]" for t in s["tensors"]
        )
        return (
            f"mode={s['mode']}{'/' + s['link'] if s['mode'] == 'symlink' and s.get('link') else ''} "
            f"dest={s.get('dest_family', 'short')}[{_brief(names(s)['dest'])}] sharded={s['sharded']} "
            f"max_shard={s['max_shard']} collide={_brief(s['collide']) if s.get('collide') else None}"
            f"({s.get('collide_kind')}) workers={s['workers']} threshold={s['threshold']} callback={s['callback']} "
            f"opaque_file={s['opaque']} tensors=[{tens}]" + self.context
        )

    # -- checks after an in-process run -----------------------------------------------------------
    def backing_state(self, sc: Scenario, before_ino: dict) -> dict[str, bool]:
        """rel path of backing file -> was it actually replaced (inode or content changed / gone)."""
        replaced = {}
        for rel, (ino, content) in before_ino.items():
            full = os.path.join(sc.root, rel)
            try:
                st = os.stat(full)
                with open(full, "rb") as f:
                    now = f.read()
                replaced[rel] = (st.st_ino != ino) or (now != content)
            except OSError:
                replaced[rel] = True
        return replaced

    def check_tensors(self, sc: Scenario, replaced: dict, *, where: str, fault_tag: str, replay: dict,
                      converse: bool, stale: frozenset = frozenset()) -> None:
        """Every external tensor of the model against the state of its backing file: invalid only if
        the file was actually replaced; valid and not replaced => reads exactly the old bytes;
        ``converse`` (undisturbed / absorbed saves only): replaced => invalidated."""
        ctx = self.ctx
        for e in sc.ext:
            t = e["tensor"]
            if e["name"] in stale:
                # its backing file was replaced by an EARLIER save of the sequence: whether it is valid
                # and what it reads now is no longer this save's doing
                ctx.count("tensor_checks|skipped: backing file replaced by an earlier save of the sequence")
                continue
            # "its backing file was actually replaced" is read off the name the tensor itself reads
            # through (links followed): inode or content behind that name changed
            was_replaced = replaced.get(e.get("loc") or e["backing"], False)
            valid = bool(t.valid())
            tag = f"{e['kind']}/{e['role']}"
            if not valid and not was_replaced:
                ctx.count("tensor_checks|VIOLATION invalidated-not-replaced")
                # argument class: how the destination name leads to its file and which name the tensor reads
                shape = self.spec.get("link") or "one"
                via = next((t.get("via") for t in self.spec["tensors"] if t["name"] == e["name"]), None)
                arg = (f"[dest=symlink-{shape},tensor-via={via}]"
                       if self.spec["mode"] == "symlink" and shape != "one" and e["kind"] == "ext_dest" else "")
                if e["kind"] == "ext_twin":
                    arg = "[tensor=same-location-under-another-base_dir]"
                self.violate(
                    f"{where}|{fault_tag}|tensor-invalidated-file-not-replaced{arg}",
                    f"external tensor {e['name']} ({tag}) reading {_brief(e.get('loc') or e['backing'])} (regular file: "
                    f"{_brief(e['backing'])}) is invalid although that file was "
                    f"not replaced (same inode, same bytes). Scenario: {self.describe()}", replay)
                continue
            if not valid and was_replaced:
                ctx.count("tensor_checks|invalidated-and-replaced")
                continue
            if valid and was_replaced:
                if converse:
                    # The statement says tensors are invalidated ONLY WHEN their file was replaced; it
                    # does not state the converse (a replaced file => the tensor is invalidated), which
                    # only ir.save's docstring promises.  Observed on the pinned tree for external
                    # tensors <= size_threshold_bytes that are loaded to memory first: report-only.
                    ctx.count(f"report_only_valid_although_replaced|{e['role']}")
                else:
                    ctx.count("report_only_valid_although_replaced_after_late_fault")
                continue
            # valid and not replaced: must read the old bytes
            try:
                got = bytes(t.tobytes())
            except Exception as ex:  # noqa: BLE001
                ctx.count("tensor_checks|VIOLATION read-raises")
                self.violate(
                    f"{where}|{fault_tag}|tensor-read-raises",
                    f"external tensor {e['name']} ({tag}) is valid() and its file was not replaced but tobytes() raised "
                    f"{type(ex).__name__}: {ex}. Scenario: {self.describe()}", replay)
                continue
            finally:
                try:
                    t.release()
                except Exception:  # noqa: BLE001
                    pass
            if got != e["old"]:
                ctx.count("tensor_checks|VIOLATION wrong-bytes")
                self.violate(
                    f"{where}|{fault_tag}|tensor-returns-other-bytes",
                    f"external tensor {e['name']} ({tag}) returns bytes that are not the old ones. Scenario: {self.describe()}",
                    replay)
            else:
                ctx.count("tensor_checks|valid-and-old-bytes")
                if e["kind"] == "ext_twin":
                    ctx.count("tensor_checks|valid-and-old-bytes|same location under another base_dir")

    def check_preexisting(self, s1: dict, *, where: str, fault_tag: str, replay: dict, skip: set[str]) -> bool:
        """Sharded clause: no pre-existing entry changed.  For single-file saves the entries other than
        the destination are report-only."""
        ok = True
        for rel, entry in self.s0.items():
            if rel in skip:
                continue
            now = s1.get(rel)
            same = now is not None and now[:2] == entry[:2]
            if self.spec["sharded"]:
                self.ctx.count("sharded_preexisting_checks")
                if not same:
                    ok = False
                    self.violate(
                        f"{where}|{fault_tag}|sharded-preexisting-changed",
                        f"sharded save changed pre-existing {rel}: {_short(entry)} -> {_short(now)}. Scenario: {self.describe()}",
                        replay)
            elif not same:
                self.ctx.count("report_only_other_preexisting_changed")
            if same and entry[0] == "f" and now[2] != entry[2]:
                self.ctx.count("report_only_mode_changed")
        return ok

    def allowed_new(self) -> set[str]:
        allowed = {MODEL} | set(self.ref_outputs)
        if self.spec["mode"] == "absent":
            allowed.add(names(self.spec)["dest"])
        if self.spec.get("collide") and self.spec.get("collide_kind") == "dangling":
            # the shard written through the dangling link
            allowed.add(os.path.join(os.path.dirname(self.spec["collide"]), "nowhere.bin"))
        return allowed

    # -- success --------------------------------------------------------------------------------
    def judge_success(self, sc: Scenario, s1: dict, before_ino: dict, *, where: str, fault_tag: str, replay: dict,
                      failed_effects: list | None = None, stale: frozenset = frozenset()) -> str:
        """``failed_effects``: injected failures of file-system effects on the data file (temp creation,
        open / write, mode copy, rename) that fired before any rename returned, although the save returned."""
        spec = self.spec
        outcome = "n/a"
        if not spec["sharded"] and spec["mode"] != "absent":
            outcome, detail = dest_state(spec, self.dest_rel, self.s0, s1, self.old, self.new)
            if outcome not in ("old", "new"):
                if self.new_unknown:
                    self.ctx.count("report_only_later_save_of_sequence_returned|new bytes not known to the harness")
                else:
                    self.violate(f"{where}|{fault_tag}|dest-{outcome}",
                                 f"after a save that returned normally the destination is neither old nor new: {detail}. "
                                 f"Scenario: {self.describe()}", replay)
            elif outcome == "old" and failed_effects and not self.new_unknown and self.new != self.old:
                # An effect of producing / installing the new data file FAILED and the save returned all
                # the same: "holds either exactly its previous bytes or exactly the complete new bytes"
                # leaves, for a save that reports success, only the complete new bytes - previous bytes
                # under a model file that describes the new layout are a damaged data file for every reader.
                self.ctx.count("success_after_failed_effect|VIOLATION destination still old")
                self.violate(
                    f"{where}|{fault_tag}|save-returned-but-new-data-file-not-installed",
                    f"{' and '.join(failed_effects)} failed, the save returned normally all the same, and the "
                    f"destination still holds its previous bytes instead of the complete new ones: {detail}. "
                    f"Scenario: {self.describe()}", replay)
            elif outcome == "old":
                self.ctx.count("report_only_later_save_of_sequence_returned|destination as before" if self.new_unknown
                               else "report_only_success_but_dest_old" if self.new != self.old
                               else "success|the complete new bytes equal the previous ones")
            elif failed_effects:
                self.ctx.count("success_after_failed_effect|destination holds the complete new bytes")
        skip = set() if spec["sharded"] else {self.dest_rel}
        self.check_preexisting(s1, where=where, fault_tag=fault_tag, replay=replay, skip=skip)
        left = new_entries(self.s0, s1, self.allowed_new())
        if left:
            self.ctx.count("report_only_leftover_after_success", len(left))
        replaced = self.backing_state(sc, before_ino)
        self.check_tensors(sc, replaced, where=where, fault_tag=fault_tag, replay=replay, converse=True, stale=stale)
        return outcome

    # -- exception ------------------------------------------------------------------------------
    def judge_exception(self, sc: Scenario, s1: dict, before_ino: dict, exc: BaseException, plan: F.Plan,
                        *, fault_tag: str, replay: dict, stale: frozenset = frozenset()) -> str:
        """Save raised.  strict = the failure happened while producing the new data file (before the
        first os.replace returned) and no cleanup call was made to fail."""
        spec = self.spec
        ctx = self.ctx
        cleanup_fault = any(site in F.CLEANUP_SITES for (site, _k) in plan.faults)
        # 'late' is decided by the harness's own record of the real os.replace having returned
        # *before* the fault fired, never by what the code did after the fault
        # (when no injected fault fired at all the exception is the save's own reaction to the scenario
        # - a tensor whose mapping the client still holds cannot be released, a name is too long, ... -
        # and WHERE the code lets it happen is the code's choice, not the harness's: judged strictly)
        # A failing file-system effect ON the data file being produced (temp creation, opening / writing it,
        # mode copy) is a failure of producing it WHEREVER the code placed that effect - also behind its
        # rename.  (Tensors and lazy functions are also evaluated while the model file is serialised, after
        # the data file is in place: those stay 'late'.)  Descriptor exhaustion is a state, not a failing
        # call: it is late when the real rename had returned before the save ended (what then failed for
        # want of a descriptor came after the data file was in place, e.g. writing the model file).
        late = False
        for (site_, _k, how_, before) in plan.fired:
            if how_ == "exhaust":
                late = late or plan.replaced > 0
            elif not before and site_ not in PRODUCING_SITES:
                late = True
            elif not before and not spec["sharded"]:
                ctx.count(f"exc_fired_behind_rename_judged_strictly|{site_}")
        strict = not cleanup_fault and not late
        where = "exception"
        outcome = "n/a"
        if spec["sharded"]:
            ctx.count("exc_judged|sharded")
            self.check_preexisting(s1, where=where, fault_tag=fault_tag, replay=replay, skip=set())
            left = new_entries(self.s0, s1, {MODEL})
            if left:
                ctx.count("report_only_sharded_outputs_or_temp_left_after_exception", len(left))
            replaced = self.backing_state(sc, before_ino)
            self.check_tensors(sc, replaced, where=where, fault_tag=fault_tag, replay=replay, converse=False,
                               stale=stale)
            return "sharded"
        dest_ok = True
        if spec["mode"] != "absent":
            outcome, detail = dest_state(spec, self.dest_rel, self.s0, s1, self.old, self.new)
            if strict:
                if outcome != "old":
                    dest_ok = False
                    self.violate(
                        f"{where}|{fault_tag}|dest-not-old({outcome})",
                        f"save raised {type(exc).__name__}({exc}) while producing the new data file, but the destination "
                        f"does not hold its previous bytes: {detail}. Scenario: {self.describe()}", replay)
            elif outcome not in ("old", "new"):
                dest_ok = False
                if self.new_unknown:
                    ctx.count("report_only_later_save_of_sequence_raised_late|new bytes not known to the harness")
                else:
                    self.violate(
                        f"{where}|{fault_tag}|dest-{outcome}",
                        f"save raised {type(exc).__name__}({exc}); the destination is neither old nor new: {detail}. "
                        f"Scenario: {self.describe()}", replay)
        elif strict and names(spec)["dest"] in s1:
            ctx.count("report_only_absent_dest_created_by_failed_save")
        self.check_preexisting(s1, where=where, fault_tag=fault_tag, replay=replay, skip={self.dest_rel})
        if strict:
            ctx.count("exc_judged|strict")
            allowed = {MODEL} | ({names(spec)["dest"]} if spec["mode"] == "absent" else set())
            left = new_entries(self.s0, s1, allowed)
            if left:
                classes = sorted({leftover_class(rel, s1[rel], self.dest_rel) for rel in left})
                self.violate(
                    f"{where}|{fault_tag}|{'+'.join(classes)}",
                    f"save raised {type(exc).__name__}({exc}) and left {left} behind. Scenario: {self.describe()}",
                    replay)
            if dest_ok:
                replaced = self.backing_state(sc, before_ino)
                self.check_tensors(sc, replaced, where=where, fault_tag=fault_tag, replay=replay,
                                   converse=False, stale=stale)
        else:
            ctx.count("exc_judged|bytes-only(cleanup or after replace)")
            left = new_entries(self.s0, s1, {MODEL})
            if left:
                ctx.count("report_only_leftover_after_cleanup_failure", len(left))
            if dest_ok:
                replaced = self.backing_state(sc, before_ino)
                # only the 'only when' direction is judged here
                self.check_tensors(sc, replaced, where=where, fault_tag=fault_tag, replay=replay,
                                   converse=False, stale=stale)
        return outcome

    # -- death ----------------------------------------------------------------------------------
    def judge_death(self, s1: dict, *, point_tag: str, replay: dict) -> str:
        spec = self.spec
        where = "death"
        if spec["sharded"]:
            ok = self.check_preexisting(s1, where=where, fault_tag=point_tag, replay=replay, skip=set())
            return "unchanged" if ok else "changed"
        if spec["mode"] == "absent":
            return "n/a"
        outcome, detail = dest_state(spec, self.dest_rel, self.s0, s1, self.old, self.new)
        if outcome not in ("old", "new"):
            self.violate(
                f"{where}|{point_tag}|dest-{outcome}",
                f"process died ({replay.get('death')}) and the pre-existing destination is neither its previous bytes "
                f"nor the complete new bytes: {detail}. Scenario: {self.describe()}", replay)
        self.check_preexisting(s1, where=where, fault_tag=point_tag, replay=replay, skip={self.dest_rel})
        return outcome


def _before_ino(sc: Scenario) -> dict:
    out = {}
    for rel in ({e["backing"] for e in sc.ext} | {e["loc"] for e in sc.ext}
                | ({sc.dest_rel} if sc.spec["mode"] != "absent" else set())):
        full = os.path.join(sc.root, rel)
        try:
            st = os.stat(full)
            with open(full, "rb") as f:
                out[rel] = (st.st_ino, f.read())
        except OSError:
            pass
    return out


def _fault_tag(site: str, k: int, how: str, single_file: bool, exc: list | None = None) -> str:
    """Mechanism-level name of a fault position."""
    # effect classes, not functions: 'mode-copy' is shutil.copymode / copystat / os.chmod / fchmod alike,
    # 'rename' os.replace / rename / shutil.move, 'temp-creation' tempfile.mkdtemp / mkstemp,
    # 'cleanup-remove' os.remove / unlink, 'cleanup-rmdir' os.rmdir (also inside a shutil.rmtree)
    nice = {
        "mkdtemp": "temp-creation", "copymode": "mode-copy", "replace": "rename",
        "remove": "cleanup-remove", "rmdir": "cleanup-rmdir", "copy_file_range": "os.copy_file_range",
        "core.open": "open(source)", "open": "open(datafile)",
        "raw.write": "write(2)@datafile", "line": "line-event",
    }.get(site, site)
    if single_file and site in ("mkdtemp", "copymode", "replace", "remove", "rmdir"):
        nice += f"#{k}"
    if how.endswith("after_half"):
        nice += ":after-half"
    if how == "exhaust":
        nice = "descriptors-exhausted@" + nice
    if how == "raise_always":
        # the effect fails on EVERY attempt from this call on; the error class is part of the mechanism
        # (code may react to PermissionError / EBUSY / EXDEV differently)
        nice += ":every-attempt" + (f"({exc[1]})" if exc and len(exc) > 1 else "")
    return nice


def _faults_tag(faults: list, single_file: bool) -> str:
    return "+".join(_fault_tag(s_, k_, a_[0], single_file, a_[1] if len(a_) > 1 else None) for s_, k_, a_ in faults)


# file-system effects on the data file being produced ("temp creation, each tensor write incl. mid-tensor,
# mode copy"): a save that raises because one of them failed has failed to produce the new data file
PRODUCING_SITES = frozenset({
    "mkdtemp", "open", "file.seek", "file.write", "file.truncate", "file.flush", "file.close", "raw.write",
    "copy_file_range", "copymode",
})
# descriptor exhaustion begins at: every call that consumes a descriptor itself, and a sample of the others
EXHAUST_EVERY = ("mkdtemp", "open", "core.open")
EXHAUST_SOME = ("callback", "tensor.tofile", "tensor.tobytes", "tensor.numpy", "lazy.func", "file.write",
                "file.seek", "copy_file_range", "copymode", "replace")


_ERRNOS = {
    "mkdtemp": ["EACCES", "ENOSPC"],
    "open": ["EACCES", "ENOSPC", "EMFILE"],
    "core.open": ["EACCES", "EMFILE"],
    "file.seek": ["EIO", "ENOSPC"],
    "file.write": ["ENOSPC", "EIO"],
    "file.truncate": ["ENOSPC", "EIO"],
    "file.flush": ["ENOSPC", "EIO"],
    "file.close": ["ENOSPC", "EIO"],
    # the device below CPython's buffered file object refuses bytes from the k-th write(2) on: the
    # error is reported wherever the buffered layer flushes (a later seek / tell / flush / truncate /
    # close, or the write itself when the bytes do not fit the buffer) and the buffered bytes are lost
    "raw.write": ["ENOSPC", "EFBIG", "EIO", "EDQUOT"],
    "copy_file_range": ["ENOSPC", "EIO", "EXDEV"],
    "copymode": ["EACCES", "EPERM"],
    "replace": ["EXDEV", "EACCES", "ENOSPC"],
    "remove": ["EACCES", "EBUSY"],
    "rmdir": ["EACCES", "ENOTEMPTY"],
}
_NON_OS = {
    "tensor.tofile": [["RuntimeError"], ["OSError", "EIO"]],
    "tensor.tobytes": [["RuntimeError"], ["MemoryError"]],
    "tensor.numpy": [["RuntimeError"], ["MemoryError"]],
    "lazy.func": [["RuntimeError"], ["MemoryError"]],
    "callback": [["RuntimeError"], ["KeyboardInterrupt"]],
}
_HALF_SITES = ("file.write", "tensor.tofile", "copy_file_range", "raw.write")


def exhaustion_positions(counts: Counter, rng, all_variants: bool, line_events: int = 0) -> list[list]:
    """Resource exhaustion: from the k-th call of a site (or from a LINE event) onwards the process
    cannot obtain another file descriptor - EMFILE from every descriptor-consuming call, by whatever
    function, until the save ends.  Every call that consumes a descriptor itself is a position; between
    two such calls all starting points are equivalent, so the other sites and the LINE events are sampled."""
    plans = []
    for site in EXHAUST_EVERY:
        for k in range(1, counts.get(site, 0) + 1):
            plans.append([[site, k, ["exhaust", None]]])
    some = [site for site in EXHAUST_SOME if counts.get(site, 0)]
    if not all_variants:
        some = sorted(rng.sample(some, min(len(some), 3)))
    for site in some:
        c = counts[site]
        for k in sorted(rng.sample(range(1, c + 1), min(c, 3 if all_variants else 1))):
            plans.append([[site, k, ["exhaust", None]]])
    if line_events:
        m = min(line_events, 40 if all_variants else 5)
        for n in sorted(rng.sample(range(line_events), m)):
            plans.append([["line", n, ["exhaust", None]]])
    return plans


def exception_positions(counts: Counter, rng, all_variants: bool) -> list[list]:
    """Fault plans (single faults) for every counted call of every realistic source."""
    plans = []
    for site in sorted(counts):
        if site in _ERRNOS:
            excs = [["OSError", e] for e in _ERRNOS[site]]
        elif site in _NON_OS:
            excs = _NON_OS[site]
        else:
            continue
        for k in range(1, counts[site] + 1):
            hows = ["raise"] + (["raise_after_half"] if site in _HALF_SITES else [])
            for how in hows:
                chosen = excs if all_variants else [excs[rng.randrange(len(excs))]]
                for ex in chosen:
                    plans.append([[site, k, [how, ex]]])
    return plans


# persistent failures: the effect fails the same way on every attempt (an immutable or locked destination,
# a read-only / full directory, a cross-device destination): retrying cannot help, falling back may
_STICKY_ERRNOS = {
    "replace": ["EACCES", "EPERM", "EBUSY", "EXDEV", "ENOSPC"],
    "copymode": ["EPERM", "EACCES"],
    "mkdtemp": ["EACCES", "ENOSPC"],
    "open": ["EACCES", "EMFILE"],
}


def sticky_positions(counts: Counter) -> list[list]:
    """Fault plans in which a file-system effect of the save fails on EVERY attempt from its first call
    on, for every error class of the table (no random choice: the space is small)."""
    plans = []
    for site, errnos in _STICKY_ERRNOS.items():
        if counts.get(site, 0):
            for e in errnos:
                plans.append([[site, 1, ["raise_always", ["OSError", e]]]])
    return plans


def death_midwrite_positions(counts: Counter) -> list[list]:
    out = []
    for site in _HALF_SITES:
        for k in range(1, counts.get(site, 0) + 1):
            out.append([site, k, ["die_after_half", None]])
    return out


def pair_positions(counts: Counter, rng) -> list[list]:
    """Fault sequences: a primary failure followed by a failing cleanup call."""
    plans = []
    primaries = []
    if counts.get("replace"):
        primaries.append(["replace", 1, ["raise", ["OSError", "EXDEV"]]])
    if counts.get("copymode"):
        primaries.append(["copymode", 1, ["raise", ["OSError", "EACCES"]]])
    for site in ("tensor.tofile", "file.write", "raw.write", "callback", "lazy.func"):
        if counts.get(site):
            k = rng.randint(1, counts[site])
            how = "raise_after_half" if site in _HALF_SITES else "raise"
            exs = _NON_OS.get(site) or [["OSError", "ENOSPC"]]
            primaries.append([site, k, [how, exs[0]]])
    for p in primaries:
        for c in ("remove", "rmdir"):
            plans.append([p, [c, 1, ["raise", ["OSError", "EACCES"]]]])
    return plans


# ---------------------------------------------------------------------------------------------
# child processes
# ---------------------------------------------------------------------------------------------
def run_child(spec: dict, rundir: str, death: list) -> int:
    """Fork a child that rebuilds the scenario in ``rundir`` and dies at the given position.
    Returns the exit status: EXIT_DIED, 0 (save completed), 3 (save raised), 4 (harness error)."""
    pid = os.fork()
    if pid == 0:
        code = 4
        try:
            gc.disable()  # a collection in the child would touch (copy) every inherited page
            sc = materialize(spec, rundir)
            first = list(death[2]) if len(death) > 2 else []   # faults the save absorbs before dying
            if death[0] == "line":
                exc, _ = run_save(sc, F.Plan(first), "kill", int(death[1]))
            else:
                exc, _ = run_save(sc, F.Plan(first + [death[1]]), "off")
            code = 0 if exc is None else 3
        except BaseException:  # noqa: BLE001
            try:
                with open(rundir + ".err", "w") as f:
                    f.write(traceback.format_exc())
            except Exception:  # noqa: BLE001
                pass
        finally:
            os._exit(code)
    try:
        fd = os.pidfd_open(pid)
    except (AttributeError, OSError):
        fd = None
    if fd is not None:
        try:
            ready, _, _ = select.select([fd], [], [], CHILD_TIMEOUT_S)
        finally:
            os.close(fd)
        if not ready:
            os.kill(pid, signal.SIGKILL)
            os.waitpid(pid, 0)
            raise RuntimeError(f"child for death position {death} did not terminate within {CHILD_TIMEOUT_S}s "
                               "(no structural diagnosis: inconclusive)")
    _, status = os.waitpid(pid, 0)
    if os.WIFEXITED(status):
        code = os.WEXITSTATUS(status)
    else:
        code = 4
    if code == 4:
        err = ""
        try:
            with open(rundir + ".err") as f:
                err = f.read()
        except OSError:
            pass
        raise RuntimeError(f"harness error in child for death position {death}: status={status}\n{err}")
    return code


# ---------------------------------------------------------------------------------------------
# one scenario, all positions
# ---------------------------------------------------------------------------------------------
def reference_and_recording(judge: Judge, spec: dict) -> tuple[Counter, int, list] | None:
    """Reference save (undisturbed, other directory) then recording run.  Returns
    (call counts by site, LINE events, trace) or None when the scenario cannot be enumerated."""
    ctx = judge.ctx
    # --- reference: legal new content ---------------------------------------------------------
    ref_spec = dict(spec, collide=None)
    refdir = judge.fresh_dir()
    sc = materialize(ref_spec, refdir)
    s0 = snapshot(refdir)
    exc, _ = run_save(sc, F.Plan(), "off")
    s1 = snapshot(refdir)
    del sc
    shutil.rmtree(refdir, ignore_errors=True)
    judge.dest_rel = names(spec)["target"] if spec["mode"] == "symlink" else names(spec)["dest"]
    judge.old = _layout_old_files(spec)[0]
    if spec["sharded"]:
        single_shard_hits_existing = exc is not None and isinstance(exc, FileExistsError)
        if exc is not None and not single_shard_hits_existing:
            ctx.count(f"reference_run_raised|sharded|{_exc_class(exc)}")
        judge.ref_outputs = {k for k in s1 if k not in s0 and k != MODEL and not os.path.basename(k).startswith(".")}
        outputs = sorted(judge.ref_outputs)
        if spec.get("collide_kind", "none") != "none" and outputs:
            spec["collide"] = outputs[int(spec["collide_pick"] * len(outputs)) % len(outputs)]
        else:
            spec["collide"] = None
    else:
        if exc is not None:
            ctx.count(f"reference_run_raised|{_exc_class(exc)}")
            judge.new = None
        else:
            entry = s1.get(judge.dest_rel)
            judge.new = entry[1] if entry and entry[0] == "f" else None
            expected = materialize_concat(spec)
            if judge.new is not None and judge.new != expected:
                ctx.count("report_only_reference_differs_from_payload_concatenation")
            else:
                ctx.count("reference_equals_payload_concatenation")
        if judge.new is not None and judge.new == judge.old:
            if expected == judge.old:
                ctx.count("scenario_trivial_old_equals_new")
                return None
            # the undisturbed save returned but the regular file behind the destination still holds
            # its old bytes (the new data went somewhere else): the statement is silent about saves
            # that are not interrupted, so this is report-only - but the scenario is still judged,
            # with the payload concatenation the harness generated itself as the complete new bytes
            ctx.count("report_only_reference_save_left_destination_file_old")
            judge.new = expected
    # --- recording run ------------------------------------------------------------------------
    recdir = judge.fresh_dir()
    sc = materialize(spec, recdir)
    judge.s0 = snapshot(recdir)
    before = _before_ino(sc)
    rec_plan = F.Plan()
    exc, events = run_save(sc, rec_plan, "record")
    trace = list(monitor().trace)
    s1 = snapshot(recdir)
    replay = {"kind": "exception", "spec": spec, "faults": []}
    if exc is None:
        ctx.count("recording_run|returned")
        judge.judge_success(sc, s1, before, where="success", fault_tag="no-fault", replay=replay)
    else:
        ctx.count(f"recording_run|raised {_exc_class(exc)}")
        judge.judge_exception(sc, s1, before, exc, rec_plan, fault_tag="no-fault", replay=replay)
    del sc
    shutil.rmtree(recdir, ignore_errors=True)
    # --- the same save while the client holds live arrays of the model's external tensors ---------
    for held in held_variants(spec):
        run_held_case(judge, spec, held)
    return rec_plan.counts, events, trace


def _exc_class(exc: BaseException) -> str:
    import errno as _errno

    code = getattr(exc, "errno", None)
    return type(exc).__name__ + (f"({_errno.errorcode.get(code, code)})" if isinstance(code, int) else "")


def materialize_concat(spec: dict) -> bytes:
    return b"".join(_payload(t) for t in spec["tensors"] if _nbytes(t) > spec["threshold"])


def run_exception_case(judge: Judge, spec: dict, faults: list) -> tuple[str, bool, bool]:
    """One in-process save with the given fault plan; judged.  Returns (outcome, fired?, returned?)."""
    ctx = judge.ctx
    rundir = judge.fresh_dir()
    sc = materialize(spec, rundir)
    before = _before_ino(sc)
    plan = F.Plan(faults)
    exc, _ = run_save(sc, plan, "off")
    s1 = snapshot(rundir)
    site, k, action = faults[0]
    tag = _faults_tag(faults, not spec["sharded"])
    replay = {"kind": "exception", "spec": spec, "faults": faults}
    fired = bool(plan.fired)
    if fired:
        group = site.split(".")[0] if site.startswith(("tensor.", "lazy.")) else site
        group = "tensor" if group in ("tensor", "lazy") else group
        if action[0] == "exhaust":
            ctx.count("exc_fired|descriptors-exhausted")
            ctx.count(f"exc_fired|descriptors-exhausted|from {_fault_tag(site, 0, 'raise', False)}")
        elif action[0] == "raise_always":
            ctx.count(f"exc_fired|every-attempt|{group}")
            ctx.count(f"exc_fired|every-attempt|{group}|{action[1][1]}")
            ctx.count(f"exc_fired|every-attempt|{group}|attempts made by the save", plan.sticky_refused.get(site, 0))
        else:
            ctx.count(f"exc_fired|{group}")
    else:
        ctx.count("exc_position_not_reached")
    for via, c in plan.reached.items():
        ctx.count(f"effect_reached|{via}", c)
    if exc is None:
        ctx.count("exc_absorbed_or_not_reached(save returned)")
        outcome = judge.judge_success(sc, s1, before, where="success-after-fault", fault_tag=tag, replay=replay,
                                      failed_effects=_failed_effects(plan, spec))
    else:
        ctx.count(f"exc_raised|{type(exc).__name__}")
        outcome = judge.judge_exception(sc, s1, before, exc, plan, fault_tag=tag, replay=replay)
    ctx.count(f"exc_outcome|save {'returned' if exc is None else 'raised'}|destination {outcome}")
    if action[0] == "raise_always" and fired:
        ctx.count(f"exc_outcome|every-attempt {site}|save {'returned' if exc is None else 'raised'}|destination {outcome}")
    returned = exc is None
    del exc, sc
    shutil.rmtree(rundir, ignore_errors=True)
    return outcome, fired, returned


def _failed_effects(plan: F.Plan, spec: dict) -> list[str]:
    """Injected failures of file-system effects on the data file (producing it, or renaming it onto the
    destination) that fired before any rename had returned - by the harness's own record."""
    out = []
    for (site_, k_, how_, before) in plan.fired:
        if before and how_ != "exhaust" and (site_ in PRODUCING_SITES or site_ == "replace"):
            out.append(_fault_tag(site_, k_, how_, not spec["sharded"], plan.sticky.get(site_)))
    return out


def held_variants(spec: dict) -> list[list]:
    """Client state the save meets: the caller still holds a live array obtained from an external
    tensor of the model (``tensor.numpy()`` / ``np.asarray(tensor)`` are views of the tensor's memory
    map, so the map cannot be closed while they live).  Every external tensor alone, then all."""
    ext = [t for t in spec["tensors"] if t["kind"] in ("ext_dest", "ext_other")]
    out = [[[t["name"], ("numpy", "asarray")[i % 2]]] for i, t in enumerate(ext)]
    if len(ext) > 1:
        out.append([[t["name"], "numpy"] for t in ext])
    return out


def run_held_case(judge: Judge, spec: dict, held: list, faults: list | None = None) -> str:
    """One in-process save while the client holds live arrays of the named external tensors (no
    injected fault unless ``faults``); judged like every other run: a save that raises - the
    exception comes from a tensor - must leave the destination, the directory and the tensors alone."""
    ctx = judge.ctx
    rundir = judge.fresh_dir()
    sc = materialize(spec, rundir)
    before = _before_ino(sc)
    views, classes = [], []
    for name, how in held:
        e = next((e for e in sc.ext if e["name"] == name), None)
        if e is None:
            continue
        views.append(e["tensor"].numpy() if how == "numpy" else np.asarray(e["tensor"]))
        classes.append(f"{e['kind']}/{e['role']}")
    plan = F.Plan(faults or [])
    exc, _ = run_save(sc, plan, "off")
    s1 = snapshot(rundir)
    tag = "held-array(" + ",".join(sorted(set(classes))) + ")"
    if faults:
        tag += "+" + _faults_tag(faults, not spec["sharded"])
    replay = {"kind": "exception", "spec": spec, "faults": list(faults or []), "held": held}
    ctx.count("held_array_cases|total")
    for c in sorted(set(classes)):
        ctx.count(f"held_array_cases|array of {c}")
    if exc is None:
        ctx.count("held_array_cases|save returned")
        outcome = judge.judge_success(sc, s1, before, where="success", fault_tag=tag, replay=replay)
    else:
        ctx.count("held_array_cases|save raised")
        ctx.count(f"held_array_cases|save raised|{type(exc).__name__}")
        outcome = judge.judge_exception(sc, s1, before, exc, plan, fault_tag=tag, replay=replay)
    ctx.count(f"held_array_outcome|save {'returned' if exc is None else 'raised'}|destination {outcome}")
    del exc, views, sc
    shutil.rmtree(rundir, ignore_errors=True)
    return outcome


def sequence_variants(spec: dict, counts: Counter, rng) -> list[list]:
    """Call sequences: two or three saves of the SAME model object into the same directory, every save
    judged against the state the previous one left.  After a save that replaced the data file the
    model still holds the (now invalidated) external tensors that read from it, so the next save fails
    by itself - an exception from a tensor with no injected fault, at whatever point the code notices;
    after a save that failed cleanly the next one has to behave like the first.  One step = the faults
    injected into that save (none = undisturbed) and, optionally, another worker count."""
    clean: dict = {"faults": []}
    other_writer = {"faults": [], "workers": (None if (spec["workers"] or 1) > 1 else 2)}
    out = [[clean, clean], [clean, clean, clean], [clean, other_writer]]
    singles = exception_positions(counts, rng, False)
    if singles:
        first, second, third = (rng.choice(singles) for _ in range(3))
        out.append([{"faults": first}, clean])
        out.append([clean, {"faults": second}])
        out.append([{"faults": third}, other_writer, clean])
    return out


def _sequence_tag(i: int, replaced_earlier: bool, faults: list, single_file: bool) -> str:
    """Mechanism of a later save of a sequence: what the earlier saves did to the model's data file (not
    how many there were or how they ended) and the faults that actually fired in this save."""
    tag = _faults_tag(faults, single_file) if faults else "no-fault"
    if i == 0:
        return tag
    state = "an earlier save replaced its data file" if replaced_earlier else "earlier saves replaced nothing"
    return f"later-save-of-same-model({state})" + ("" if not faults else "+" + tag)


def run_sequence_case(judge: Judge, spec: dict, steps: list) -> list[str]:
    """Saves the model of ONE materialized scenario ``len(steps)`` times in a row.  Every save is judged
    like a single one, relative to the directory, the destination bytes and the backing files as the
    previous save left them: raised while producing the data file => destination as before this save,
    nothing left behind, tensors whose file this save did not replace still valid; returned => the
    destination is the previous or the complete new content.  The complete new bytes are known to
    the harness (the reference save's) as long as no tensor of the model reads from a file an earlier save
    of the sequence replaced; afterwards only 'as before' can be recognised."""
    import copy

    ctx = judge.ctx
    rundir = judge.fresh_dir()
    sc = materialize(spec, rundir)
    single = not spec["sharded"]
    stale: set[str] = set()
    history: list[str] = []
    ctx.count("sequence_cases|total")
    ctx.count(f"sequence_cases|{len(steps)} saves")
    for i, step in enumerate(steps):
        faults = step.get("faults") or []
        s_prev = snapshot(rundir)
        before = _before_ino(sc)
        j = copy.copy(judge)            # shares ctx and the list of violations found
        j.s0 = s_prev
        if i > 0:
            j.context = f" [save #{i + 1} of the same model object; earlier saves: {', '.join(history)}]"
        if single:
            entry = s_prev.get(judge.dest_rel)
            if entry is not None and entry[0] == "f":
                j.old = entry[1]
                if spec["mode"] == "absent":
                    # an earlier save of the sequence created it: from now on a data file that already exists
                    j.spec = dict(spec, mode="plain")
                    j.context += " [destination created by an earlier save of the sequence]"
            elif spec["mode"] != "absent":
                break                   # destination vanished: already reported by the step that did it
        if stale or any(not e["tensor"].valid() for e in sc.ext):
            j.new, j.new_unknown = None, True
        plan = F.Plan(faults)
        options = {"workers": step["workers"]} if "workers" in step else None
        exc, _ = run_save(sc, plan, "off", options=options)
        s1 = snapshot(rundir)
        fired_here = [f for f in faults if any(s_ == f[0] and k_ == f[1] for (s_, k_, _h, _b) in plan.fired)]
        tag = _sequence_tag(i, bool(stale), fired_here if i > 0 else faults, single)
        replay = {"kind": "exception", "spec": spec, "faults": [], "sequence": steps[: i + 1]}
        state = ("tensors read a file replaced earlier" if j.new_unknown else "all tensors intact")
        if exc is None:
            outcome = j.judge_success(sc, s1, before, where="success-after-fault" if plan.fired else "success",
                                      fault_tag=tag, replay=replay, failed_effects=_failed_effects(plan, spec),
                                      stale=frozenset(stale))
            result = "returned"
        else:
            outcome = j.judge_exception(sc, s1, before, exc, plan, fault_tag=tag, replay=replay, stale=frozenset(stale))
            result = "raised"
            if not plan.fired:
                ctx.count(f"sequence_steps|save #{min(i + 1, 2)}{'+' if i > 1 else ''} raised by itself|{type(exc).__name__}")
                if stale and single:
                    ctx.count("sequence_steps|later single-file save after the data file was replaced: raised by itself")
        if i > 0:
            ctx.count("sequence_steps|later saves judged")
            ctx.count(f"sequence_steps|later save, {state}|{'fault injected' if faults else 'no fault'}|"
                      f"{result}|destination {outcome}")
        for rel, was in j.backing_state(sc, before).items():
            if was:
                stale.update(e["name"] for e in sc.ext if (e.get("loc") or e["backing"]) == rel)
        history.append(result)
        del exc
    for e in sc.ext:
        with contextlib.suppress(Exception):
            e["tensor"].release()
    del sc
    shutil.rmtree(rundir, ignore_errors=True)
    return history


def run_death_case(judge: Judge, spec: dict, death: list) -> tuple[str, int]:
    ctx = judge.ctx
    rundir = judge.fresh_dir()
    code = run_child(spec, rundir, death)
    s1 = snapshot(rundir)
    if death[0] == "line":
        tag = "line-event"
    else:
        site, k, action = death[1]
        tag = "mid-write:" + _fault_tag(site, k, "die", False)
    if len(death) > 2 and death[2]:
        tag = _faults_tag(death[2], not spec["sharded"]) + "+" + tag
    replay = {"kind": "death", "spec": spec, "death": death}
    outcome = judge.judge_death(s1, point_tag=tag, replay=replay)
    if code == 0:
        ctx.count("death_child_completed_before_position")
    elif code == 3:
        ctx.count("death_child_save_raised")
    else:
        ctx.count("death_child_died_at_position")
        left = new_entries(judge.s0, s1, judge.allowed_new())
        if left:
            ctx.count("report_only_death_left_temp_entries")
    shutil.rmtree(rundir, ignore_errors=True)
    try:
        os.unlink(rundir + ".err")
    except OSError:
        pass
    return outcome, code


def enumerate_scenario(ctx, spec: dict, base: str, *, all_variants: bool, pairs: bool, rng) -> dict | None:
    judge = Judge(ctx, spec, base)
    rec = reference_and_recording(judge, spec)
    if rec is None:
        return None
    counts, events, trace = rec
    ctx.count("line_events_recorded", events)
    for site, c in counts.items():
        ctx.count(f"calls_recorded|{site}", c)

    # (cheap in-process exception positions first, so that a run cut short by the time budget
    # never consists of death positions only)
    abandoned = False
    # ---- exceptions at every counted call ------------------------------------------------------
    exc_outcomes: dict[str, Counter] = {}
    absorbed: list[list] = []     # single faults that fired and the save carried on: first halves of pairs
    plans = exception_positions(counts, rng, all_variants)
    if pairs:
        plans += pair_positions(counts, rng)
    # (after the draws above, which stay what they were) descriptor exhaustion from every descriptor-
    # consuming call, a sample of the other calls and a sample of the LINE events onwards
    plans += exhaustion_positions(counts, rng, all_variants, events)
    for faults in plans:
        if abandoned or ctx.out_of_time():
            abandoned = True
            break
        outcome, fired, returned = run_exception_case(judge, spec, faults)
        exhaust = faults[0][2][0] == "exhaust"
        if len(faults) == 1 and faults[0][0] in SETUP_SITES and not exhaust:
            ctx.count("pair_first_faults|setup call failed: " + ("save carried on" if fired and returned
                                                                   else "save raised by itself" if fired else "not reached"))
        if len(faults) == 1 and fired and returned and not exhaust:
            absorbed.append(faults[0])
        ctx.count("exc_points|total")
        key = "+".join(("descriptors-exhausted@" if f[2][0] == "exhaust" else "") + f[0] for f in faults)
        ctx.count(f"exc_points|{key}")
        exc_outcomes.setdefault(key, Counter())[outcome] += 1

    # ---- fault pairs: a fault the save absorbs, then every later position ------------------------
    pair_summary = {}
    if pairs and not abandoned:
        abandoned = enumerate_after_absorbed(judge, spec, absorbed, rng, all_variants, pair_summary)

    # ---- process death in the middle of every counted write -----------------------------------
    mids = death_midwrite_positions(counts)
    mid_outcomes = {}
    for fault in mids:
        if abandoned or ctx.out_of_time():
            abandoned = True
            break
        outcome, code = run_death_case(judge, spec, ["mid", fault])
        ctx.count("death_points|midwrite")
        ctx.count(f"death_points|midwrite|{fault[0]}")
        ctx.count(f"death_outcome|{outcome}")
        mid_outcomes[f"{fault[0]}#{fault[1]}"] = outcome

    # ---- process death at every LINE event ---------------------------------------------------
    # (visited in a shuffled order so that a scenario cut short by the budget is covered evenly)
    by_index: dict[int, str] = {}
    order = list(range(events))
    rng.shuffle(order)
    for n in order:
        if abandoned or ctx.out_of_time():
            abandoned = True
            break
        outcome, code = run_death_case(judge, spec, ["line", n])
        by_index[n] = outcome
        ctx.count("death_points|line")
        ctx.count(f"death_outcome|{outcome}")
    outcomes = [by_index[n] for n in sorted(by_index)] if abandoned else [by_index[n] for n in range(events)]
    # ---- report ------------------------------------------------------------------------------
    flip = None if abandoned else next((i for i, o in enumerate(outcomes) if o == "new"), None)
    summary = {
        "scenario": judge.describe(),
        "line_events": events,
        "calls_by_site": dict(counts),
        "death_by_line_event": _runs(outcomes),
        "first_new_at": (
            {"n": flip, "line": f"{trace[flip][0]}:{trace[flip][2]} in {trace[flip][1]}"}
            if flip is not None and flip < len(trace) else None
        ),
        "death_midwrite": mid_outcomes,
        "exception_outcomes_by_site": {k: dict(v) for k, v in exc_outcomes.items()},
        "fault_pairs_after_absorbed_first_fault": pair_summary,
        "violations": sorted({sig for sig, _, _ in judge.found}),
    }
    if abandoned:
        summary["abandoned_by_time_budget"] = True
    return {"judge": judge, "summary": summary, "positions": events + len(mids) + len(plans),
            "complete": not abandoned}


SETUP_SITES = ("mkdtemp", "open", "copymode")
PASS1_FAULT_SAMPLE = 5     # pass 1: single exception positions sampled per scenario
# quick tier: per absorbed first fault, how many later positions are sampled (thorough: all)
PAIR_SAMPLE = {"firsts": 4, "exception": 14, "midwrite": 3, "line": 30}


def enumerate_after_absorbed(judge: Judge, spec: dict, absorbed: list, rng, everything: bool, summary: dict) -> bool:
    """Second-order positions.  For every single fault that fired while the save nevertheless returned
    normally (a failing setup call the code works around, an EXDEV the copy falls back from, ...) the
    recording run is repeated *under that fault* and the positions that follow it - exception kinds,
    mid-write deaths, LINE-event deaths - are exercised with the first fault in place.  Judged exactly
    like single faults.  Returns True when the time budget ran out."""
    ctx = judge.ctx
    firsts = []
    seen = set()
    for f in absorbed:
        key = (f[0], f[1], f[2][0])
        if key not in seen:          # errno variants of the same call are one first fault
            seen.add(key)
            firsts.append(f)
    ctx.count("pair_first_faults|absorbed (distinct)", len(firsts))
    if not everything and len(firsts) > PAIR_SAMPLE["firsts"]:
        setup = [f for f in firsts if f[0] in SETUP_SITES]
        rest = [f for f in firsts if f[0] not in SETUP_SITES]
        rng.shuffle(rest)
        firsts = (setup + rest)[: PAIR_SAMPLE["firsts"]]
    mon = monitor()
    for first in firsts:
        if ctx.out_of_time():
            return True
        # ---- recording run under the first fault ----------------------------------------------
        rundir = judge.fresh_dir()
        sc = materialize(spec, rundir)
        plan = F.Plan([first])
        marks: list[int] = []
        plan.on_fire = lambda: marks.append(len(mon.trace))
        exc, events = run_save(sc, plan, "record")
        del sc
        shutil.rmtree(rundir, ignore_errors=True)
        name = _fault_tag(first[0], first[1], first[2][0], not spec["sharded"])
        if exc is not None or not plan.fired:
            ctx.count("pair_first_faults|not absorbed when repeated")
            continue
        ctx.count("pair_first_faults|second stage enumerated")
        ctx.count(f"pair_first_faults|second stage enumerated|{first[0]}")
        at_fire = plan.counts_at_fire[0]
        fire_line = marks[0] if marks else 0
        later: list[list] = []
        for faults in exception_positions(plan.counts, rng, everything):
            site, k, _a = faults[0]
            if site in F.CLEANUP_SITES or k <= at_fire.get(site, 0):
                continue              # before (or at) the first fault: not a pair
            later.append(faults[0])
        mids = [m for m in death_midwrite_positions(plan.counts) if m[1] > at_fire.get(m[0], 0)]
        lines = list(range(fire_line, events))
        space = {"exception": len(later), "midwrite": len(mids), "line": len(lines)}
        for kind, n in space.items():
            ctx.count(f"pair_space|{kind}", n)
        if not everything:
            for seq, kind in ((later, "exception"), (mids, "midwrite"), (lines, "line")):
                rng.shuffle(seq)
                del seq[PAIR_SAMPLE[kind]:]
        done = Counter()
        outcomes = Counter()
        for second in later:
            if ctx.out_of_time():
                return True
            outcome, _fired, returned = run_exception_case(judge, spec, [first, second])
            ctx.count("pair_points|exception")
            done["exception"] += 1
            outcomes[f"exception:{'returned' if returned else 'raised'}:{outcome}"] += 1
        for m in mids:
            if ctx.out_of_time():
                return True
            outcome, _code = run_death_case(judge, spec, ["mid", m, [first]])
            ctx.count("pair_points|death-midwrite")
            done["midwrite"] += 1
            outcomes[f"death:{outcome}"] += 1
        for n in lines:
            if ctx.out_of_time():
                return True
            outcome, _code = run_death_case(judge, spec, ["line", n, [first]])
            ctx.count("pair_points|death-line")
            done["line"] += 1
            outcomes[f"death:{outcome}"] += 1
        summary[name + (":" + first[2][1][1] if first[2][1] and len(first[2][1]) > 1 else "")] = {
            "later_positions": space, "exercised": dict(done), "outcomes": dict(outcomes),
        }
    return False


def _runs(outcomes: list[str]) -> str:
    """Run-length form of the outcome sequence: 'old x412, new x81'."""
    parts = []
    for o in outcomes:
        if parts and parts[-1][0] == o:
            parts[-1][1] += 1
        else:
            parts.append([o, 1])
    return ", ".join(f"{o} x{n}" for o, n in parts)


# ---------------------------------------------------------------------------------------------
# shrinking of exception-kind witnesses
# ---------------------------------------------------------------------------------------------
def _reproduces(ctx_like, replay: dict, signature: str, base: str) -> bool:
    sigs = {s for s, _, _ in evaluate_replay(ctx_like, replay, base)}
    return signature in sigs


class _PrefixCtx:
    """Counter sink that files everything under a prefix (pass 1 of ``run``)."""

    def __init__(self, ctx, prefix: str) -> None:
        self._ctx = ctx
        self._prefix = prefix

    def count(self, key: str, n: int = 1) -> None:
        self._ctx.count(self._prefix + key, n)

    def note(self, text: str) -> None:
        self._ctx.note(text)


class _QuietCtx:
    """Counter sink used while shrinking / replaying."""

    def __init__(self) -> None:
        self.notes: list[str] = []

    def count(self, *_a, **_k) -> None:
        pass

    def note(self, text: str) -> None:
        self.notes.append(text)


def evaluate_replay(ctx_like, replay: dict, base: str) -> list[tuple[str, str, dict]]:
    """Re-execute one witness (kind exception/death) and return the violations it produces."""
    import copy

    spec = copy.deepcopy(replay["spec"])
    os.makedirs(base, exist_ok=True)
    sub = os.path.join(base, f"e{time.monotonic_ns()}")
    os.makedirs(sub)
    judge = Judge(ctx_like, spec, sub)
    keep_collide = spec.get("collide")
    rec = reference_and_recording(judge, spec)
    if keep_collide is not None:
        spec["collide"] = keep_collide
    found_in_recording = list(judge.found)
    try:
        if rec is None:
            return found_in_recording
        if replay["kind"] == "death":
            judge.found = []
            run_death_case(judge, spec, replay["death"])
            return judge.found
        if replay.get("held"):
            judge.found = []
            run_held_case(judge, spec, replay["held"], replay.get("faults") or None)
            return judge.found
        if replay.get("sequence"):
            judge.found = []
            run_sequence_case(judge, spec, replay["sequence"])
            return judge.found
        if not replay.get("faults"):
            return found_in_recording
        judge.found = []
        run_exception_case(judge, spec, replay["faults"])
        return judge.found
    finally:
        shutil.rmtree(sub, ignore_errors=True)


def shrink_witness(replay: dict, signature: str, base: str, max_tries: int = 60) -> dict:
    """Greedy 1-minimisation of an in-process witness: drop tensors, simplify options, lower k."""
    import copy

    if replay["kind"] != "exception":
        return replay
    quiet = _QuietCtx()
    best = copy.deepcopy(replay)
    tries = 0

    def candidates(cur: dict):
        spec = cur["spec"]
        for i in range(len(spec["tensors"])):
            if len(spec["tensors"]) > 1:
                c = copy.deepcopy(cur)
                del c["spec"]["tensors"][i]
                yield c
        for key, simple in (("workers", None), ("callback", False), ("opaque", False), ("threshold", 0)):
            if spec[key] != simple:
                c = copy.deepcopy(cur)
                c["spec"][key] = simple
                yield c
        if spec["mode"] not in ("plain",) and not spec["sharded"]:
            c = copy.deepcopy(cur)
            c["spec"]["mode"] = "plain"
            c["spec"]["link"] = "one"
            for t in c["spec"]["tensors"]:
                if t.get("via") in ("target", "hop"):
                    t["via"] = "direct"
            yield c
        if spec["mode"] == "symlink" and (spec.get("link") or "one") != "one":
            for shape in ("one", "chain2"):
                if shape != spec["link"] and not (shape == "chain2" and spec["link"] != "chain3"):
                    c = copy.deepcopy(cur)
                    c["spec"]["link"] = shape
                    if shape == "one":
                        for t in c["spec"]["tensors"]:
                            if t.get("via") == "hop":
                                t["via"] = "direct"
                    yield c
        if len(cur.get("sequence") or []) > 1:
            for j in range(len(cur["sequence"]) - 1):
                c = copy.deepcopy(cur)
                del c["sequence"][j]
                yield c
            for j, step in enumerate(cur["sequence"]):
                if step.get("faults") or "workers" in step:
                    c = copy.deepcopy(cur)
                    c["sequence"][j] = {"faults": []}
                    yield c
        if len(cur.get("held") or []) > 1:
            for j in range(len(cur["held"])):
                c = copy.deepcopy(cur)
                del c["held"][j]
                yield c
        if len(cur.get("faults", [])) > 1:
            for j in range(len(cur["faults"])):
                c = copy.deepcopy(cur)
                del c["faults"][j]
                yield c
        if spec.get("dest") and spec["dest"] != DEST:
            c = copy.deepcopy(cur)
            c["spec"]["dest"] = DEST
            c["spec"]["dest_family"] = "short"
            yield c
        for j, f in enumerate(cur.get("faults", [])):
            if f[1] > 1:
                c = copy.deepcopy(cur)
                c["faults"][j][1] = 1
                yield c
        for t_i, t in enumerate(spec["tensors"]):
            if t["n"] > 8:
                c = copy.deepcopy(cur)
                c["spec"]["tensors"][t_i]["n"] = 8
                yield c

    progress = True
    while progress and tries < max_tries:
        progress = False
        for cand in candidates(best):
            tries += 1
            if tries > max_tries:
                break
            try:
                ok = _reproduces(quiet, cand, signature, base)
            except Exception:  # noqa: BLE001 - a candidate that breaks the harness is simply rejected
                ok = False
            if ok:
                best = cand
                progress = True
                break
    return best


# ---------------------------------------------------------------------------------------------
# entry points
# ---------------------------------------------------------------------------------------------
def run(ctx) -> None:
    base = os.path.join(os.environ.get("VF_SHARD_TMP") or os.environ.get("TMPDIR") or "/tmp", f"c08-{os.getpid()}")
    os.makedirs(base, exist_ok=True)
    monitor()
    # children are forked from this warmed process: keep the inherited heap out of the collector so
    # that a fork costs ~4 ms instead of ~10 ms (no copy-on-write storm)
    gc.collect()
    gc.freeze()
    thorough = ctx.tier != "quick"
    seen_signatures: set[str] = set()
    complete = True

    def report(judge: Judge) -> None:
        for sig, msg, replay in judge.found:
            if sig not in seen_signatures:
                seen_signatures.add(sig)
                if len(seen_signatures) > 6 or ctx.out_of_time():
                    ctx.violation(sig, msg, replay)   # a flood: keep the raw witness
                    continue
                shrunk = shrink_witness(replay, sig, os.path.join(base, "shrink"), max_tries=30)
                if shrunk is not replay:
                    msg += "\nMinimal witness: " + _describe_replay(shrunk)
                replay = shrunk
            ctx.violation(sig, msg, replay)

    try:
        # ---- pass 1: the undisturbed save of EVERY scenario of this shard (two saves each) ---------
        # The enumeration below is cut by the time budget after a few scenarios on a loaded machine;
        # what the save does to pre-existing files when nothing fails is judged for all of them first
        # (counters under their own prefix so that the floors keep describing the enumeration).
        pre = _PrefixCtx(ctx, "undisturbed_pass|")
        for case in range(ctx.shard, ctx.total_cases, ctx.nshards):
            if ctx.out_of_time():
                break
            spec = gen_spec(ctx.rng(case), case)
            cdir = os.path.join(base, f"pre{case}")
            os.makedirs(cdir)
            judge = Judge(pre, spec, cdir)
            rec = reference_and_recording(judge, spec)
            if rec is not None:
                # a handful of single exception positions of EVERY scenario (in-process, a few ms each; own
                # random stream): what pass 2 enumerates completely for the few scenarios it reaches
                prng = ctx.rng(case, salt="pass1-sample")
                sample = exception_positions(rec[0], prng, False)
                prng.shuffle(sample)
                for faults in sample[:PASS1_FAULT_SAMPLE]:
                    run_exception_case(judge, spec, faults)
                    ctx.count("undisturbed_pass|sampled_exception_positions")
                # ... and two starting points of descriptor exhaustion (one at a counted call, one at a LINE event)
                ex = exhaustion_positions(rec[0], prng, False, 0)
                ex = [prng.choice(ex)] if ex else []
                if rec[1]:
                    ex.append([["line", prng.randrange(rec[1]), ["exhaust", None]]])
                for faults in ex:
                    run_exception_case(judge, spec, faults)
                    ctx.count("undisturbed_pass|sampled_exhaustion_positions")
                # ... every file-system effect of the save failing on EVERY attempt, by error class
                for faults in sticky_positions(rec[0]):
                    run_exception_case(judge, spec, faults)
                    ctx.count("undisturbed_pass|every_attempt_fault_cases")
                # ... and call sequences: the same model object saved two or three times in a row
                srng = ctx.rng(case, salt="pass1-sequences")
                for steps in sequence_variants(spec, rec[0], srng):
                    run_sequence_case(judge, spec, steps)
            shutil.rmtree(cdir, ignore_errors=True)
            ctx.count("undisturbed_pass|scenarios")
            ctx.count("undisturbed_pass|scenarios|" + ("sharded" if spec["sharded"] else "single-file"))
            if spec["sharded"] and spec.get("collide"):
                ctx.count("undisturbed_pass|scenarios|sharded|colliding shard name pre-exists")
            if spec["mode"] == "symlink":
                ctx.count(f"undisturbed_pass|scenarios|symlink|{spec.get('link') or 'one'}")
                if spec.get("link") in ("chain2", "chain3") and not spec["sharded"]:
                    ctx.count("undisturbed_pass|scenarios|symlink|chain of links, single file")
                    if any(t["kind"] == "ext_dest" and t.get("via") == "target" and _nbytes(t) > spec["threshold"]
                           for t in spec["tensors"]):
                        ctx.count("undisturbed_pass|scenarios|symlink|chain of links, single file, "
                                  "written tensor reads the final file by its own name")
            if any(t["kind"] == "ext_twin" for t in spec["tensors"]):
                ctx.count("undisturbed_pass|scenarios|external tensor with a destination's location under another base_dir")
                if _twin_behind_written_dest(spec):
                    ctx.count("undisturbed_pass|scenarios|external tensor with a destination's location under another "
                              "base_dir|written behind a written destination-backed tensor, single file")
            report(judge)
        # ---- pass 2: every fault position of as many scenarios as the budget allows --------------
        for case in ctx.case_ids():
            rng = ctx.rng(case)
            spec = gen_spec(rng, case)
            cdir = os.path.join(base, f"case{case}")
            os.makedirs(cdir)
            result = enumerate_scenario(ctx, spec, cdir, all_variants=thorough, pairs=True, rng=rng)
            shutil.rmtree(cdir, ignore_errors=True)
            if result is None:
                ctx.evaluation(key={"case": case, "trivial": True}, nontrivial=False)
                continue
            judge, summary = result["judge"], result["summary"]
            if not result["complete"]:
                # the soft time budget ran out in the middle of this scenario: what was observed is
                # still judged, but the scenario does not count as enumerated
                complete = False
                ctx.truncated_by_time = True
                ctx.count("scenarios_abandoned_by_time_budget")
            else:
                ctx.count("scenarios_enumerated")
                ctx.count("fault_positions_exercised", result["positions"])
                ctx.count(f"scenarios|mode={spec['mode']}")
                if spec["mode"] == "symlink":
                    ctx.count(f"scenarios|symlink={spec.get('link') or 'one'}")
                ctx.count(f"scenarios|dest-name={spec.get('dest_family', 'short')}")
                ctx.count("scenarios|writer=" + ("parallel" if (spec["workers"] or 1) > 1 else "serial"))
                ctx.count("scenarios|" + ("sharded" if spec["sharded"] else "single-file"))
                if spec["sharded"]:
                    ctx.count(f"scenarios|sharded|collision={spec['collide_kind'] if spec.get('collide') else 'none'}")
                if any(e for e in spec["tensors"] if e["kind"] == "ext_dest" and _nbytes(e) <= spec["threshold"]):
                    ctx.count("scenarios|with small destination-backed tensor loaded first")
                nontrivial = (
                    spec["mode"] != "absent"
                    and any(_nbytes(t) > spec["threshold"] for t in spec["tensors"])
                    and summary["line_events"] > 0
                    and bool(summary["exception_outcomes_by_site"])
                )
                ctx.evaluation(key=stable_hash({k: v for k, v in spec.items() if k != "collide_pick"}),
                               nontrivial=nontrivial)
                ctx.sample(summary)
            report(judge)
    finally:
        shutil.rmtree(base, ignore_errors=True)
    ctx.exhaustive = complete and not ctx.truncated_by_time


def _twin_behind_written_dest(spec: dict) -> bool:
    """Single-file save over an existing file in which a written tensor of another base directory follows a
    written destination-backed tensor with the same location string."""
    if spec["sharded"] or spec["mode"] == "absent":
        return False
    seen = set()
    for t in spec["tensors"]:
        if _nbytes(t) <= spec["threshold"]:
            continue
        if t["kind"] == "ext_dest":
            seen.add(t.get("via", "direct"))
        elif t["kind"] == "ext_twin" and t.get("via", "direct") in seen:
            return True
    return False


def _describe_replay(replay: dict) -> str:
    spec = replay["spec"]
    tens = ", ".join(f"{t['kind']}[{_nbytes(t)}B{'/' + t['via'] if t.get('via') else ''}]" for t in spec["tensors"])
    return (f"mode={spec['mode']}{'/' + spec['link'] if spec['mode'] == 'symlink' and spec.get('link') else ''} dest={spec.get('dest_family', 'short')}[{len(names(spec)['dest'])} chars] "
            f"sharded={spec['sharded']} workers={spec['workers']} threshold={spec['threshold']} "
            f"callback={spec['callback']} opaque_file={spec['opaque']} tensors=[{tens}] "
            f"faults={replay.get('faults')} death={replay.get('death')}"
            + (f" client holds arrays of {replay['held']}" if replay.get("held") else "")
            + (f" saves of the same model object in a row: {replay['sequence']}" if replay.get("sequence") else ""))


def replay(replay_data, ctx) -> None:
    base = os.path.join(os.environ.get("VF_SHARD_TMP") or os.environ.get("TMPDIR") or "/tmp",
                        f"c08-replay-{os.getpid()}")
    monitor()
    try:
        for sig, msg, rp in evaluate_replay(ctx, replay_data, base):
            ctx.violation(sig, msg, rp)
    finally:
        shutil.rmtree(base, ignore_errors=True)
