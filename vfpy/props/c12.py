"""C12 - topological sort is correct across scopes, stable, deterministic, atomic.

Runtime monitor: generated nested graphs made of real ``ir.Node``/``ir.Graph`` objects are
sorted through ``Graph.sort``, ``Function.sort``, ``TopologicalSortPass`` (main graph plus
functions) and ``Graph.sort`` called on a nested graph; the node order of *every* graph is
observed before and after, and judged against the dependency relation that the harness reads
back from the objects (``inputs`` / ``producer()`` / graph attributes) - see c12_build.py.
"""

from __future__ import annotations

import json
import os
import subprocess
import sys
import tempfile
from collections import Counter

import onnx_ir  # noqa: F401  (imported here so that VF_REPO decides which tree is observed)

from vfpy import c12_build as B
from vfpy import c12_gen as G
from vfpy.ctx import stable_hash

ID = "C12"
LEVEL = "exploration"
RULE = (
    "one evaluation = one (nested graph structure, initial order of every graph, entry point) sorted "
    "once on real ir objects; structures are random lexically well-scoped DAGs or cyclic graphs "
    "(<=40 nodes, nesting depth <=3 through GRAPH and GRAPHS attributes, None/repeated inputs, 0-3 "
    "outputs, captures from any enclosing graph; in 40% of the structures also consumers that are in no "
    "graph - never added, or taken out with the non-safe Graph.remove - at any depth, often as the only "
    "consumer of a capturing node) - for structures of <=5 nodes every combination of "
    "initial permutations is evaluated - plus (thorough) every loop-free digraph on <=4 labelled nodes "
    "x every permutation x 4 nesting shapes. In about 40% of the evaluations the initial order is not "
    "constructed directly but REACHED: the graphs are built in another order (or the same one) and then "
    "rearranged with public move operations (Graph.insert_after/insert_before/append/extend, Node.append/"
    "prepend with nodes already in the graph, Graph.remove + re-adding; single Node / list / tuple / one-shot "
    "iterator arguments; moves of the first/last node and moves to where the node already is, also as the "
    "last thing before the sort); their twin is built directly in the reached order. In 30% of the structures names of "
    "nodes / node outputs / graph inputs are set to None or '' through the public setters after everything is in its graph "
    "(one node, some, all). About a fifth of the non-enumerated cases GO ON after the first sort: 1-3 stages of 1-3 edits of the "
    "live objects (Node.replace_input_with incl. after resize_inputs, Value.replace_all_uses_with, a new GRAPH/GRAPHS attribute "
    "with new nested graphs, a new node put into a graph, moves inside a graph, name = None/'') - most of them not going "
    "through the node list of the sorted graph, many closing or opening a cycle - each followed by the same entry point on the "
    "same objects (also after a ValueError); every such sort is one more evaluation, judged by the same oracle on (structure "
    "now, orders observed now) and compared with that structure constructed directly in those orders. "
    "In half of the structures nodes carry OTHER attributes next to their graph attributes - value attributes (INT/FLOAT/STRING/INTS) and "
    "reference attributes (ir.RefAttr of type INT/FLOAT/STRING/INTS/TENSOR) - before, between and after the graph attributes or alone on a "
    "node without graph attributes, up to four graph attributes (GRAPH and GRAPHS in either order) on one node; Function.sort and the functions "
    "of TopologicalSortPass declare the referenced function attributes; case ids = 3 (mod 40) also carry reference attributes of type GRAPH / "
    "GRAPHS (which hold no graph). The attribute order is part of the structure (twins get the same order). "
    "Non-trivial = the sorted scope has >=2 nodes and >=1 "
    "same-graph dependency constraint; distinct = hash of (structure, initial orders, entry point)."
)
ASSUMPTIONS = [
    "nodes that are in no graph (never added / removed with the non-safe remove) are outside the statement's relation: their uses of graph values and uses of their outputs create no constraint and no cycle; they must simply stay out of every graph",
    "inputs, producer(), attributes, Node.graph and iteration over a graph report the real structure (C01 is checked separately); the oracle reads the dependency relation through them and cross-checks it against the generator's own description of the structure (a mismatch makes the shard inconclusive)",
    "only lexically well-scoped graphs are generated (a value is used in its own graph or in graphs nested in it); for these the per-graph cycle notion of the statement and a global one coincide, so 'cycle' is unambiguous",
    "'depends only on structure and previous order' is sampled by two construction histories of the same structure in one process (different object creation order, addresses, uses() order) and by fresh interpreters under PYTHONHASHSEED 1/4242/31337; attribute names/order, node and value names are kept identical and count as structure",
    "when only some graphs of the sorted scope were already in a valid order, a change of those graphs is counted (report_only_partial_stability_changed) but not judged; judged stability = the whole scope was valid and anything moved, and a second sort after a successful one moves anything",
    "the meaning of the move operations used to reach an initial order (nodes end up, in the given order, directly after/before the anchor or at the end) is the harness's list model; if the real graphs end in another order than the model (or a move raises) that is not C12's business: counted (report_only_moves_reached_other_order / report_only_move_raised), the sort is judged on the order actually observed before it",
    "an order reached by moves and the same order constructed directly are 'the same structure and previous order': their sort results must agree (twin comparison)",
    "reversed(graph) disagreeing with list(graph) after a sort is counted (report_only_reversed_view_differs_after_sort), not judged",
    "a sort of objects that were sorted (or failed to sort) before and edited since is a sort of 'the structure now in the order now': the statement gives the earlier calls no influence, so it is judged like a first sort and must agree with the direct construction of that structure and order",
    "names (None, '', or a string) are not part of the dependency relation: a cyclic graph must give ValueError whatever its nodes and values are called; in the all-graphs-already-ordered case 'left exactly as it was' includes the names of nodes and their outputs (a name changed by a sort that did reorder is counted, report_only_names_changed_by_reordering_sort)",
    "attributes that hold no graph - value attributes and reference attributes of any type, GRAPH / GRAPHS included - add nothing to and take nothing from the relation of the statement, wherever they stand among a node's attributes; a graph or function body whose nodes carry them is sorted like any other (an exception other than the cycle's ValueError is a finding)",
    "for TopologicalSortPass over several units a ValueError from a later unit after an earlier unit was sorted is counted (report_only_pass_sorted_before_raise), not judged; the cyclic units themselves must be unchanged",
]

TARGET_W = [("Graph.sort", 45), ("Function.sort", 20), ("TopologicalSortPass", 20), ("Graph.sort(subgraph)", 15)]
P_HISTORY = 0.4  # share of the evaluations whose initial order is reached through move operations
P_NAMES = 0.3  # share of the structures in which names of nodes / values are cleared or emptied after construction
P_STAGES = {"perm": 0.06, "small": 0.3, "medium": 0.22, "large": 0.1}  # share of the cases that go on after the first sort
HASHSEEDS = ("1", "4242", "31337")


def plan(tier: str) -> dict:
    # Floors are sized for a machine that gives this check a small fraction of its 16 cores: roughly a
    # quarter (quick) / a third (thorough) of what a run at load average 85-100 reached.  In thorough the
    # exhaustive space alone contributes 394788 evaluations (about 87% of them cyclic).
    if tier == "quick":
        return {
            "cases": 30000,
            "shards": 16,
            "budget_s": 35,
            "floors": {
                "constraint_pairs_checked": 50000, "nested_use_pairs_checked": 3000,
                "outcome_sorted": 12000, "outcome_cycle_valueerror_unchanged": 4000,
                "already_ordered_left_unchanged": 3500, "reordered_by_sort": 8000,
                "twin_compared": 16000, "hashseed_compared": 60, "resort_unchanged": 12000,
                "exhaustive_evaluations": G.exhaustive_size(3),
                "target:Graph.sort": 9000, "target:Function.sort": 3000, "target:TopologicalSortPass": 3000,
                "target:Graph.sort(subgraph)": 1200, "all_permutations_structures": 500,
                "feature:capture_after_cf_reordered": 600, "cycle:self-nested": 150, "cycle:self-direct": 1500,
                "depth3_evaluations": 250, "evaluations_with_detached_consumers": 4000,
                "feature:capturing_node_consumed_only_by_detached": 400,
                "history_evaluations": 15000, "history_moves_applied": 100000, "history_twin_built_directly": 15000,
                "history:last_move_is_noop_of_last_node": 4000, "history:last_move_is_noop_of_first_node": 2500,
                "history:noop_moves": 50000, "history:readded_after_remove": 5000,
                # sorts of live objects that were sorted (or failed to sort) before and edited since
                "stage_sorts": 2500, "stage:twin_compared": 2500, "stage:reordered_by_sort": 300,
                "stage:cycle_closed_by_edit_after_sort": 400, "stage:cycle_broken_by_edit_after_cycle_error": 20,
                "stage:resort_needed_after_dependency_edit_only|after-sorted": 450,
                "stage:resort_needed_after_dependency_edit_only|after-cycle-error": 500,
                "stage:resort_needed_sorted_graph_list_untouched|after-sorted": 60,
                "stage_edit:Node.replace_input_with": 1700, "stage_edit:Value.replace_all_uses_with": 500,
                "stage_edit:Node.attributes[name]=graph(s)": 350, "stage_edit:new-node(other graph)": 150,
                # cyclic graphs met with nodes whose name is None / ''
                "unnamed_nodes_in_scope:cycle": 800, "all_nodes_unnamed:cycle": 100,
                # nodes carrying other attributes (values / references) before, between and after their graph attributes
                "attrs:evaluations_with_other_attributes": 5000, "attrs:ref@before-graph-attr": 1800,
                "attrs:ref@between-graph-attrs": 250, "attrs:ref@after-graph-attr": 1300,
                "attrs:value@before-graph-attr": 1600, "attrs:value@between-graph-attrs": 250,
                "attrs:ref@before-graph-attr&reordered": 800, "attrs:graph_behind_other_attr_reordered": 110,
                "attrs:graph_behind_other_attr_reordered|Function.sort": 20,
                "attrs:graph_behind_other_attr_reordered|TopologicalSortPass": 25,
                "attrs:graph_typed_reference_in_scope": 40, "attrs:node_with_3+_graph_attrs": 2200,
                "attrs_target:Function.sort": 1200, "attrs_target:TopologicalSortPass": 700,
            },
            "min_nontrivial": 15000,
            "params": {"exhaustive_n": 3, "hashseed_every": 40, "hashseed_shard_mod": 4, "exhaustive_history": 1.0},
        }
    return {
        "cases": 300000,
        "shards": 16,
        "budget_s": 560,
        "floors": {
            "constraint_pairs_checked": 600000, "nested_use_pairs_checked": 60000,
            "outcome_sorted": 150000, "outcome_cycle_valueerror_unchanged": 270000,
            "already_ordered_left_unchanged": 40000, "reordered_by_sort": 100000,
            "twin_compared": 400000, "hashseed_compared": 15000, "resort_unchanged": 150000,
            "exhaustive_evaluations": G.exhaustive_size(4),
            "target:Graph.sort": 350000, "target:Function.sort": 35000, "target:TopologicalSortPass": 35000,
            "target:Graph.sort(subgraph)": 14000, "all_permutations_structures": 5000,
            "feature:capture_after_cf_reordered": 15000, "cycle:self-nested": 1800, "cycle:self-direct": 40000,
            "depth3_evaluations": 3000, "evaluations_with_detached_consumers": 100000,
            "feature:capturing_node_consumed_only_by_detached": 30000,
            "history_evaluations": 100000, "history_moves_applied": 500000, "history_twin_built_directly": 100000,
            "history:last_move_is_noop_of_last_node": 8000, "history:last_move_is_noop_of_first_node": 4000,
            "history:noop_moves": 100000, "history:readded_after_remove": 12000,
            "stage_sorts": 35000, "stage:twin_compared": 35000, "stage:reordered_by_sort": 4000,
            "stage:cycle_closed_by_edit_after_sort": 6000, "stage:cycle_broken_by_edit_after_cycle_error": 400,
            "stage:resort_needed_after_dependency_edit_only|after-sorted": 6000,
            "stage:resort_needed_after_dependency_edit_only|after-cycle-error": 8000,
            "stage:resort_needed_sorted_graph_list_untouched|after-sorted": 900,
            "stage_edit:Node.replace_input_with": 25000, "stage_edit:Value.replace_all_uses_with": 8000,
            "stage_edit:Node.attributes[name]=graph(s)": 5000, "stage_edit:new-node(other graph)": 2500,
            "unnamed_nodes_in_scope:cycle": 14000, "all_nodes_unnamed:cycle": 2000,
            "attrs:evaluations_with_other_attributes": 50000, "attrs:ref@before-graph-attr": 18000,
            "attrs:ref@between-graph-attrs": 2500, "attrs:ref@after-graph-attr": 13000,
            "attrs:value@before-graph-attr": 16000, "attrs:value@between-graph-attrs": 2500,
            "attrs:ref@before-graph-attr&reordered": 8000, "attrs:graph_behind_other_attr_reordered": 1100,
            "attrs:graph_behind_other_attr_reordered|Function.sort": 200,
            "attrs:graph_behind_other_attr_reordered|TopologicalSortPass": 250,
            "attrs:graph_typed_reference_in_scope": 400, "attrs:node_with_3+_graph_attrs": 22000,
            "attrs_target:Function.sort": 12000, "attrs_target:TopologicalSortPass": 7000,
        },
        "min_nontrivial": 400000,
        "params": {"exhaustive_n": 4, "hashseed_every": 12, "hashseed_shard_mod": 1, "exhaustive_history": 0.1},
    }


# ---------------------------------------------------------------------------------------------
# oracle
# ---------------------------------------------------------------------------------------------
def scopes(case: dict) -> list[set[int]]:
    if case["target"] == "Graph.sort(subgraph)":
        return [set(G.subtree_graphs(case["units"][0], case["sub"]))]
    return [set(range(len(u["graphs"]))) for u in case["units"]]


def render(case: dict, r: dict | None = None) -> str:
    parts = [f"entry point: {case['target']}" + (f" on g{case['sub']}" if "sub" in case else "")]
    for k, u in enumerate(case["units"]):
        parts.append(f"unit {k} (initial order):\n{G.describe(u)}")
    if r is not None:
        parts.append(f"raised: {r['exc_text'] or None}")
        parts.append(f"before: {r['pre']}")
        parts.append(f"after:  {r['post']}")
    return "\n".join(parts)


NAMES = "|names:"
ATTRS = "|attrs:"  # kinds of the other attributes (values / references, next to the graph attributes) the witness carries


def _attrs_suffix(case: dict) -> str:
    """Which other attributes the nodes of the judged structure carry - value / reference attribute and
    where it stands relative to the node's graph attributes; a reference attribute of a graph type by its
    type - (part of the signature only as long as the reduced witness still needs them)."""
    kinds = sorted({t for u in case["units"] for n in u["nodes"] for t in G.plain_tags(n, for_signature=True)})
    return ATTRS + ",".join(kinds) if kinds else ""


def without_plain(case: dict) -> dict:
    return dict(case, units=[G.without_plain(u) for u in case["units"]])


def _replace_attrs(sig: str, new: str) -> str:
    if ATTRS not in sig:
        return sig
    head, tail = sig.split(ATTRS, 1)
    rest = [x for x in (NAMES, HIST, STAGED) if x in tail]
    cut = min(tail.index(x) for x in rest) if rest else len(tail)
    return head + new + tail[cut:]


def _names_suffix(case: dict) -> str:
    """Which kinds of names were cleared / emptied in the judged structure (part of the signature
    only as long as the shrunk witness still needs them)."""
    kinds = sorted({{"n": "node", "v": "value", "i": "graph-input"}[w[0]] + "=" + repr(nm)
                    for u in case["units"] for w, nm in u.get("names", []) if not nm})
    return NAMES + ",".join(kinds) if kinds else ""


def without_names(case: dict) -> dict:
    out = dict(case, units=[{k: v for k, v in u.items() if k != "names"} for u in case["units"]])
    if case.get("stages"):
        out["stages"] = [st for st in ([e for e in stage if e["op"] != "rename"] for stage in case["stages"]) if st]
    return out


def judge(case: dict, r: dict, counts: Counter) -> list[tuple[str, str]]:
    """Findings (signature, message) for one execution record against the statement of C12."""
    target = case["target"]
    units = case["units"]
    cons, pre, post = r["cons"], r["pre"], r["post"]
    scope = scopes(case)
    out: list[tuple[str, str]] = []

    def add(sig: str, what: str) -> None:
        out.append((sig + _attrs_suffix(case) + _names_suffix(case), f"{what}\n{render(case, r)}"))

    cyclic_units: dict[int, str] = {}
    for u, spec in enumerate(units):
        for gid in sorted(scope[u]):
            if G.has_cycle(pre[u][gid], cons[u][gid]):
                cyclic_units.setdefault(u, G.classify_cycle(cons[u][gid]))
    for kind in set(cyclic_units.values()):
        counts[f"cycle:{kind}"] += 1

    if r["faults"]:
        add(f"nodeset|{target}|len-or-backlink", "graph membership inconsistent after the call: " + "; ".join(r["faults"][:4]))

    if r["exc"] is None:
        if cyclic_units:
            u = min(cyclic_units)
            add(f"cycle-no-error|{target}|{cyclic_units[u]}",
                f"the dependencies of unit {u} contain a cycle ({cyclic_units[u]}) but no ValueError was raised")
            return out
        counts["outcome_sorted"] += 1
        constraint_ok = True
        for u, spec in enumerate(units):
            for gid in range(len(spec["graphs"])):
                if sorted(post[u][gid]) != sorted(pre[u][gid]):
                    add(f"nodeset|{target}", f"unit {u} graph g{gid} does not hold exactly its own nodes any more: "
                        f"{pre[u][gid]} -> {post[u][gid]}")
                    constraint_ok = False
                if gid not in scope[u]:
                    if post[u][gid] != pre[u][gid]:
                        counts["report_only_outside_scope_changed"] += 1
                    continue
                counts["graphs_checked"] += 1
                counts["constraint_pairs_checked"] += len(cons[u][gid])
                counts["nested_use_pairs_checked"] += sum(1 for p in cons[u][gid] if p[2] == "nested")
                bad = G.broken_pairs(post[u][gid], cons[u][gid])
                if bad:
                    constraint_ok = False
                    kinds = "direct" if any(p[2] == "direct" for p in bad) else "nested-use"
                    add(f"constraint|{target}|{kinds}|{'root' if gid == 0 else 'nested-graph'}",
                        f"after the sort, in unit {u} graph g{gid} these (producer, node, how-used) pairs have the "
                        f"node before its producer: {bad[:6]}; order is {post[u][gid]}")
        was_ok = {(u, gid): not G.broken_pairs(pre[u][gid], cons[u][gid]) for u in range(len(units)) for gid in scope[u]}
        moved = [(u, gid) for (u, gid) in was_ok if post[u][gid] != pre[u][gid]]
        if all(was_ok.values()):
            if moved:
                add(f"stability|{target}", f"every graph was already in a valid order, yet {['u%d.g%d' % m for m in moved]} changed")
            elif r.get("names_changed"):
                add(f"stability|{target}|names", "every graph was already in a valid order and was not left exactly as it was: "
                    "the sort changed the name of a node or value")
            else:
                counts["already_ordered_left_unchanged"] += 1
        else:
            counts["reordered_by_sort"] += 1
            if any(was_ok[m] for m in moved):
                counts["report_only_partial_stability_changed"] += 1
            # a producer that stood after the control-flow node whose body needs it
            if any(p[2] == "nested" and G.broken_pairs(pre[u][gid], [p])
                   for u in range(len(units)) for gid in scope[u] for p in cons[u][gid]):
                counts["feature:capture_after_cf_reordered"] += 1
        if r["cons_after"] != cons:
            counts["report_only_structure_changed_by_sort"] += 1
        if r.get("names_changed") and not all(was_ok.values()):
            counts["report_only_names_changed_by_reordering_sort"] += 1
        if r.get("reversed_differs"):
            counts["report_only_reversed_view_differs_after_sort"] += 1
        if target == "TopologicalSortPass" and r["modified"] is not None:
            really = post != pre
            if bool(r["modified"]) != really:
                counts["report_only_pass_modified_flag_wrong"] += 1
        if constraint_ok and r["post2"] is not None:
            if r["exc2"]:
                add(f"resort-raised|{target}", f"sorting the freshly sorted graph again raised {r['exc2']}")
            elif r["post2"] != post:
                add(f"resort-changed|{target}", f"sorting the freshly sorted (hence valid) graph again changed it: {post} -> {r['post2']}")
            else:
                counts["resort_unchanged"] += 1
    elif r["exc"] == "ValueError":
        if not cyclic_units:
            add(f"error-without-cycle|{target}|ValueError", f"no graph's dependencies contain a cycle but the call raised {r['exc_text']}")
            return out
        changed = [(u, gid) for u in range(len(units)) for gid in range(len(units[u]["graphs"]))
                   if post[u][gid] != pre[u][gid]]
        if target == "TopologicalSortPass":
            judged = [c for c in changed if c[0] in cyclic_units]
            if [c for c in changed if c[0] not in cyclic_units]:
                counts["report_only_pass_sorted_before_raise"] += 1
        else:
            judged = changed
        if judged:
            add(f"cycle-order-changed|{target}", f"ValueError was raised for a cycle but the order of {['u%d.g%d' % c for c in judged]} changed")
        else:
            counts["outcome_cycle_valueerror_unchanged"] += 1
    else:
        add(f"unexpected-exception|{target}|{r['exc']}|{'cyclic' if cyclic_units else 'acyclic'}",
            f"the call raised {r['exc_text']} (a cycle must give ValueError, an acyclic graph must be sorted)")
    return out


HIST = "|order-reached-by-moves"
STAGED = "|re-sort-after:"


def has_history(case: dict) -> bool:
    return any("history" in u for u in case["units"])


def without_history(case: dict) -> dict:
    return dict(case, units=[G.strip_history(u) for u in case["units"]])


def _history_suffix(case: dict) -> str:
    tags = sorted({t for u in case["units"] if "history" in u for t in G.history_tags(u)})
    return HIST + ":" + ",".join(tags)


def sig_class(sig: str) -> tuple[str, bool, bool]:
    """(what failed, needs-moves class, needs-earlier-sort class); the names part is not a class of
    its own: the shrinker drops the names when the failure does not need them."""
    return sig.split(STAGED)[0].split(HIST)[0].split(NAMES)[0].split(ATTRS)[0], HIST in sig, STAGED in sig


def _strip_names(sig: str, generic: bool = False) -> str:
    """The signature without its names part (``generic``: with the names part reduced to 'some names')."""
    if NAMES not in sig:
        return sig
    head, tail = sig.split(NAMES, 1)
    rest = [x for x in (HIST, STAGED) if x in tail]
    cut = min(tail.index(x) for x in rest) if rest else len(tail)
    return head + (NAMES + "*" if generic else "") + tail[cut:]


def stage_case(case: dict, rec: dict) -> dict:
    """What a sort of a later stage was given, as a case of its own: the structure after the edits,
    every graph in the order observed before that sort, the same entry point."""
    out = {"units": rec["units"], "target": case["target"]}
    if "sub" in case:
        out["sub"] = case["sub"]
    return out


def _sorted_graph(case: dict) -> int:
    return case.get("sub", 0)


def _stage_suffix(case: dict, k: int, prev: dict) -> str:
    tags = sorted({G.edit_tag(e, _sorted_graph(case)) for e in case["stages"][k]})
    return STAGED + ("sorted" if prev["exc"] is None else "cycle-error") + "+" + ",".join(tags)


def render_story(case: dict, r: dict, upto: int) -> str:
    lines = ["--- this structure and order were reached on live objects:", render(case),
             f"sort #0: raised {r['exc_text'] or None}; orders {r['pre']} -> {r['post']}"]
    for k, stage in enumerate(case["stages"][:upto + 1]):
        lines.append(f"then (stage {k}):")
        lines.extend("  " + G.describe_edit(e) for e in stage)
        rec = r["stages"][k]
        lines.append(f"sort #{k + 1}: raised {rec['exc_text'] or None}; orders {rec['pre']} -> {rec['post']}")
    return "\n".join(lines)


def _needs_work(case: dict, rec: dict) -> bool:
    """Some graph of the sorted scope is not in a valid order (a cycle included)."""
    return any(G.broken_pairs(rec["pre"][u][gid], rec["cons"][u][gid]) for u, sc in enumerate(scopes(case)) for gid in sc)


def check_case(case: dict, counts: Counter, twin_variant: str = "B", twin_seed: int = 1):
    """Execute + judge + twin build.  Returns (findings, execution record); a finding is
    (signature, message, stage index or None)."""
    hist = has_history(case)
    r = B.execute(case, "A", 0)
    if "move_failed" in r:
        counts["report_only_move_raised"] += 1
        return [], r
    other_order = False
    for u, spec in enumerate(case["units"]):
        if G.spec_constraints(spec) != r["cons"][u]:
            raise RuntimeError("C12 harness: the relation read from the objects differs from the spec's\n" + render(case))
        if r["pre"][u] != [g["order"] for g in spec["graphs"]]:
            if "history" not in spec:
                raise RuntimeError("C12 harness: built graphs are not in the spec's initial order\n" + render(case))
            other_order = True
    if other_order:
        counts["report_only_moves_reached_other_order"] += 1
    findings = [(sig, msg, None) for sig, msg in judge(case, r, counts)]
    # the twin: another construction history of the same structure and initial order; for an order
    # reached by moves it is the direct construction in that order
    t = B.execute(dict(without_history(case), stages=[]), twin_variant, twin_seed, resort=False)
    if t["cons"] != r["cons"] or (t["pre"] != r["pre"] and not other_order):
        raise RuntimeError("C12 harness: twin build is not isomorphic\n" + render(case))
    if t["pre"] == r["pre"]:
        counts["twin_compared"] += 1
        if hist:
            counts["history_twin_built_directly"] += 1
        if (t["exc"], t["post"]) != (r["exc"], r["post"]):
            how = "the same initial order constructed directly" if hist else f"construction {twin_variant}"
            findings.append((f"determinism-twin|{case['target']}" + _attrs_suffix(case) + _names_suffix(case),
                             f"two independently built isomorphic inputs (same structure, same initial order) ended "
                             f"differently: {r['exc']} {r['post']} vs {t['exc']} {t['post']} ({how})\n{render(case, r)}", None))
    if hist and findings:
        suffix = _history_suffix(case)
        findings = [(sig + suffix, msg, st) for sig, msg, st in findings]
    # later stages: the live objects were edited after the sort and the entry point is called again.
    # Each such sort is judged as what it is - a sort of (structure now, orders now) - and compared
    # with the same structure and orders constructed directly.
    prev = r
    for k, rec in enumerate(r.get("stages", [])):
        if findings:
            break
        if "move_failed" in rec:
            counts["report_only_stage_move_raised"] += 1
            break
        scase = stage_case(case, rec)
        for u, spec in enumerate(scase["units"]):
            if G.spec_constraints(spec) != rec["cons"][u]:
                raise RuntimeError("C12 harness: after the edits of a stage the relation read from the objects differs "
                                   "from the spec's\n" + render_story(case, r, k))
        sc: Counter = Counter()
        found = judge(scase, rec, sc)
        for key, v in sc.items():
            counts["stage:" + key] += v
        counts["stage_sorts"] += 1
        t = B.execute(scase, twin_variant, twin_seed, resort=False)
        if t["cons"] != rec["cons"] or t["pre"] != rec["pre"]:
            raise RuntimeError("C12 harness: direct construction of a stage is not isomorphic\n" + render_story(case, r, k))
        counts["stage:twin_compared"] += 1
        if not found and (t["exc"], t["post"]) != (rec["exc"], rec["post"]):
            found.append((f"determinism-twin|{case['target']}" + _attrs_suffix(scase) + _names_suffix(scase),
                          f"the live objects (sorted, then edited) and the same structure constructed directly in the same "
                          f"order ended differently: {rec['exc']} {rec['post']} vs {t['exc']} {t['post']}\n{render(scase, rec)}"))
        # what this stage exercised
        ops = {e["op"] for e in case["stages"][k]}
        needs = _needs_work(scase, rec)
        after = "sorted" if prev["exc"] is None else "cycle-error"
        counts[f"stage_after:{after}"] += 1
        if needs and not ops & {"move", "add_node"}:
            counts[f"stage:resort_needed_after_dependency_edit_only|after-{after}"] += 1
        elif needs and not any((e["op"] == "move" and e["move"][1] == _sorted_graph(case) and e["u"] == 0) or
                               (e["op"] == "add_node" and e["g"] == _sorted_graph(case) and e["u"] == 0)
                               for e in case["stages"][k]):
            counts[f"stage:resort_needed_sorted_graph_list_untouched|after-{after}"] += 1
        if prev["exc"] is None and rec["exc"] == "ValueError":
            counts["stage:cycle_closed_by_edit_after_sort"] += 1
        if prev["exc"] == "ValueError" and rec["exc"] is None:
            counts["stage:cycle_broken_by_edit_after_cycle_error"] += 1
        if found:
            suffix = _stage_suffix(case, k, prev)
            story = render_story(case, r, k)
            findings = [(sig + suffix, msg + "\n" + story, k) for sig, msg in found]
        prev = rec
    return findings, r


# ---------------------------------------------------------------------------------------------
# hash-seed children
# ---------------------------------------------------------------------------------------------
def run_children(cases: list[dict], tag: str) -> list[dict]:
    tmp = os.environ.get("VF_SHARD_TMP")
    if not tmp or not os.path.isdir(tmp):  # replay outside a shard
        with tempfile.TemporaryDirectory(prefix="vf-c12-") as d:
            os.environ["VF_SHARD_TMP"] = d
            try:
                return run_children(cases, tag)
            finally:
                os.environ.pop("VF_SHARD_TMP", None)
    root = os.environ.get("VF_ROOT") or os.path.dirname(os.path.dirname(os.path.dirname(os.path.abspath(__file__))))
    inp = os.path.join(tmp, f"c12-hs-{tag}-in.json")
    with open(inp, "w") as f:
        json.dump(cases, f)
    procs = []
    for hs in HASHSEEDS:
        outp = os.path.join(tmp, f"c12-hs-{tag}-{hs}.out")
        errp = outp + ".err"
        env = dict(os.environ, PYTHONHASHSEED=hs)
        procs.append((hs, outp, errp, subprocess.Popen(
            [sys.executable, "-m", "vfpy.c12_child"], stdin=open(inp), stdout=open(outp, "w"),
            stderr=open(errp, "w"), cwd=root, env=env)))
    results = []
    for hs, outp, errp, p in procs:
        rc = p.wait(timeout=1800)
        if rc != 0:
            raise RuntimeError(f"C12 harness: hash-seed child {hs} failed rc={rc}: {open(errp).read()[-1500:]}")
        data = json.load(open(outp))
        if str(data["hashseed"]) != hs or len(data["results"]) != len(cases):
            raise RuntimeError("C12 harness: hash-seed child answered for another seed/batch")
        results.append(data["results"])
        os.remove(outp)
        os.remove(errp)
    os.remove(inp)
    return results


def hashseed_findings(batch: list[tuple[dict, dict]], tag: str, counts: Counter) -> list[tuple[str, str, dict]]:
    """batch: (case, {"exc","post"} as seen in this process).  Returns (signature, message, case)."""
    if not batch:
        return []
    per_seed = run_children([c for c, _ in batch], tag)
    out = []
    for k, (case, mine) in enumerate(batch):
        seen = {"parent(0)": (mine["exc"], mine["post"])}
        for hs, res in zip(HASHSEEDS, per_seed):
            seen[hs] = (res[k]["exc"], res[k]["post"])
        counts["hashseed_compared"] += 1
        counts["hashseed_child_sorts"] += len(HASHSEEDS)
        if len({json.dumps(v) for v in seen.values()}) > 1:
            out.append((f"determinism-hashseed|{case['target']}",
                        f"the same input sorted in fresh interpreters under different PYTHONHASHSEED ended differently: {seen}\n{render(case)}",
                        case))
    return out


# ---------------------------------------------------------------------------------------------
# shrinking
# ---------------------------------------------------------------------------------------------
def _edit_size(e: dict) -> int:
    if e["op"] == "add_attr":
        return 8 + sum(12 + sum(10 + 2 * len(ns["inputs"]) for ns in gs["nodes"]) for gs in e["graphs"])
    if e["op"] == "add_node":
        return 16 + 2 * len(e["inputs"])
    if e["op"] == "move":
        return 6 + len(e["move"][3])
    return 6


def _case_size(case: dict) -> int:
    size = sum(G.spec_size(u) + 3 * len(u["graphs"]) + 2 * len(u.get("names", [])) for u in case["units"]) + 5 * len(case["units"])
    return size + sum(4 + sum(_edit_size(e) for e in stage) for stage in case.get("stages", []))


def _reductions(case: dict):
    stages = case.get("stages")
    if not stages:
        yield from _unit_reductions(case)
        return
    units = case["units"]
    if len(stages) > 1:
        yield dict(case, stages=stages[:-1])
    if has_history(case):
        yield without_history(case)
    for k in range(len(stages) - 1):  # without the sort between two stages
        yield dict(case, stages=stages[:k] + [stages[k] + stages[k + 1]] + stages[k + 2:])
    for si in reversed(range(len(stages))):
        for k in reversed(range(len(stages[si]))):
            new = G.drop_edit(units, stages, si, k)
            if new is not None:
                yield dict(case, stages=new)
    for cand in _unit_reductions(case):
        if G.stages_valid(cand["units"], cand["stages"]):
            yield cand


def _with_unit(case: dict, u: int, new: dict, maps: dict | None = None):
    """The case with unit u replaced after a reduction (``maps``: id translation of remove_nodes);
    None if the edits of later stages cannot follow."""
    units = case["units"]
    c = dict(case, units=units[:u] + [new] + units[u + 1:])
    if case.get("stages") and maps is not None:
        old = units[u]
        st = G.remap_stages(c["units"], case["stages"], u, maps, len(old["nodes"]), len(old["graphs"]))
        if st is None:
            return None
        c["stages"] = st
    return c


def _unit_reductions(case: dict):
    units = case["units"]
    for u, spec in enumerate(units):
        if spec.get("names"):
            yield _with_unit(case, u, {k: v for k, v in spec.items() if k != "names"})
            if len(spec["names"]) > 1:
                for k in reversed(range(len(spec["names"]))):
                    yield _with_unit(case, u, dict(spec, names=spec["names"][:k] + spec["names"][k + 1:]))
    for u, spec in enumerate(units):
        if G.has_plain(spec):  # the other attributes: all of them, then one by one
            yield _with_unit(case, u, G.without_plain(spec))
            for nid, n in enumerate(spec["nodes"]):
                for k in reversed(range(len(n.get("plain", [])))):
                    yield _with_unit(case, u, G.drop_plain(spec, nid, k))
    for u, spec in enumerate(units):
        if "history" not in spec:
            continue
        h = spec["history"]
        cands = []
        if len(h["moves"]) > 3:  # all moves of one graph but the last one / but the last two
            for gid in {m[1] for m in h["moves"]}:
                own = [k for k, m in enumerate(h["moves"]) if m[1] == gid]
                for keep in (1, 2):
                    if len(own) > keep:
                        cands.append(dict(h, moves=[m for k, m in enumerate(h["moves"]) if k not in own[:-keep]]))
        for k in reversed(range(len(h["moves"]))):
            cands.append(dict(h, moves=h["moves"][:k] + h["moves"][k + 1:]))
        for k, m in enumerate(h["moves"]):
            for j in reversed(range(len(m[3]))):
                if len(m[3]) > 1:
                    moved = m[3][:j] + m[3][j + 1:]
                    cands.append(dict(h, moves=h["moves"][:k] + [[m[0], m[1], m[2], moved, "list" if m[4] == "node" else m[4]]]
                                      + h["moves"][k + 1:]))
        for gid, (o, g) in enumerate(zip(h["start"], spec["graphs"])):
            if o != g["order"]:
                cands.append(dict(h, start=h["start"][:gid] + [list(g["order"])] + h["start"][gid + 1:]))
        for hh in cands:
            new = G.settle_history(dict(spec, history=hh))
            if new is not None:
                yield dict(case, units=units[:u] + [new] + units[u + 1:])
    if len(units) > 1:
        for k in range(len(units) - 1, 0, -1):
            if any(e["u"] >= k for stage in case.get("stages", []) for e in stage):
                continue
            yield dict(case, units=units[:k] + units[k + 1:])
    for u, spec in enumerate(units):
        for nid in reversed(range(len(spec["nodes"]))):
            maps: dict = {}
            res = G.remove_nodes(spec, {nid}, case.get("sub") if u == 0 else None, maps=maps)
            if res is None:
                continue
            new, sub = res
            c = _with_unit(case, u, new, maps)
            if c is None:
                continue
            if "sub" in case and u == 0:
                c["sub"] = sub
            yield c
    for u, spec in enumerate(units):
        for did in reversed(range(len(spec.get("detached", [])))):
            res = G.remove_nodes(spec, set(), case.get("sub") if u == 0 else None, None, {did})
            if res is not None:
                yield dict(case, units=units[:u] + [res[0]] + units[u + 1:])
        for did, d in enumerate(spec.get("detached", [])):
            for slot in reversed(range(len(d["inputs"]))):
                yield dict(case, units=units[:u] + [G.drop_input(spec, did, slot, False, True)] + units[u + 1:])
    for u, spec in enumerate(units):
        for gid in reversed(range(1, len(spec["graphs"]))):
            maps = {}
            res = G.remove_nodes(spec, set(), case.get("sub") if u == 0 else None, {gid}, maps=maps)
            if res is None:
                continue
            new, sub = res
            c = _with_unit(case, u, new, maps)
            if c is None:
                continue
            if "sub" in case and u == 0:
                c["sub"] = sub
            yield c
    for u, spec in enumerate(units):
        for nid, n in enumerate(spec["nodes"]):
            for slot in reversed(range(len(n["inputs"]))):
                yield dict(case, units=units[:u] + [G.drop_input(spec, nid, slot, False)] + units[u + 1:])
                if n["inputs"][slot] is not None:
                    yield dict(case, units=units[:u] + [G.drop_input(spec, nid, slot, True)] + units[u + 1:])


def shrink(case: dict, signature: str, variant: str, seed: int, max_tests: int = 1500) -> dict:
    def fails(c: dict) -> bool:
        try:
            found, _ = check_case(c, Counter(), variant, seed)
        except RuntimeError:
            return False
        return any(sig_class(f[0]) == sig_class(signature) for f in found)

    tests = 0
    progress = True
    while progress and tests < max_tests:
        progress = False
        for cand in _reductions(case):
            if _case_size(cand) >= _case_size(case):
                continue
            tests += 1
            if fails(cand):
                case = cand
                progress = True
                break
            if tests >= max_tests:
                break
    return case


# ---------------------------------------------------------------------------------------------
# workload
# ---------------------------------------------------------------------------------------------
def _pick_target(rng, spec) -> dict:
    total = sum(w for _, w in TARGET_W)
    x = rng.randrange(total)
    for name, w in TARGET_W:
        if x < w:
            break
        x -= w
    extra = {}
    if name == "Graph.sort(subgraph)":
        if len(spec["graphs"]) < 2:
            name = "Graph.sort"
        else:
            # prefer nested graphs that actually contain something
            cands = [g for g in range(1, len(spec["graphs"])) if spec["graphs"][g]["order"]] or list(range(1, len(spec["graphs"])))
            extra["sub"] = rng.choice(cands)
    return {"target": name, **extra}


GRAPH_REF_STRATUM = 40  # case ids = 3 (mod 40): structures with reference attributes of type GRAPH / GRAPHS
P_PLAIN = 0.5  # share of the structures whose nodes carry other attributes next to their graph attributes


def generate(rng, graph_refs: bool = False) -> tuple[list[dict], dict]:
    """All evaluations of one case id: a list of cases (same structure, different initial orders)
    and the generator's feature summary.  ``graph_refs``: the fixed stratum of structures that also
    carry reference attributes of type GRAPH / GRAPHS."""
    plain = "graph-refs" if graph_refs else "some" if rng.random() < P_PLAIN else "none"
    cls = rng.choice(["perm"] * 5 + ["small"] * 6 + ["medium"] * 6 + ["large"] * 3)
    if graph_refs and cls == "perm":
        cls = "small"  # (no enumeration of permutations in this stratum)
    cyclic = rng.random() < 0.35
    depth_max = rng.choice([0, 1, 1, 2, 2, 3, 3])
    if cls == "perm":
        n = rng.choice([1, 2, 3, 3, 4, 4, 4, 5, 5, 5])
        depth_max = min(depth_max, 2) if rng.random() < 0.7 else depth_max
    elif cls == "small":
        n = rng.randint(2, 8)
    elif cls == "medium":
        n = rng.randint(9, 20)
    else:
        n = rng.randint(21, 40)
    spec, meta = G.gen_structure(rng, n, depth_max, cyclic, plain)
    meta["class"] = cls
    if rng.random() < P_NAMES:
        spec["names"] = G.gen_names(rng, spec)
    tgt = _pick_target(rng, spec)
    cases = []

    def staged(case: dict, p: float) -> dict:
        if rng.random() < p:
            stages = G.gen_stages(rng, case["units"], case.get("sub"))
            if stages:
                case["stages"] = stages
        return case

    if cls == "perm":
        combos = G.all_order_combinations(spec, 120)
        if combos is not None:
            meta["all_permutations"] = True
            p_stage = P_STAGES[cls] * rng.choice([0, 1, 1, 4])
            for o in combos:
                unit = G.with_orders(spec, o)
                cases.append(staged({"units": [G.add_history(rng, unit) if rng.random() < P_HISTORY else unit], **tgt}, p_stage))
            return cases, meta
    modes = rng.sample(G.ORDER_MODES, 2)
    if rng.random() < 0.3 and "hidden" not in modes:
        modes[0] = "hidden"
    for mode in modes:
        units = [G.with_orders(spec, G.initial_orders(rng, spec, mode))]
        if tgt["target"] == "TopologicalSortPass":
            for _ in range(rng.choice([0, 1, 1, 2])):
                fs, _m = G.gen_structure(rng, rng.randint(1, 10), rng.choice([0, 1, 2]), rng.random() < 0.2,
                                         "none" if plain == "none" else "some")
                if rng.random() < P_NAMES:
                    fs["names"] = G.gen_names(rng, fs)
                units.append(G.with_orders(fs, G.initial_orders(rng, fs, rng.choice(G.ORDER_MODES))))
        if rng.random() < P_HISTORY:
            units = [G.add_history(rng, un) if (k == 0 or rng.random() < 0.6) else un for k, un in enumerate(units)]
        cases.append(staged({"units": units, **tgt}, P_STAGES[cls]))
    return cases, meta


def _needed_plain(case: dict, cls: tuple, variant: str, seed: int) -> dict:
    """The case with every other attribute removed that the failure (class ``cls``) does not need."""
    def fails(c: dict) -> bool:
        try:
            found, _ = check_case(c, Counter(), variant, seed)
        except RuntimeError:
            return False
        return any(sig_class(f[0]) == cls for f in found)

    bare = without_plain(case)
    if fails(bare):
        return bare
    cur = case
    for u in range(len(case["units"])):
        for nid in range(len(case["units"][u]["nodes"])):
            for k in reversed(range(len(cur["units"][u]["nodes"][nid].get("plain", [])))):
                cand = _with_unit(cur, u, G.drop_plain(cur["units"][u], nid, k))
                if fails(cand):
                    cur = cand
    return cur


def _report(ctx, findings, case, variant, seed, r, do_shrink=True) -> None:
    shrunk = ctx.__dict__.setdefault("_c12_shrunk_classes", set())
    for sig, msg, stage in findings:
        witness = case
        cls = sig_class(sig)
        if stage is not None:
            # does the failure need the live objects' past at all?  The same structure and orders
            # constructed directly are a case of their own; if that fails the same way it is reported as that
            plain_case = stage_case(case, r["stages"][stage])
            plain, pr = check_case(plain_case, Counter(), variant, seed)
            same = [f for f in plain if sig_class(f[0])[0] == cls[0]]
            if same:
                _report(ctx, same, plain_case, variant, seed, pr, do_shrink)
                continue
        elif cls[1]:
            # does the failure need the moves at all?  (then it is reported as what it is)
            plain, _ = check_case(without_history(case), Counter(), variant, seed)
            if any(sig_class(f[0])[0] == cls[0] and not sig_class(f[0])[1] for f in plain):
                continue  # the same case without moves fails too; that evaluation/report is made on its own below
        if do_shrink and cls not in shrunk:
            shrunk.add(cls)
            small = shrink(case, sig, variant, seed)
            refound, _ = check_case(small, Counter(), variant, seed)
            again = next((f for f in refound if sig_class(f[0]) == cls), None)
            if again is not None:  # (an address-dependent failure may not reproduce: keep the original then)
                witness = small
                sig = again[0]
                msg = f"[shrunk witness, {sum(len(u['nodes']) for u in small['units'])} nodes] " + again[1]
        else:
            if ATTRS in sig:
                # (not shrunk: only the other attributes are reduced, greedily, so that the signature
                # names the kinds the failure needs)
                sig = _replace_attrs(sig, _attrs_suffix(_needed_plain(case, cls, variant, seed)))
            if NAMES in sig:
                bare, _r = check_case(without_names(case), Counter(), variant, seed)
                if any(sig_class(f[0]) == cls for f in bare):
                    sig = _strip_names(sig)  # (fails without the names too)
                else:
                    sig = _strip_names(sig, generic=True)  # (not shrunk: which names matter is not singled out)
            if cls[1] and stage is None:
                sig = sig.split(HIST)[0] + HIST  # (not shrunk: the moves that matter are not singled out)
            elif stage is not None:
                sig = sig.split(STAGED)[0].split(HIST)[0] + STAGED + sig.split(STAGED)[1].split("+")[0]  # (not shrunk: the edits that matter are not singled out)
        ctx.violation(sig, msg, {"case": witness, "twin_variant": variant, "twin_seed": seed})
    if has_history(case) and any(st is None for _s, _m, st in findings):
        plain_case = without_history(case)
        plain, pr = check_case(plain_case, Counter(), variant, seed)
        if plain:
            _report(ctx, plain, plain_case, variant, seed, pr, do_shrink)


def _count_history(ctx, spec: dict, scope: set[int]) -> None:
    moves = spec["history"]["moves"]
    _final, flags = G.run_history(spec)
    ctx.count("history_moves_applied", len(moves))
    last_of_graph: dict[int, int] = {}
    for k, (m, f) in enumerate(zip(moves, flags)):
        ctx.count(f"move:{m[0]}")
        ctx.count(f"move_arg:{m[4]}")
        if "no-op" in f:
            ctx.count("history:noop_moves")
        if "re-add" in f:
            ctx.count("history:readded_after_remove")
        if "last" in f:
            ctx.count("history:moves_of_last_node")
        if "first" in f:
            ctx.count("history:moves_of_first_node")
        last_of_graph[m[1]] = k
    ctx.count("history:graphs_with_moves", len(last_of_graph))
    # what the sort finds: the last thing that happened to a graph of the sorted scope was a move of
    # its last / first node to where it already was (through an anchored insertion, not append/extend)
    for end in ("last", "first"):
        if any(gid in scope and len(spec["graphs"][gid]["order"]) >= 2 and {"no-op", end} <= flags[k]
               and moves[k][0] not in ("Graph.append", "Graph.extend") for gid, k in last_of_graph.items()):
            ctx.count(f"history:last_move_is_noop_of_{end}_node")


def _count_attrs(ctx, case: dict, r: dict, sc: list[set[int]]) -> None:
    """What the sorted scope held in the way of other attributes next to graph attributes."""
    tags: set[str] = set()
    many = behind = False
    for u, (spec, s_) in enumerate(zip(case["units"], sc)):
        for n in spec["nodes"]:
            if n["g"] not in s_:
                continue
            tags |= G.plain_tags(n)
            many = many or len(n["attrs"]) >= 3
            if n.get("plain") and r["exc"] is None:
                # a nested graph held by an attribute that FOLLOWS another attribute was reordered
                first = min(p[0] for p in n["plain"])
                behind = behind or any(r["post"][u][gid] != r["pre"][u][gid] for a in n["attrs"][max(first, 0):] for gid in a[2])
    if many:
        ctx.count("attrs:node_with_3+_graph_attrs")
    if not tags:
        return
    ctx.count("attrs:evaluations_with_other_attributes")
    ctx.count(f"attrs_target:{case['target']}")
    for t in tags:
        ctx.count(f"attrs:{t}")
    if any(t.startswith("graphref@") for t in tags):
        ctx.count("attrs:graph_typed_reference_in_scope")
    if behind:
        ctx.count("attrs:graph_behind_other_attr_reordered")
        ctx.count(f"attrs:graph_behind_other_attr_reordered|{case['target']}")
    if r["exc"] is None and r["post"] != r["pre"]:
        for t in tags:
            if "before" in t or "between" in t:
                ctx.count(f"attrs:{t}&reordered")


def _count_names(ctx, case: dict, rec: dict, prefix: str) -> None:
    """How many sorts met nodes without a name (None or "") in the sorted scope, by outcome."""
    total = blank = 0
    for u, sc in zip(case["units"], scopes(case)):
        un = G.unnamed_nodes(u)
        for gid in sc:
            total += len(u["graphs"][gid]["order"])
            blank += sum(1 for x in u["graphs"][gid]["order"] if x in un)
    if not blank:
        return
    outcome = "cycle" if rec["exc"] == "ValueError" else "sorted" if rec["exc"] is None else "other"
    ctx.count(f"{prefix}unnamed_nodes_in_scope:{outcome}")
    if blank == total:
        ctx.count(f"{prefix}all_nodes_unnamed:{outcome}")


def _evaluate(ctx, case: dict, rng, hs_batch: list, every: int, meta: dict | None = None) -> None:
    counts: Counter = Counter()
    variant = rng.choice(["B", "B", "C"])
    seed = rng.randrange(1 << 30)
    findings, r = check_case(case, counts, variant, seed)
    for k, v in counts.items():
        ctx.count(k, v)
    if "move_failed" in r:
        ctx.evaluation(key=stable_hash([case["units"], case["target"], case.get("sub")]), nontrivial=False)
        return
    ctx.count(f"target:{case['target']}")
    sc = scopes(case)
    if has_history(case):
        ctx.count("history_evaluations")
        for u, s_ in zip(case["units"], sc):
            if "history" in u:
                _count_history(ctx, u, s_)
    _count_attrs(ctx, case, r, sc)
    n_nodes = sum(len(u["graphs"][g]["order"]) for u, s in zip(case["units"], sc) for g in s)
    n_cons = sum(len(r["cons"][u][g]) for u, s in enumerate(sc) for g in s)
    ctx.count("nodes_sorted", n_nodes)
    if meta and meta.get("max_depth", 0) >= 3:
        ctx.count("depth3_evaluations")
    if any(u.get("detached") for u in case["units"]):
        ctx.count("evaluations_with_detached_consumers")
        if any(G.dangling_capture_nodes(u) for u in case["units"]):
            ctx.count("feature:capturing_node_consumed_only_by_detached")
    ctx.evaluation(key=stable_hash([case["units"], case["target"], case.get("sub")]), nontrivial=n_nodes >= 2 and n_cons >= 1)
    _count_names(ctx, case, r, "")
    if case.get("stages"):
        ctx.count("staged_cases")
        for k, rec in enumerate(r.get("stages", [])):
            if "move_failed" in rec:
                break
            sc_case = stage_case(case, rec)
            ssc = scopes(sc_case)
            for e in case["stages"][k]:
                ctx.count("stage_edit:" + G.edit_tag(e, _sorted_graph(case)))
            k_nodes = sum(len(u["graphs"][g]["order"]) for u, s in zip(sc_case["units"], ssc) for g in s)
            k_cons = sum(len(rec["cons"][u][g]) for u, s in enumerate(ssc) for g in s)
            ctx.count("nodes_sorted", k_nodes)
            ctx.evaluation(key=stable_hash([sc_case["units"], case["target"], case.get("sub")]), nontrivial=k_nodes >= 2 and k_cons >= 1)
            _count_names(ctx, sc_case, rec, "stage:")
    if findings:
        _report(ctx, findings, case, variant, seed, r)
    elif every and ctx.evaluations % every < 1 + len(r.get("stages", [])):
        hs_batch.append((case, B.outcome(r)))


def _flush_hashseed(ctx, hs_batch: list, tag: str) -> None:
    counts: Counter = Counter()
    for sig, msg, case in hashseed_findings(hs_batch, tag, counts):
        ctx.violation(sig, msg, {"case": case, "hashseed": True})
    for k, v in counts.items():
        ctx.count(k, v)
    hs_batch.clear()


def run(ctx) -> None:
    p = ctx.params
    every = int(p.get("hashseed_every", 0)) if ctx.shard % int(p.get("hashseed_shard_mod", 1)) == 0 else 0
    hs_batch: list = []
    flushes = 0

    # 1. the exhaustive space (this shard's share), entry point Graph.sort
    max_n = int(p.get("exhaustive_n", 0))
    total = G.exhaustive_size(max_n) if max_n else 0
    complete = True
    for idx in range(ctx.shard, total, ctx.nshards):
        if idx % 4096 < ctx.nshards and ctx.out_of_time():
            complete = False
            break
        n, mask, perm, shape = G.exhaustive_item(idx, max_n)
        case = {"units": [G.exhaustive_spec(n, mask, perm, shape)], "target": "Graph.sort"}
        _evaluate(ctx, case, ctx.rng(idx, "exh"), hs_batch, every * 8)
        ctx.count("exhaustive_evaluations")
        ctx.count(f"exhaustive_shape:{shape}")
        hrng = ctx.rng(idx, "exh-history")
        if hrng.random() < float(p.get("exhaustive_history", 0.0)):
            # the same item once more, its order reached through moves (not part of the enumerated space)
            _evaluate(ctx, dict(case, units=[G.add_history(hrng, case["units"][0])]), hrng, hs_batch, every * 8)
            ctx.count("exhaustive_items_also_reached_by_moves")
        if len(ctx.violations) >= ctx.MAX_VIOLATIONS:
            complete = False
            break
    if ctx.tier == "thorough":
        ctx.exhaustive = complete
        ctx.note(f"exhaustive space: every loop-free digraph on 1..{max_n} labelled nodes x every initial permutation x "
                 f"shapes {G.EXH_SHAPES} = {total} evaluations (DAGs and cyclic digraphs alike), entry point Graph.sort; "
                 "the random workload on top of it is a sample")

    # 2. random structures
    for case_id in ctx.case_ids():
        rng = ctx.rng(case_id)
        cases, meta = generate(rng, graph_refs=case_id % GRAPH_REF_STRATUM == 3)
        for key in ("none_inputs", "repeated_inputs", "captures", "back_edges", "graph_input_uses",
                    "multi_output_nodes", "cf_nodes", "empty_subgraphs", "detached_never", "detached_removed",
                    "uses_of_detached_outputs"):
            ctx.count(f"gen:{key}", meta[key])
        ctx.count(f"gen:class_{meta['class']}")
        ctx.count(f"gen:max_depth_{meta['max_depth']}")
        if meta.get("all_permutations"):
            ctx.count("all_permutations_structures")
        for case in cases:
            _evaluate(ctx, case, rng, hs_batch, every, meta)
        if case_id < 6 * ctx.nshards and case_id % ctx.nshards == ctx.shard and cases:
            ctx.sample({"case_id": case_id, "entry": cases[0]["target"], "evaluations": len(cases),
                        "first": G.describe(cases[0]["units"][0]).splitlines()})
        if len(hs_batch) >= 2000:
            _flush_hashseed(ctx, hs_batch, str(flushes))
            flushes += 1
    _flush_hashseed(ctx, hs_batch, str(flushes))


def replay(replay_data, ctx) -> None:
    case = replay_data["case"]
    counts: Counter = Counter()
    findings, r = check_case(case, counts, replay_data.get("twin_variant", "B"), int(replay_data.get("twin_seed", 1)))
    for sig, msg, _stage in findings:
        ctx.violation(sig, msg, replay_data)
    if replay_data.get("hashseed"):
        for sig, msg, c in hashseed_findings([(case, B.outcome(r))], "replay", counts):
            ctx.violation(sig, msg, replay_data)
