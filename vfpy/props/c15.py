"""C15 - generated names never collide; name fixing yields unique names only; bulk renaming is
all-or-nothing.

Three workloads, each with its own counters (prefix A_/B_/C_):

A  add/remove/re-add histories on graphs and functions (vfpy.world alphabet) with explicit names
   shaped like generated ones mixed with unnamed nodes/values; monitor vfpy.c15_hist.NameMonitor
   (known-registered set R per graph, A1 reuse / A2 twice-in-one-call / A3 explicit name altered / A4 equals an
   explicit name at an earlier position of the same call).  Planned mixed-output scenarios (GenA._mixed_scenario):
   one node (or two nodes of one sequence argument) whose outputs mix unnamed values, generated-shaped names at or
   just above the graph's counter and plain names in a random order, added through every adding call.
B  NameFixPass on generated models (vfpy.c15_models) with missing and duplicated names across
   GRAPH/GRAPHS scopes, captured outer values and functions, plus planted adversarial patterns;
   oracle vfpy.c15_checks.judge_namefix (B0 raised, B1 empty, B2 duplicate in graph, B3 equals a
   visible outer value, B4 duplicate node name, B5 initializer key, B6 non-name change /
   invariants, B7 unique name not kept).
C  convenience.rename_values with random partial permutations; oracle judge_rename (C1 raised but
   changed, C2 target not applied, C3 initializer keys / membership, C4 bystander renamed).
"""

from __future__ import annotations

import onnx_ir  # noqa: F401

from vfpy import histories, shrink, snapshot
from vfpy.c15_checks import gen_assignment, judge_namefix, judge_rename
from vfpy.c15_hist import NameMonitor, make_gen
from vfpy.c15_models import PLANTED, build, gen_spec, planted, simplify_items
from vfpy.ctx import stable_hash
from vfpy.world import World

ID = "C15"
LEVEL = "exploration"
RULE = ("case % 10 in 0-3: workload A, one edit history (30-100 calls: construct/append/extend/insert/remove/re-add/"
        "rename on graphs and functions) whose explicit names are dense in 'val_<k>' / 'node_<op>_<k>'; non-trivial = the "
        "graph assigned >=3 names and >=1 already existing node was (re-)added; distinct = hash of the history; ~4.5% of "
        "the generator steps start a mixed-output scenario (probe the counter, 2-4 outputs mixing None / 'val_<counter+d>' / "
        "plain names in a random order on one node or split over two nodes of one sequence argument, added by append / "
        "extend / insert_before / insert_after / Node.prepend / Node.append / Node(graph=) / Graph(nodes=)). "
        "case % 10 in 4-7: workload B, one generated model (or a planted adversarial pattern) run through NameFixPass; "
        "non-trivial = >=1 missing or duplicated name and >=2 graphs in the model; distinct = hash of the model spec. "
        "case % 10 in 8-9: workload C, one model + one rename assignment; non-trivial = >=1 initializer renamed and the "
        "assignment is a swap/cycle/permutation or contains a conflict; distinct = hash of (model spec, assignment).")
ASSUMPTIONS = [
    "A: R holds only names the harness saw registered in EARLIER calls (named inputs/initializers at construction, named "
    "nodes/outputs at the moment they entered the graph) or assigned; node and value names are separate namespaces; "
    "equalities outside R are counted report_only",
    "A: within one call 'before' is the public order of the arguments: constructor inputs/initializers before nodes, "
    "nodes in the order of the sequence argument, outputs in the order of node.outputs; an explicit name at a LATER "
    "position (or input vs initializer) is not 'registered before' and an equality with it is report_only",
    "A: histories avoid Node(outputs=[graph input/initializer]) (C01 known finding)",
    "B: 'visible' = inputs, initializers and outputs of nodes preceding the enclosing node, in every enclosing graph; "
    "generated models are well scoped and topologically ordered; function bodies have no initializers",
    "B: 'already unique' = no other value (node) of the same top-level graph tree had that name before the pass",
    "B/C: 'names' = Value.name, Node.name, Graph.name, initializer keys and the name of a value's backing tensor; the "
    "order of the initializer mapping is report-only (re-keying moves an entry to the end)",
    "C: a rejected valid permutation is 'not at all' and therefore not a violation",
    "snapshot covers every public data attribute of Value/Node/Graph/Function/Model (audited against dir() at start-up)",
]


def plan(tier: str) -> dict:
    quick = tier == "quick"
    # ~14 ms CPU per case (A 18, B 12, C 10): quick = 24 000 cases ~ 21 s per shard on an idle 16-core machine;
    # on a loaded machine the shards stop at budget_s and the floors below (a third of what a run that
    # got ~1.5 cores in total observed) are still reached
    k = 1 if quick else 20
    return {
        "cases": 24000 if quick else 500000,
        "shards": 16,
        "budget_s": 38 if quick else 500,
        "floors": {
            "A_assigned_values": 3000 * k,
            "A_assigned_nodes": 1200 * k,
            "A_traps_passed_value": 300 * k,
            "A_traps_passed_node": 300 * k,
            "A_nodes_added_existing": 2500 * k,
            "A_mixed_output_nodes_added": 300 * k,
            "A_same_call_traps_passed_value": 150 * k,
            "A_same_call_traps_passed_node": 30 * k,
            "B_pass_returned": 250 * k,
            "B_unique_names_checked": 4000 * k,
            "B_visible_pairs_checked": 50000 * k,
            "C_returned": 70 * k,
            "C_raised": 50 * k,
            "C_targets_checked": 200 * k,
        },
        "min_nontrivial": 500 * k,
    }


# =============================================================================================
# A
# =============================================================================================
def run_case_a(ctx, case):
    rng = ctx.rng(case)
    hostile = rng.choice([0.1, 0.2, 0.35])
    length = rng.choice([30, 60, 100])
    w = World()
    gen = make_gen(rng, w, hostile)
    mon = NameMonitor(ctx)
    ops = []
    failure = None
    for _ in range(length):
        op = gen.op()
        pre = mon.before(w, op)
        res = w.apply(op)
        ops.append(op)
        if not res.skipped:
            ctx.count("A_calls")
        found = mon.after(w, op, res, pre)
        if found:
            failure = found
            break
    ctx.count("A_histories")
    ctx.evaluation(key=stable_hash(ops), nontrivial=(mon.assigned_total >= 3 and mon.readds >= 1))
    if case % 400 == 0:
        ctx.sample({"workload": "A", "case": case, "history": histories.describe(ops, histories.results_of(ops))[:25]})
    if failure:
        report_a(ctx, ops, failure)


def report_a(ctx, ops, failure):
    clause = failure[0][0]
    small = histories.shrink_with(ops, NameMonitor, {clause}, max_tests=500)
    w, f = histories.replay_ops(small, NameMonitor())
    if f:
        step, op, res, found = f
        small = small[: step + 1]
        msgs = [m for c, m in found if c == clause] or [m for _, m in found]
        via = histories.op_kind(op, res)
    else:  # should not happen (ddmin keeps the predicate true); fall back to the unshrunk witness
        small, msgs, via = ops, [m for _, m in failure], histories.op_kind(ops[-1], None)
    results = histories.results_of(small)
    sig = f"{clause}|via={via}"
    msg = (msgs[0] + "\n  minimal history:\n    " + "\n    ".join(histories.describe(small, results)))
    ctx.violation(sig, msg, {"workload": "A", "ops": small})


# =============================================================================================
# B
# =============================================================================================
def run_case_b(ctx, case, reported):
    rng = ctx.rng(case)
    if rng.random() < 0.08:
        kind = rng.choice(PLANTED)
        items = planted(kind, rng)
        ctx.count("B_planted:" + kind)
    else:
        items = gen_spec(rng)
    custom = rng.random() < 0.15
    findings, info = judge_namefix(items, custom, ctx)
    ctx.count("B_models")
    if info["skipped"]:
        ctx.note(f"B precondition not clean: {info.get('pre_inv')}")
        return
    if custom:
        ctx.count("B_custom_name_generator")
    ctx.count("B_missing_names_before", info["missing_before"])
    ctx.count("B_duplicated_names_before", info["dups_before"])
    ctx.count("B_graphs", info["scopes"])
    if info.get("modified"):
        ctx.count("B_pass_reported_modified")
    ctx.evaluation(key=stable_hash([items, custom]),
                   nontrivial=(info["missing_before"] + info["dups_before"] >= 1 and info["scopes"] >= 2))
    if case % 400 == 4:
        ctx.sample({"workload": "B", "case": case, "items": items[:30], "custom_generator": custom})
    report_b(ctx, items, custom, findings, reported)


def report_b(ctx, items, custom, findings, reported):
    seen = set()
    for sig, msg in findings:
        if sig in seen:
            continue
        seen.add(sig)
        if sig in reported:
            ctx.violation(sig, msg, None)
            continue
        reported.add(sig)

        def fails(sub, sig=sig):
            try:
                f, _ = judge_namefix(sub, custom)
            except Exception:  # noqa: BLE001 - a sub-model that does not build is not a witness
                return False
            return any(s == sig for s, _ in f)

        small = simplify_items(shrink.ddmin(items, fails, max_tests=400), fails)
        f, _ = judge_namefix(small, custom)
        m = next((mm for s, mm in f if s == sig), msg)
        ctx.violation(sig, m + "\n  minimal model: " + describe_items(small) + (" [custom NameGenerator]" if custom else ""),
                      {"workload": "B", "items": small, "custom_gen": custom})


def describe_items(items):
    return "; ".join(str(it) for it in items)


# =============================================================================================
# C
# =============================================================================================
def run_case_c(ctx, case, reported):
    rng = ctx.rng(case)
    items = gen_spec(rng, init_heavy=True, free_values=rng.choice([0, 1, 2]))
    b = build(items)
    pairs, classes = gen_assignment(rng, b)
    mismatch = "length-mismatch" in classes
    for c in classes:
        ctx.count("C_class:" + c)
    ctx.count("C_assignments")
    findings, info = judge_rename(items, pairs, mismatch, ctx)
    if info["skipped"]:
        ctx.count("C_skipped")
        return
    shaped = {"swap", "cycle", "permutation", "conflict-with-unrenamed-initializer", "two-initializers-one-target",
              "duplicate-argument-conflicting"} & set(classes)
    ctx.evaluation(key=stable_hash([items, pairs, mismatch]), nontrivial=(info.get("n_init", 0) >= 1 and bool(shaped)))
    if info.get("raised") is None and info.get("n_init", 0) >= 2 and {"swap", "cycle", "permutation"} & set(classes):
        ctx.count("C_initializer_permutations_applied")
    if info.get("raised") is not None and shaped and not (set(classes) - {"swap", "cycle", "permutation", "fixed-point",
                                                                         "initializers-in-several-graphs"}):
        ctx.count("C_report_only_plain_permutation_rejected")
    if case % 400 == 8:
        ctx.sample({"workload": "C", "case": case, "pairs": pairs, "classes": classes, "outcome": info.get("raised") or "returned"})
    seen = set()
    for sig, msg in findings:
        if sig in seen:
            continue
        seen.add(sig)
        if sig in reported:
            ctx.violation(sig, msg, None)
            continue
        reported.add(sig)

        def fails_pairs(sub, sig=sig, model_items=items):
            try:
                f, _ = judge_rename(model_items, sub, mismatch)
            except Exception:  # noqa: BLE001
                return False
            return any(s == sig for s, _ in f)

        small_pairs = shrink.ddmin(pairs, fails_pairs, max_tests=200) if len(pairs) > 1 else pairs

        def fails_items(sub, sig=sig):
            return fails_pairs(small_pairs, sig, sub)

        small_items = simplify_items(shrink.ddmin(items, fails_items, max_tests=300), fails_items)
        f, _ = judge_rename(small_items, small_pairs, mismatch)
        m = next((mm for s, mm in f if s == sig), msg)
        ctx.violation(sig, m + f"\n  assignment (value id, target): {small_pairs}" + (" [names one short]" if mismatch else "")
                      + "\n  minimal model: " + describe_items(small_items),
                      {"workload": "C", "items": small_items, "pairs": small_pairs, "length_mismatch": mismatch})


# =============================================================================================
def run(ctx) -> None:
    extra = snapshot.unaccounted_attributes()
    if extra:
        raise RuntimeError(f"snapshot does not account for public attributes {extra}; extend vfpy/snapshot.py")
    reported_b, reported_c = set(), set()
    for case in ctx.case_ids():
        k = case % 10
        if k <= 3:
            run_case_a(ctx, case)
        elif k <= 7:
            run_case_b(ctx, case, reported_b)
        else:
            run_case_c(ctx, case, reported_c)


def replay(data, ctx) -> None:
    wl = data.get("workload")
    if wl == "A":
        w, f = histories.replay_ops(data["ops"], NameMonitor())
        if f:
            report_a(ctx, data["ops"], f[3])
    elif wl == "B":
        findings, _ = judge_namefix(data["items"], data.get("custom_gen", False))
        report_b(ctx, data["items"], data.get("custom_gen", False), findings, set())
    elif wl == "C":
        findings, _ = judge_rename(data["items"], data["pairs"], data.get("length_mismatch", False))
        for sig, msg in findings:
            ctx.violation(sig, msg, data)
