"""C06 - a rejected edit leaves every IR object exactly as it was.

Monitor: an all-observables snapshot (vfpy/snapshot.py) of the whole universe is taken before
EVERY call of a generated history; when the call raised (any exception type) the snapshot is
taken again and diffed.  Any difference in any field of any object is a violation.
"""

from __future__ import annotations

import onnx_ir  # noqa: F401
import onnx_ir as ir

from vfpy import histories, invariants, snapshot
from vfpy.gen_ops import Gen
from vfpy.world import World

ID = "C06"
LEVEL = "exploration"
RULE = ("a case is one generated edit history with hostile argument classes (~50-70% of calls raise; a bad "
        "element is placed at a random position of every multi-element argument); every raising call is judged by a "
        "before/after snapshot diff over the whole universe; non-trivial = >=3 raising calls judged on a world with "
        ">=2 graphs or with a multi-element argument; distinct = hash of the multiset of raising call kinds + exception types")
ASSUMPTIONS = [
    "snapshot covers every public data attribute of Value/Node/Graph/Function/Model (audited against dir() at start-up)",
    "the name authority's counters are read from graph._name_authority as a separate facet (observable publicly only through the next generated name)",
    "histories never give a graph input/initializer a producer (C01 known finding I6|node|), so every judged state satisfies the C01 clauses",
    "arguments are type-correct; composite helper convenience.replace_nodes_and_values is judged like any other public editing call",
]

MULTI = {"io_setslice3", "extend", "ins_before", "ins_after", "remove", "io_extend", "io_setslice", "in_update", "c_rauw", "c_rename",
         "c_rnv", "graph", "n_prepend", "n_append", "io_iadd"}


def _raised_by_backing_tensor(exc) -> bool:
    """The innermost frame that raised is the ``name`` setter of a tensor object (not of a Value): the
    rename was rejected by the value's backing tensor, a collaborator of the IR."""
    tb = exc.__traceback__
    last = None
    while tb is not None:
        last = tb.tb_frame
        tb = tb.tb_next
    # protobuf raises from C code: the innermost *Python* frame is then the tensor's setter
    if last is None or last.f_code.co_name != "name":
        return False
    obj = last.f_locals.get("self")
    return obj is not None and not isinstance(obj, ir.Value) and hasattr(obj, "tobytes")


def mechanism_site(w, op, res) -> str:
    """Third component of a C06 signature.  For plain calls: the raising function (localisation that is
    stable across seeds).  For the composite helpers whose partial application is a recorded finding the
    label is derived from the *arguments* instead, so that it does not depend on private function names:
    replace_nodes_and_values -> 'composite'; replace_all_uses_with(replace_graph_outputs=True) over
    outputs of several graphs -> 'cross-graph-outputs'; a rename rejected by the value's backing tensor
    -> 'rejected-by-backing-tensor'."""
    k = op[0]
    if k == "c_rnv":
        return "composite"
    if k in ("c_rename", "v_name", "in_set", "in_add", "in_reg") and _raised_by_backing_tensor(res.exc):
        return "rejected-by-backing-tensor"
    if k == "c_rauw" and op[3]:
        try:
            vals = w.Vs(op[1]) + w.Vs(op[2])
            graphs = {id(v.graph) for v in vals if v.graph is not None and v.is_graph_output()}
            if len(graphs) >= 2:
                return "cross-graph-outputs"
        except Exception:  # noqa: BLE001
            pass
    return histories.raise_site(res.exc)


class SnapshotMonitor:
    """Judges a raising call only when the state before it satisfied the C01 clauses (states
    broken by the C01 known finding are that finding's business, not C06's)."""

    def __init__(self, ctx=None, only_kind=None):
        self.ctx = ctx
        self.only_kind = only_kind  # while shrinking: the witness must end in the same kind of call
        self.precondition_broken = False

    def before(self, w, op):
        if self.precondition_broken or invariants.check_world(w):
            self.precondition_broken = True
            return None
        return snapshot.snapshot(w)

    def after(self, w, op, res, pre):
        if not res.raised or pre is None:
            return None
        post = snapshot.snapshot(w)
        if self.ctx is not None:
            self.ctx.count("raising_calls_judged")
            self.ctx.count("judged:" + op[0])
        d = snapshot.diff(pre, post)
        if not d:
            return None
        kind = f"{histories.op_kind(op, res)}:{type(res.exc).__name__}@{mechanism_site(w, op, res)}"
        if self.only_kind is not None and kind != self.only_kind:
            return None
        out = []
        for label, field, a, b in d:
            okind = {"v": "value", "n": "node", "g": "graph", "f": "function", "m": "model"}.get(label[0], "obj")
            out.append((kind, f"{label}.{field}: {a!r} -> {b!r}"))
        return out


def plan(tier: str) -> dict:
    quick = tier == "quick"
    return {
        "cases": 2400 if quick else 140000,
        "shards": 16,
        "budget_s": 35 if quick else 540,
        "floors": {"raising_calls_judged": 6000 if quick else 200000, "judged:sort(nested,cyclic)": 300 if quick else 20000},
        "min_nontrivial": 200,
    }


def run_case(ctx, case):
    rng = ctx.rng(case)
    hostile = rng.choice([0.5, 0.7, 0.85])
    length = rng.choice([10, 25, 40, 60, 90])
    w = World()
    # every C06 history starts from and stays in states that satisfy the C01 clauses: the trigger of
    # the C01 known finding (a graph input/initializer given a producer) is avoided, otherwise
    # its cascades (re-registering an initializer that has a producer fails) would be filed here
    avoid = {"owned_node_outputs"}
    gen = Gen(rng, w, hostile, avoid=avoid, collaborators=(case % 3 == 0))
    mon = SnapshotMonitor(ctx)
    ops, results = [], []
    raised_kinds = []
    multi = False
    failure = None
    for _ in range(length):
        op = gen.op()
        pre = mon.before(w, op)
        res = w.apply(op)
        ops.append(op)
        results.append(res)
        if res.skipped:
            continue
        ctx.count("calls")
        if res.raised:
            raised_kinds.append(f"{op[0]}:{type(res.exc).__name__}")
            ctx.count("exc:" + type(res.exc).__name__)
            if op[0] in MULTI:
                multi = True
                ctx.count("raising_multi_element_calls")
        found = mon.after(w, op, res, pre)
        if found:
            failure = found
            break
    ctx.evaluation(key=sorted(raised_kinds), nontrivial=(len(raised_kinds) >= 3 and (len(w.graphs) >= 2 or multi)))
    if case % 97 == 0:
        ctx.sample({"case": case, "hostile": hostile, "history": histories.describe(ops, results)[:40]})
    if failure:
        report(ctx, ops, failure)


def report(ctx, ops, failure):
    kind = failure[0][0]
    mon = SnapshotMonitor(only_kind=kind)

    class Fresh:
        """a fresh precondition flag per replay"""
        def before(self, w, op):
            return self.m.before(w, op)

        def after(self, w, op, res, pre):
            return self.m.after(w, op, res, pre)

    def make():
        f = Fresh()
        f.m = SnapshotMonitor(only_kind=kind)
        return f

    small = histories.shrink_with(ops, make, {kind})
    w, f = histories.replay_ops(small, make())
    results = histories.results_of(small)
    final = f[3] if f else failure
    n = (f[0] + 1) if f else len(small)
    sig = f"state-changed|{kind}"
    msg = ("a raising call changed observable state.\n  changed: "
           + "; ".join(m for _, m in final[:6])
           + "\n  minimal history:\n    " + "\n    ".join(histories.describe(small[:n], results[:n])))
    ctx.violation(sig, msg, {"ops": small[:n]})


def sort_scenario(rng, ops_out=None):
    """Nested graphs (main graph, sibling and nested subgraphs), several of them not in topological
    order, with a dependency cycle planted in ONE of them (directly, or through a nested use of the
    enclosing node's own output).  Returns (world, container to sort, description)."""
    import onnx_ir as ir

    w = World()
    graphs = []
    desc = {"graphs": []}

    def build(depth, visible, label):
        k = rng.randint(2, 4)
        nodes = []
        local = []
        for i in range(k):
            cands = local + visible
            ins = [rng.choice(cands) for _ in range(rng.randint(0, 2))] if cands else []
            attrs = []
            if depth < 2 and rng.random() < (0.55 if depth == 0 else 0.3):
                for j in range(rng.randint(1, 2)):
                    attrs.append(ir.AttrGraph(f"b{j}", build(depth + 1, visible + local, f"{label}.{i}.{j}")))
            n = ir.Node("", "Op", ins, attrs, num_outputs=rng.randint(1, 2), name=f"{label}_n{i}")
            nodes.append(n)
            local.extend(n.outputs)
        order = list(nodes)
        if rng.random() < 0.7:
            rng.shuffle(order)
        g = ir.Graph([], [], nodes=order, name=label)
        graphs.append((g, nodes))
        return g

    main = build(0, [], "g")
    # plant a cycle in one graph
    target, tnodes = rng.choice(graphs)
    how = rng.choice(["direct", "self", "nested"])
    if how == "direct" and len(tnodes) >= 2:
        a, b = rng.sample(tnodes, 2)
        a.resize_inputs(len(a.inputs) + 1)
        a.replace_input_with(len(a.inputs) - 1, b.outputs[0])
        b.resize_inputs(len(b.inputs) + 1)
        b.replace_input_with(len(b.inputs) - 1, a.outputs[0])
    elif how == "nested":
        # a node nested inside `a` uses a's own output
        holders = [n for n in tnodes if any(at.type == ir.AttributeType.GRAPH for at in n.attributes.values())]
        if holders:
            a = rng.choice(holders)
            sub = next(at.value for at in a.attributes.values() if at.type == ir.AttributeType.GRAPH)
            if len(sub):
                inner = sub[rng.randrange(len(sub))]
                inner.resize_inputs(len(inner.inputs) + 1)
                inner.replace_input_with(len(inner.inputs) - 1, a.outputs[0])
            else:
                how = "self"
        else:
            how = "self"
    if how == "self" or (how == "direct" and len(tnodes) < 2):
        a = rng.choice(tnodes)
        a.resize_inputs(len(a.inputs) + 1)
        a.replace_input_with(len(a.inputs) - 1, a.outputs[0])
    desc["cycle"] = {"in": target.name, "how": how}
    desc["orders"] = {g.name: [n.name for n in g] for g, _ in graphs}
    cont = main
    if rng.random() < 0.3:
        cont = ir.Function("d", "f", graph=main, attributes=[])
        w.add_function(cont)
    w.add_graph(main)
    w.discover()
    return w, cont, desc


def run_sort_case(ctx, case):
    rng = ctx.rng(case, "sort")
    w, cont, desc = sort_scenario(rng)
    pre = snapshot.snapshot(w)
    try:
        cont.sort()
        ctx.count("sort_returned_on_planted_cycle")  # C12 judges that; here only rejected calls matter
        raised = None
    except Exception as e:  # noqa: BLE001
        raised = e
    ctx.count("sort_scenarios")
    nontrivial = False
    if raised is not None:
        ctx.count("raising_calls_judged")
        ctx.count("judged:sort(nested,cyclic)")
        ctx.count("exc:" + type(raised).__name__)
        unsorted_elsewhere = len(desc["orders"]) >= 2
        nontrivial = unsorted_elsewhere
        d = snapshot.diff(pre, snapshot.snapshot(w))
        if d:
            msg = ("Graph.sort raised %s on a nested model with a cycle in %r but changed state: " % (type(raised).__name__, desc["cycle"])
                   + "; ".join(f"{l}.{f}: {a!r} -> {b!r}" for l, f, a, b in d[:4]))
            ctx.violation(f"state-changed|sort(nested)!:{type(raised).__name__}@{histories.raise_site(raised)}", msg,
                          {"sort_case": case, "seed": ctx.seed})
    ctx.evaluation(key=["sort", desc["cycle"]["how"], len(desc["orders"]), sorted(len(v) for v in desc["orders"].values())],
                   nontrivial=nontrivial)
    if case % 101 == 0:
        ctx.sample({"case": case, "sort_scenario": desc, "raised": type(raised).__name__ if raised else None})


def run(ctx) -> None:
    extra = snapshot.unaccounted_attributes()
    if extra:
        raise RuntimeError(f"snapshot does not account for public attributes {extra}; extend vfpy/snapshot.py")
    for case in ctx.case_ids():
        if case % 4 == 3:
            for sub in range(6):  # cheap: six nested sort scenarios per slot
                run_sort_case(ctx, case * 8 + sub)
        else:
            run_case(ctx, case)


def replay(data, ctx) -> None:
    if "sort_case" in data:
        ctx.seed = data.get("seed", ctx.seed)
        run_sort_case(ctx, data["sort_case"])
        return
    mon = SnapshotMonitor()
    w, f = histories.replay_ops(data["ops"], mon)
    if f:
        report(ctx, data["ops"], f[3])

