"""C06 - a rejected edit leaves every IR object exactly as it was.

Monitor: an all-observables snapshot (vfpy/snapshot.py) of the whole universe is taken before
EVERY call of a generated history; when the call raised (any exception type) the snapshot is
taken again and diffed.  Any difference in any field of any object is a violation.
"""

from __future__ import annotations

import onnx_ir  # noqa: F401
import onnx_ir as ir

from vfpy import histories, invariants, snapshot
from vfpy.gen_ops import Gen
from vfpy.world import World

ID = "C06"
LEVEL = "exploration"
RULE = ("a case is one generated edit history with hostile argument classes (~50-70% of calls raise; a bad "
        "element is placed at a random position of every multi-element argument; multi-pair replace_all_uses_with "
        "calls are assembled from pairs that really rewire something with the rejected pair at every position; every "
        "size / index / slice-bound parameter is also drawn from the far ends of its range: negative sizes, indices "
        "far outside [-len, len) up to beyond a machine word); every raising call is judged by a "
        "before/after snapshot diff over the whole universe; non-trivial = >=3 raising calls judged on a world with "
        ">=2 graphs or with a multi-element argument; distinct = hash of the multiset of raising call kinds + exception types")
ASSUMPTIONS = [
    "snapshot covers every public data attribute of Value/Node/Graph/Function/Model (audited against dir() at start-up)",
    "the name authority's counters are read from graph._name_authority as a separate facet (observable publicly only through the next generated name)",
    "histories never give a graph input/initializer a producer (C01 known finding I6|node|), so every judged state satisfies the C01 clauses",
    "arguments are type-correct; composite helper convenience.replace_nodes_and_values is judged like any other public editing call",
]

MULTI = {"io_setslice3", "extend", "ins_before", "ins_after", "remove", "io_extend", "io_setslice", "in_update", "c_rauw", "c_rename",
         "c_rnv", "graph", "n_prepend", "n_append", "io_iadd"}


def _raised_by_backing_tensor(exc) -> bool:
    """The innermost frame that raised is the ``name`` setter of a tensor object (not of a Value): the
    rename was rejected by the value's backing tensor, a collaborator of the IR."""
    tb = exc.__traceback__
    last = None
    while tb is not None:
        last = tb.tb_frame
        tb = tb.tb_next
    # protobuf raises from C code: the innermost *Python* frame is then the tensor's setter
    if last is None or last.f_code.co_name != "name":
        return False
    obj = last.f_locals.get("self")
    return obj is not None and not isinstance(obj, ir.Value) and hasattr(obj, "tobytes")


def _owner(v):
    """The graph that lists v as input / output / initializer (public accessors only), else None."""
    if v.is_graph_input() or v.is_graph_output() or v.is_initializer():
        return v.graph
    return None


def rauw_facts(w, op):
    """Facts about the pairs of a convenience.replace_all_uses_with call, read from the state BEFORE the
    call through public accessors (used for signature labels and coverage counters, never for a verdict).
    first_bad: position of the first pair that is inadmissible on its own merits in that state - its value
    is a graph output and either graph outputs are not to be replaced or its replacement is listed by a
    different graph.  effective_before: how many pairs before it have something to rewire."""
    try:
        values, repls, rgo = w.Vs(op[1]), w.Vs(op[2]), op[3]
    except Exception:  # noqa: BLE001 - empty pool: the call is skipped
        return None
    if len(values) != len(repls):
        return {"first_bad": None, "effective_before": 0, "pairs": 0}
    first_bad, effective = None, 0
    for k, (v, r) in enumerate(zip(values, repls)):
        if v.is_graph_output() and (not rgo or (_owner(r) is not None and _owner(r) is not v.graph)):
            first_bad = k
            break
        if v is not r and (v.uses() or v.is_graph_output()):
            effective += 1
    return {"first_bad": first_bad, "effective_before": effective, "pairs": len(values)}


def extreme_argument(w, op) -> bool:
    """Does the call carry a size / index / slice bound from the far end of its range: a negative size,
    or an index at least 5 places outside [-len, len) (which includes every far / beyond-word value)?"""
    k = op[0]
    try:
        if k in ("rsz_in", "rsz_out"):
            return op[2] < 0
        if k == "node":
            return op[3] is not None and op[3] < 0
        if k == "rin":
            n = len(w.N(op[1]).inputs)
            return not (-n - 5 <= op[2] < n + 5)
        if k in ("io_insert", "io_set", "io_del", "io_pop", "io_setslice", "io_delslice", "io_setslice3", "io_delslice3"):
            cont = w.C(op[1])
            n = len(cont.inputs if op[2] == "inputs" else cont.outputs)
            bounds = op[3:5] if "slice" in k else op[3:4]
            return any(isinstance(i, int) and not (-n - 5 <= i < n + 5) for i in bounds)
    except Exception:  # noqa: BLE001 - empty pool
        pass
    return False


def mechanism_site(w, op, res, facts=None) -> str:
    """Third component of a C06 signature.  For plain calls: the raising function (localisation that is
    stable across seeds).  For the composite helpers whose partial application is a recorded finding the
    label is derived from the *arguments* instead, so that it does not depend on private function names:
    replace_nodes_and_values -> 'composite'; a rename rejected by the value's backing tensor
    -> 'rejected-by-backing-tensor'; convenience.replace_all_uses_with(replace_graph_outputs=True): when a
    pair was inadmissible on its own merits in the state BEFORE the call (facts, see rauw_facts)
    -> 'pair-inadmissible-on-entry' (nothing an earlier pair did is needed to reject it); otherwise the
    rejection depends on what earlier pairs of the same call did: over outputs of several graphs
    -> 'cross-graph-outputs', within the outputs of one graph -> 'every-pair-admissible-on-entry'."""
    k = op[0]
    if k == "c_rnv":
        return "composite"
    if k in ("c_rename", "v_name", "in_set", "in_add", "in_reg") and _raised_by_backing_tensor(res.exc):
        return "rejected-by-backing-tensor"
    if k == "c_rauw" and op[3]:
        if facts is not None and facts.get("first_bad") is not None:
            return "pair-inadmissible-on-entry"
        try:
            vals = w.Vs(op[1]) + w.Vs(op[2])
            graphs = {id(v.graph) for v in vals if v.graph is not None and v.is_graph_output()}
            if len(graphs) >= 2:
                return "cross-graph-outputs"
        except Exception:  # noqa: BLE001
            pass
        if facts is not None and facts.get("pairs", 0) >= 2:
            return "every-pair-admissible-on-entry"
    return histories.raise_site(res.exc)


class SnapshotMonitor:
    """Judges a raising call only when the state before it satisfied the C01 clauses (states
    broken by the C01 known finding are that finding's business, not C06's)."""

    def __init__(self, ctx=None, only_kind=None):
        self.ctx = ctx
        self.only_kind = only_kind  # while shrinking: the witness must end in the same kind of call
        self.precondition_broken = False
        self.facts = None   # rauw_facts of the call about to be made
        self.extreme = False

    def before(self, w, op):
        self.facts, self.extreme = None, False
        if self.precondition_broken or invariants.check_world(w):
            self.precondition_broken = True
            return None
        if op[0] == "c_rauw":
            self.facts = rauw_facts(w, op)
        self.extreme = extreme_argument(w, op)
        return snapshot.snapshot(w)

    def after(self, w, op, res, pre):
        if not res.raised or pre is None:
            return None
        post = snapshot.snapshot(w)
        if self.ctx is not None:
            self.ctx.count("raising_calls_judged")
            self.ctx.count("judged:" + op[0])
            if self.extreme:
                self.ctx.count("judged:far_size_or_index")
                self.ctx.count("judged:far_size_or_index:" + op[0])
            f = self.facts
            if f is not None and f["first_bad"] is not None and f["first_bad"] >= 1 and f["effective_before"] >= 1:
                # the deciding situation for a multi-pair call: a rejected pair after pairs that rewire something
                self.ctx.count("judged:c_rauw(rejected pair after effective pairs)")
                if op[3]:
                    self.ctx.count("judged:c_rauw(rejected pair after effective pairs,replace_graph_outputs)")
        d = snapshot.diff(pre, post)
        if not d:
            return None
        kind = f"{histories.op_kind(op, res)}:{type(res.exc).__name__}@{mechanism_site(w, op, res, self.facts)}"
        if self.only_kind is not None and kind != self.only_kind:
            return None
        out = []
        for label, field, a, b in d:
            okind = {"v": "value", "n": "node", "g": "graph", "f": "function", "m": "model"}.get(label[0], "obj")
            out.append((kind, f"{label}.{field}: {a!r} -> {b!r}"))
        return out


def plan(tier: str) -> dict:
    quick = tier == "quick"
    return {
        "cases": 6000 if quick else 140000,
        "shards": 16,
        "budget_s": 35 if quick else 540,
        "floors": {"raising_calls_judged": 6000 if quick else 200000, "judged:sort(nested,cyclic)": 300 if quick else 20000,
                   "judged:far_size_or_index": 300 if quick else 10000, "judged:rsz_in": 20 if quick else 600,
                   "judged:c_rauw(rejected pair after effective pairs,replace_graph_outputs)": 15 if quick else 500},
        "min_nontrivial": 200,
    }


def staged_graphs(rng, w):
    """Opening moves of a history (ordinary operation descriptors, yielded one at a time against the live
    world): two or three small graphs, each with an input, sometimes an initializer, a node or two and an
    output - so that edits ACROSS graphs (a value one graph lists offered to another) are reachable from
    the first generated call on, not only in the rare histories whose random Graph() calls succeed twice."""
    def idx(v):
        return next(i for i, o in enumerate(w.values) if o is v)

    for gi in range(rng.randint(2, 3)):
        base = len(w.values)
        yield ["val", f"s{gi}_x", None, 1]
        with_init = rng.random() < 0.6
        if with_init:
            yield ["val", f"s{gi}_w", 0, 1]
        if len(w.values) != base + 1 + with_init:
            return
        nbase = len(w.nodes)
        yield ["node", "Add", [base, base + with_init], 1, None, None, f"s{gi}_n0", None]
        if len(w.nodes) != nbase + 1:
            return
        out = idx(w.nodes[nbase].outputs[0])
        nodes = [nbase]
        if rng.random() < 0.6:
            yield ["node", "Relu", [out], 1, None, None, f"s{gi}_n1", None]
            if len(w.nodes) != nbase + 2:
                return
            nodes.append(nbase + 1)
            outs = [idx(w.nodes[nbase + 1].outputs[0])] + ([out] if rng.random() < 0.5 else [])
        else:
            outs = [out]
        yield ["graph", [base], outs, nodes, [base + 1] if with_init else [], f"s{gi}"]


def run_case(ctx, case):
    rng = ctx.rng(case)
    hostile = rng.choice([0.5, 0.7, 0.85])
    length = rng.choice([10, 25, 40, 60, 90])
    w = World()
    # every C06 history starts from and stays in states that satisfy the C01 clauses: the trigger of
    # the C01 known finding (a graph input/initializer given a producer) is avoided, otherwise
    # its cascades (re-registering an initializer that has a producer fails) would be filed here
    avoid = {"owned_node_outputs"}
    gen = Gen(rng, w, hostile, avoid=avoid, collaborators=(case % 3 == 0), extremes=rng.choice([0.0, 0.1, 0.25]),
              targeted_rauw=0.6, weights={"c_rauw": 3, "rsz_in": 2.5})
    mon = SnapshotMonitor(ctx)
    ops, results = [], []
    raised_kinds = []
    multi = False
    failure = None
    stage = staged_graphs(rng, w) if case % 2 == 0 else iter(())
    staged = 0
    while True:
        op = next(stage, None)
        if op is not None:
            staged += 1
        elif len(ops) - staged < length:
            op = gen.op()
        else:
            break
        pre = mon.before(w, op)
        res = w.apply(op)
        ops.append(op)
        results.append(res)
        if res.skipped:
            continue
        ctx.count("calls")
        if res.raised:
            raised_kinds.append(f"{op[0]}:{type(res.exc).__name__}")
            ctx.count("exc:" + type(res.exc).__name__)
            if op[0] in MULTI:
                multi = True
                ctx.count("raising_multi_element_calls")
        found = mon.after(w, op, res, pre)
        if found:
            failure = found
            break
    ctx.evaluation(key=sorted(raised_kinds), nontrivial=(len(raised_kinds) >= 3 and (len(w.graphs) >= 2 or multi)))
    if len(w.graphs) >= 2:
        ctx.count("histories_ending_with_2+_graphs")
    if case % 97 == 0:
        ctx.sample({"case": case, "hostile": hostile, "history": histories.describe(ops, results)[:40]})
    if failure:
        report(ctx, ops, failure)


def report(ctx, ops, failure):
    kind = failure[0][0]
    mon = SnapshotMonitor(only_kind=kind)

    class Fresh:
        """a fresh precondition flag per replay"""
        def before(self, w, op):
            return self.m.before(w, op)

        def after(self, w, op, res, pre):
            return self.m.after(w, op, res, pre)

    def make():
        f = Fresh()
        f.m = SnapshotMonitor(only_kind=kind)
        return f

    small = histories.shrink_with(ops, make, {kind})
    w, f = histories.replay_ops(small, make())
    results = histories.results_of(small)
    final = f[3] if f else failure
    n = (f[0] + 1) if f else len(small)
    sig = f"state-changed|{kind}"
    msg = ("a raising call changed observable state.\n  changed: "
           + "; ".join(m for _, m in final[:6])
           + "\n  minimal history:\n    " + "\n    ".join(histories.describe(small[:n], results[:n])))
    ctx.violation(sig, msg, {"ops": small[:n]})


def sort_scenario(rng, ops_out=None):
    """Nested graphs (main graph, sibling and nested subgraphs), several of them not in topological
    order, with a dependency cycle planted in ONE of them (directly, or through a nested use of the
    enclosing node's own output).  Returns (world, container to sort, description)."""
    import onnx_ir as ir

    w = World()
    graphs = []
    desc = {"graphs": []}

    def build(depth, visible, label):
        k = rng.randint(2, 4)
        nodes = []
        local = []
        for i in range(k):
            cands = local + visible
            ins = [rng.choice(cands) for _ in range(rng.randint(0, 2))] if cands else []
            attrs = []
            if depth < 2 and rng.random() < (0.55 if depth == 0 else 0.3):
                for j in range(rng.randint(1, 2)):
                    attrs.append(ir.AttrGraph(f"b{j}", build(depth + 1, visible + local, f"{label}.{i}.{j}")))
            n = ir.Node("", "Op", ins, attrs, num_outputs=rng.randint(1, 2), name=f"{label}_n{i}")
            nodes.append(n)
            local.extend(n.outputs)
        order = list(nodes)
        if rng.random() < 0.7:
            rng.shuffle(order)
        g = ir.Graph([], [], nodes=order, name=label)
        graphs.append((g, nodes))
        return g

    main = build(0, [], "g")
    # plant a cycle in one graph
    target, tnodes = rng.choice(graphs)
    how = rng.choice(["direct", "self", "nested"])
    if how == "direct" and len(tnodes) >= 2:
        a, b = rng.sample(tnodes, 2)
        a.resize_inputs(len(a.inputs) + 1)
        a.replace_input_with(len(a.inputs) - 1, b.outputs[0])
        b.resize_inputs(len(b.inputs) + 1)
        b.replace_input_with(len(b.inputs) - 1, a.outputs[0])
    elif how == "nested":
        # a node nested inside `a` uses a's own output
        holders = [n for n in tnodes if any(at.type == ir.AttributeType.GRAPH for at in n.attributes.values())]
        if holders:
            a = rng.choice(holders)
            sub = next(at.value for at in a.attributes.values() if at.type == ir.AttributeType.GRAPH)
            if len(sub):
                inner = sub[rng.randrange(len(sub))]
                inner.resize_inputs(len(inner.inputs) + 1)
                inner.replace_input_with(len(inner.inputs) - 1, a.outputs[0])
            else:
                how = "self"
        else:
            how = "self"
    if how == "self" or (how == "direct" and len(tnodes) < 2):
        a = rng.choice(tnodes)
        a.resize_inputs(len(a.inputs) + 1)
        a.replace_input_with(len(a.inputs) - 1, a.outputs[0])
    desc["cycle"] = {"in": target.name, "how": how}
    desc["orders"] = {g.name: [n.name for n in g] for g, _ in graphs}
    cont = main
    if rng.random() < 0.3:
        cont = ir.Function("d", "f", graph=main, attributes=[])
        w.add_function(cont)
    w.add_graph(main)
    w.discover()
    return w, cont, desc


def run_sort_case(ctx, case):
    rng = ctx.rng(case, "sort")
    w, cont, desc = sort_scenario(rng)
    pre = snapshot.snapshot(w)
    try:
        cont.sort()
        ctx.count("sort_returned_on_planted_cycle")  # C12 judges that; here only rejected calls matter
        raised = None
    except Exception as e:  # noqa: BLE001
        raised = e
    ctx.count("sort_scenarios")
    nontrivial = False
    if raised is not None:
        ctx.count("raising_calls_judged")
        ctx.count("judged:sort(nested,cyclic)")
        ctx.count("exc:" + type(raised).__name__)
        unsorted_elsewhere = len(desc["orders"]) >= 2
        nontrivial = unsorted_elsewhere
        d = snapshot.diff(pre, snapshot.snapshot(w))
        if d:
            msg = ("Graph.sort raised %s on a nested model with a cycle in %r but changed state: " % (type(raised).__name__, desc["cycle"])
                   + "; ".join(f"{l}.{f}: {a!r} -> {b!r}" for l, f, a, b in d[:4]))
            ctx.violation(f"state-changed|sort(nested)!:{type(raised).__name__}@{histories.raise_site(raised)}", msg,
                          {"sort_case": case, "seed": ctx.seed})
    ctx.evaluation(key=["sort", desc["cycle"]["how"], len(desc["orders"]), sorted(len(v) for v in desc["orders"].values())],
                   nontrivial=nontrivial)
    if case % 101 == 0:
        ctx.sample({"case": case, "sort_scenario": desc, "raised": type(raised).__name__ if raised else None})


def run(ctx) -> None:
    extra = snapshot.unaccounted_attributes()
    if extra:
        raise RuntimeError(f"snapshot does not account for public attributes {extra}; extend vfpy/snapshot.py")
    for case in ctx.case_ids():
        if case % 4 == 3:
            for sub in range(6):  # cheap: six nested sort scenarios per slot
                run_sort_case(ctx, case * 8 + sub)
        else:
            run_case(ctx, case)


def replay(data, ctx) -> None:
    if "sort_case" in data:
        ctx.seed = data.get("seed", ctx.seed)
        run_sort_case(ctx, data["sort_case"])
        return
    mon = SnapshotMonitor()
    w, f = histories.replay_ops(data["ops"], mon)
    if f:
        report(ctx, data["ops"], f[3])

