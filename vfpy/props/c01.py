"""C01 - use-def and ownership links stay consistent under every edit history.

Monitor: the invariant walker (vfpy/invariants.py, clauses I1-I6, public accessors only) runs
over the whole universe after EVERY public editing call of a generated history, whether the
call returned or raised.  A failing history is shrunk with ddmin before it is classified.
"""

from __future__ import annotations

import onnx_ir  # noqa: F401 - the code under observation

from vfpy import histories
from vfpy.gen_ops import Gen
from vfpy.world import CONSTRUCTORS, PAYLOAD, World

ID = "C01"
LEVEL = "exploration"
RULE = ("a case is one generated edit history (5-120 public editing calls over 1-4 graphs/functions, "
        "nested graphs, shared/duplicated values, adversarial type-correct arguments); the walker runs after "
        "every call; non-trivial = >=3 effective mutating calls, >=1 raising call and >=2 object kinds touched; "
        "distinct = hash of the multiset of (operation kind, raised?)")
ASSUMPTIONS = [
    "walker uses public accessors only; clauses are exactly I1-I6 of DESIGN.md 2.2",
    "arguments are type-correct; node.graph= assignment, private methods, UserList.__imul__/UserDict.__ior__ are outside the alphabet",
    "histories bounded: <=120 calls, <=~40 objects",
]


def plan(tier: str) -> dict:
    quick = tier == "quick"
    return {
        "cases": 12000 if quick else 480000,
        "shards": 16,
        "budget_s": 35 if quick else 540,
        "floors": {"walker_evaluations": 20000 if quick else 500000, "calls_raised": 2000, "calls_returned": 10000},
        "min_nontrivial": 200,
    }


def run_case(ctx, case, hostile=None):
    rng = ctx.rng(case)
    hostile = hostile if hostile is not None else rng.choice([0.1, 0.25, 0.4, 0.6])
    length = rng.choice([5, 12, 25, 40, 60, 90, 120])
    w = World()
    # half of the histories steer clear of the trigger of the known finding so that long
    # histories survive; the other half keeps exercising it
    avoid = {"owned_node_outputs"} if case % 2 == 0 else set()
    # every fourth history also uses collaborator tensors whose own name setter can reject a name
    # every third history also reaches for the far ends of the argument ranges (indexes and sizes far past
    # both ends, past 32/64-bit words): a call rejected only by the underlying list must leave no trace either
    gen = Gen(rng, w, hostile, avoid=avoid, collaborators=(case % 4 >= 2),
              extremes=(0.0, 0.15, 0.3)[case % 3])
    mon = histories.WalkerMonitor()
    ops, results = [], []
    kinds = set()
    mutating = raised = 0
    failure = None
    for _ in range(length):
        op = gen.op()
        res = w.apply(op)
        ops.append(op)
        results.append(res)
        if res.skipped:
            ctx.count("calls_skipped")
            continue
        ctx.count("op:" + op[0])
        if res.raised:
            raised += 1
            ctx.count("calls_raised")
            ctx.count("exc:" + type(res.exc).__name__)
        else:
            ctx.count("calls_returned")
            if op[0] not in CONSTRUCTORS and op[0] not in PAYLOAD:
                mutating += 1
        kinds.add(op[0].split("_")[0])
        found = mon.after(w, op, res, None)
        ctx.count("walker_evaluations")
        if found:
            failure = found
            break
    ctx.count("objects_in_universe", len(w.values) + len(w.nodes) + len(w.graphs))
    key = sorted((histories.op_kind(o, r), 1) for o, r in zip(ops, results))
    ctx.evaluation(key=[k for k, _ in key], nontrivial=(mutating >= 3 and raised >= 1 and len(kinds) >= 2))
    if case % 97 == 0:
        ctx.sample({"case": case, "hostile": hostile, "history": histories.describe(ops, results)[:40]})
    if failure:
        report(ctx, ops, failure, mon)


def report(ctx, ops, failure, mon):
    clause_set = {c for c, _ in failure}
    small, results, final = histories.shrink_history(ops, mon, clause_set)
    final = final or failure
    sig = histories.signature([c for c, _ in final], small, results)
    msg = ("links inconsistent after a public editing call.\n  violated: "
           + "; ".join(f"[{c}] {m}" for c, m in final[:6])
           + "\n  minimal history:\n    " + "\n    ".join(histories.describe(small, results)))
    ctx.violation(sig, msg, {"ops": small})


def run(ctx) -> None:
    for case in ctx.case_ids():
        run_case(ctx, case)


def replay(data, ctx) -> None:
    mon = histories.WalkerMonitor()
    w, f = histories.replay_ops(data["ops"], mon)
    if f:
        report(ctx, data["ops"], f[3], mon)
