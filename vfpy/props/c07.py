"""C07 - external-data save/load preserves every initializer; layout is well formed.

Monitor shape: generate (model, save configuration) pairs, run the real ``ir.save(...,
external_data=...)`` / ``ir.save_safetensors`` and ``ir.load``, and judge what came back against
records the harness made itself (bytes every tensor was *built from*), against ``os.stat`` of the
data files and the recorded location/offset/length, and against the identity of every
``value.const_value`` captured before the call - also when the call raised (raising tensors,
raising callbacks, failing ``onnx.save``).
"""

from __future__ import annotations

import copy
import logging
import os
import shutil
import tempfile
import traceback
from collections import Counter
from typing import Any

import onnx_ir as ir

from vfpy import c07_gen as gen
from vfpy.ctx import stable_hash
from vfpy.shrink import ddmin

ID = "C07"
LEVEL = "exploration"
RULE = (
    "a case is one generated (model spec, save configuration): 1-24 initializers of kinds "
    "{array, Fortran-order array, lazy, cached lazy, packed, proto raw/typed, external in the target "
    "file, external elsewhere, shared object under two names, string below threshold, zero-size} over 25 "
    "dtypes in main graph / If branches / GRAPHS attribute / nested If, crossed with backend, threshold, "
    "alignment, align_threshold, shard limit, workers, in-flight budget, callback, destination naming, "
    "optional re-save of the loaded model (only after a clean first round trip; safetensors -> safetensors "
    "re-saves mostly steered so that both saves give the same >= 2 shard file names while a tensor must change "
    "file - limit or threshold moved, boundary earlier or later); non-trivial = save returned, the model was reloaded and at "
    "least one initializer was compared through an external byte range; distinct by hash of (spec, cfg)"
)
ASSUMPTIONS = [
    "onnx.load/onnx.save (protobuf/textproto) and the safetensors writer are trusted third parties",
    "expected bytes are the byte strings the harness built each tensor from (own sub-byte packer); "
    "numpy's frombuffer/tobytes are trusted for that construction",
    "declaration order = pre-order of the harness' own DFS (main graph initializers, then subgraphs in "
    "node/attribute order), which is the order of the serialized proto",
    "safetensors backend: byte-range *order* inside a file and nbytes==threshold placement are "
    "report-only (the third-party writer sorts tensors; the backend documents 'not smaller than'); "
    "its shard limit is judged on payload bytes (header excluded)",
    "documented FileExistsError of the sharded raw writer on a pre-existing destination is a legal raise",
    "STRING tensors only below the threshold; safetensors cases use its dtype table and unique names",
    "one root cause per initializer: a tensor on the wrong side of the threshold, or an already-external "
    "tensor left at its old range whose bytes the save overwrote, is reported once and its bytes/layout "
    "are not judged further; the violation signature is read off a delta-debugged minimal witness "
    "(clause + backend + the non-plain properties of the remaining initializers)",
]

logging.getLogger("onnx_ir").setLevel(logging.ERROR)  # "oversized shard" warnings are not observations

DEFAULT_ALIGN_THRESHOLD = 1048576  # documented default of align_threshold
DEFAULT_THRESHOLD = 256            # documented default of size_threshold_bytes


def plan(tier: str) -> dict:
    quick = tier == "quick"
    # floors: what ~350 (quick) / ~5 000 (thorough) cases reach, i.e. well below an idle run
    # (6400 / 100 000 cases) so that shards cut short by the time budget on a loaded machine
    # still pass them, while a run whose deciding monitors never fired does not
    f = 1 if quick else 15
    return {
        "cases": 6400 if quick else 100000,
        "shards": 16,
        "budget_s": 40 if quick else 480,
        "floors": {
            "saves_returned": 350 * f,
            "initializers_compared": 2400 * f,
            "external_compared": 1200 * f,
            "inline_compared": 900 * f,
            "subgraph_initializers_compared": 700 * f,
            "identity_checked_after_return": 2400 * f,
            "identity_checked_after_raise": 500 * f,
            "identity_after_late_raise_cases": 8 * f,
            "alignment_required_checks": 200 * f,
            "dense_placement_checks": 600 * f,
            "shard_limit_checks": 90 * f,
            "oversized_single_tensor_shards": 150 * f,
            "threshold_boundary_initializers": 130 * f,
            "parallel_writer_saves": 80 * f,
            "resaves_returned": 50 * f,
            "backend_st_saves_returned": 90 * f,
            # in-place saves observed to move tensors between data files whose names were kept
            "inplace_saves_moving_tensors_between_kept_data_files": 8 * f,
            "inplace_saves_moving_a_tensor_to_a_later_kept_file": 2 * f,
            "inplace_saves_moving_a_tensor_to_an_earlier_kept_file": 3 * f,
        },
        "min_nontrivial": 220 * f,
        "params": {},
    }


# ------------------------------------------------------------------------------------------
# one case
# ------------------------------------------------------------------------------------------
class V:
    """One observed violation before shrinking."""

    def __init__(self, clause: str, message: str, focus: list[int] | None = None, stage: int = 0,
                 fixed: bool = False) -> None:
        self.clause, self.message, self.focus, self.stage = clause, message, focus or [], stage
        self.fixed = fixed   # the clause already names the mechanism from structural facts: no shrinking


def _site(exc: BaseException) -> str:
    """Innermost onnx_ir function of the root cause (localisation for the signature)."""
    root = exc
    seen = set()
    while id(root) not in seen:
        seen.add(id(root))
        nxt = root.__cause__ or (root.__context__ if not root.__suppress_context__ else None)
        if nxt is None:
            break
        root = nxt
    site = "?"
    for fs, _ in traceback.walk_tb(root.__traceback__):
        fn = fs.f_code.co_filename.replace("\\", "/")
        if "/onnx_ir/" in fn:
            site = getattr(fs.f_code, "co_qualname", fs.f_code.co_name)
    return f"{type(root).__name__} in {site}"


def _chain_has(exc: BaseException, types: tuple) -> bool:
    seen = set()
    stack = [exc]
    while stack:
        e = stack.pop()
        if e is None or id(e) in seen:
            continue
        seen.add(id(e))
        if isinstance(e, types):
            return True
        stack.extend([e.__cause__, e.__context__])
        if isinstance(e, BaseExceptionGroup):
            stack.extend(e.exceptions)
    return False


def _snapshot_files(root: str) -> dict[str, tuple[int, int, int]]:
    out = {}
    for d, _, files in os.walk(root):
        for f in files:
            p = os.path.join(d, f)
            try:
                st = os.stat(p)
            except OSError:
                continue
            out[p] = (st.st_ino, st.st_size, st.st_mtime_ns)
    return out


class Step:
    """One save (+load+judge) of a model under one configuration."""

    def __init__(self, stage: int, backend: str, opts: dict, ext_rel: str | None, cfg: dict) -> None:
        self.stage, self.backend, self.opts, self.ext_rel, self.cfg = stage, backend, dict(opts), ext_rel, cfg


def run_case(spec: dict, cfg: dict, root: str, counters: Counter | None = None) -> tuple[list[V], dict]:
    """Execute one case in a fresh directory under ``root``; returns violations and facts."""
    c = counters if counters is not None else Counter()
    viols: list[V] = []
    facts = {"nontrivial": False}
    case_dir = tempfile.mkdtemp(prefix="case", dir=root)
    old_cwd = os.getcwd()
    try:
        model_rel = cfg["model_rel"]
        base_abs = os.path.join(case_dir, os.path.dirname(model_rel))
        os.makedirs(base_abs, exist_ok=True)
        if cfg.get("cwd"):
            os.chdir(base_abs)
            base_dir, model_path = "", os.path.basename(model_rel)
        else:
            base_dir, model_path = base_abs, os.path.join(case_dir, model_rel)
        built = gen.build(spec, cfg, base_dir)
        step = Step(0, cfg["backend"], cfg["opts"], cfg.get("ext_rel"), cfg)
        loaded = _do_step(step, built.model, built.expected, model_path, base_abs, case_dir, c, viols, facts)
        re = cfg.get("resave")
        if loaded is not None and re and viols:
            c["resaves_skipped_first_round_trip_not_clean"] += 1
        elif loaded is not None and re:
            if re["backend"] == "raw":
                ext2 = (cfg.get("ext_rel") or "re.data") if re.get("same_ext") else "re/second.data"
            else:
                ext2 = None
            c["resaves_attempted"] += 1
            if re.get("fresh", True):
                # the usual load -> save: none of the external tensors has been memory-mapped yet (the
                # model compared above has, which keeps old file contents alive through its mappings)
                loaded = ir.load(model_path)
                c["resaves_of_freshly_loaded_model"] += 1
            step2 = Step(1, re["backend"], re["opts"], ext2, dict(cfg, callback=None, invalid=None, fail=None))
            again = _do_step(step2, loaded, built.expected, model_path, base_abs, case_dir, c, viols, facts)
            if again is not None:
                c["resaves_returned"] += 1
    finally:
        os.chdir(old_cwd)
        shutil.rmtree(case_dir, ignore_errors=True)
    return viols, facts


def _filter_opts(backend: str, opts: dict) -> dict:
    if backend == "raw":
        return dict(opts)
    return {k: v for k, v in opts.items() if k in ("size_threshold_bytes", "max_shard_size_bytes", "format")}


def _do_step(step: Step, model, expected: list[dict], model_path: str, base_abs: str, case_dir: str,
             c: Counter, viols: list[V], facts: dict):
    cfg, stage, backend = step.cfg, step.stage, step.backend
    opts = _filter_opts(backend, step.opts)
    thr = opts.get("size_threshold_bytes", DEFAULT_THRESHOLD)
    by_key = {(r["g"], r["name"]): r for r in expected}
    kwargs: dict[str, Any] = dict(opts)
    calls: list = []
    cb = cfg.get("callback")
    if cb == "record":
        kwargs["callback"] = lambda tensor, info: calls.append((tensor.name, info.offset, info.filename))
    elif isinstance(cb, dict):
        def raising_cb(tensor, info, cb=cb):
            calls.append((tensor.name, info.offset, info.filename))
            if len(calls) - 1 == cb["raise_at"]:
                raise (gen.InjectedBase if cb.get("base") else gen.Injected)("callback refuses")
        kwargs["callback"] = raising_cb
    ext_rel = step.ext_rel
    if backend == "raw":
        os.makedirs(os.path.join(base_abs, os.path.dirname(ext_rel)), exist_ok=True)
        kwargs["external_data"] = ext_rel
    invalid = cfg.get("invalid")
    if invalid:
        key, value = invalid
        kwargs[key] = os.path.join(base_abs, "abs.data") if value == "ABS" else value
    if cfg.get("fail") == "path_is_dir":
        os.makedirs(os.path.join(base_abs, os.path.basename(model_path)), exist_ok=True)

    before = [(p, n, v, v.const_value) for p, n, v in gen.walk_initializers(model)]
    files_before = _snapshot_files(case_dir)
    c[f"saves_attempted_{backend}"] += 1
    workers = opts.get("max_workers")
    raised: BaseException | None = None
    try:
        if backend == "raw":
            ir.save(model, model_path, **kwargs)
        else:
            ir.save_safetensors(model, model_path, **kwargs)
    except BaseException as exc:  # noqa: BLE001 - the property quantifies over raising saves too
        if isinstance(exc, (MemoryError,)):
            raise
        raised = exc

    # ---- which data files that backed external tensors of the model did this call rewrite? ------
    files_now = _snapshot_files(case_dir)
    rewritten = {os.path.normpath(p) for p, sig in files_now.items() if files_before.get(p) != sig}
    rewritten |= {os.path.normpath(p) for p in files_before if p not in files_now}
    source_rewritten = set()
    for p, n, _, t0 in before:
        if isinstance(t0, ir.ExternalTensor) and \
                os.path.normpath(os.path.join(base_abs, os.fspath(t0.location))) in rewritten:
            source_rewritten.add((p, n))
    INPLACE = "in-place: a data file still backing external tensors of the model was rewritten"

    # ---- identity of the tensor objects held by the model, returned or raised ---------------
    after = gen.walk_initializers(model)
    how = "raised" if raised is not None else "returned"
    if [(p, n, id(v)) for p, n, v in after] != [(p, n, id(v)) for p, n, v, _ in before]:
        viols.append(V(f"identity:set of initializers changed after save {how}",
                       f"initializers before={[(p, n) for p, n, _, _ in before]} after={[(p, n) for p, n, _ in after]}",
                       [], stage))
    for p, n, v, t in before:
        c[f"identity_checked_after_{'raise' if raised is not None else 'return'}"] += 1
        if v.const_value is not t:
            rec = by_key.get((p, n))
            viols.append(V(f"identity:const_value replaced after save {how}",
                           f"initializer {p!r}/{n!r}: const_value was {t!r} before the call and is "
                           f"{v.const_value!r} afterwards (save {how}: {raised!r})",
                           [rec["uid"]] if rec else [], stage))

    if raised is not None:
        reason = None
        if invalid:
            reason = "invalid_option"
        elif cfg.get("fail"):
            reason = "onnx_save_made_to_fail"
        elif _chain_has(raised, (gen.Injected, gen.InjectedBase)):
            reason = "injected_tensor_or_callback"
        elif isinstance(raised, FileExistsError) and backend == "raw" and "max_shard_size_bytes" in opts and any(
                p in str(raised) or os.path.relpath(p, base_abs) in str(raised) for p in files_before):
            reason = "documented_FileExistsError_sharded"
        if reason is None:
            # structural naming only when the failure is a *read* of an external tensor after one of the
            # files backing the model's external tensors had already been rewritten by this very call
            inplace = bool(source_rewritten) and " in ExternalTensor." in _site(raised)
            viols.append(V(f"save:raised {_site(raised)}" + (f"|{INPLACE} before all were read" if inplace else ""),
                           f"{'ir.save' if backend == 'raw' else 'ir.save_safetensors'} raised on a legal "
                           f"configuration: {type(raised).__name__}: {str(raised)[:300]}"
                           + (f"; rewritten before the failure: files of {sorted(source_rewritten)[:4]}" if inplace else ""),
                           [], stage, fixed=inplace))
            c["saves_raised_unexpectedly"] += 1
        else:
            c[f"saves_raised_expected:{reason}"] += 1
            late = reason == "onnx_save_made_to_fail" or (invalid and invalid[0] == "format") or (
                reason == "injected_tensor_or_callback" and any(
                    r.get("raise") and r["nbytes"] <= thr for r in expected))
            if late:
                c["identity_after_late_raise_cases"] += 1
        return None

    c["saves_returned"] += 1
    c[f"backend_{backend}_saves_returned"] += 1
    if workers is not None and workers > 1:
        c["parallel_writer_saves"] += 1
    if calls:
        c["callback_invocations"] += len(calls)
    if any(r.get("raise") for r in expected):
        c["report_only_save_returned_although_a_tensor_raises"] += 1

    # ---- reload ------------------------------------------------------------------------------
    try:
        m2 = ir.load(model_path)
        got = {(p, n): v for p, n, v in gen.walk_initializers(m2)}
    except BaseException as exc:  # noqa: BLE001
        viols.append(V(f"load:raised {_site(exc)}", f"ir.load raised {type(exc).__name__}: {str(exc)[:300]}",
                       [], stage))
        return None
    order_got = [k for k in got]
    if order_got != [(r["g"], r["name"]) for r in expected]:
        if sorted(order_got) == sorted((r["g"], r["name"]) for r in expected):
            c["report_only_loaded_initializer_order_differs"] += 1
    for k in got:
        if k not in by_key:
            viols.append(V("compare:unexpected initializer after load", f"{k!r} not in the original model", [], stage))

    prev_pos = {}   # where an initializer that was already external lived before this save
    for p, n, _, t0 in before:
        if isinstance(t0, ir.ExternalTensor):
            prev_pos[(p, n)] = (os.path.normpath(os.fspath(t0.location)), t0.offset, t0.length)
    entries = []  # external initializers in declaration order
    all_locs = {os.path.normpath(os.fspath(v.const_value.location)) for v in got.values()
                if isinstance(v.const_value, ir.ExternalTensor)}
    for idx, rec in enumerate(expected):
        key = (rec["g"], rec["name"])
        uid = [rec["uid"]]
        if rec.get("raise"):
            continue
        value = got.get(key)
        if value is None:
            viols.append(V("compare:initializer missing after load", f"{key!r} missing", uid, stage))
            continue
        t = value.const_value
        if t is None:
            viols.append(V("compare:initializer has no tensor after load", f"{key!r}", uid, stage))
            continue
        c["initializers_compared"] += 1
        c[f"kind_{rec['kind']}"] += 1
        c[f"dtypeclass_{gen.dtype_class(rec['dtype'])}"] += 1
        if rec["g"]:
            c["subgraph_initializers_compared"] += 1
        if t.dtype.name != rec["dtype"]:
            viols.append(V("compare:dtype differs", f"{key!r}: {t.dtype.name} != {rec['dtype']}", uid, stage))
        try:
            shape = [int(d) for d in t.shape.numpy()]
        except Exception as exc:  # noqa: BLE001
            shape = f"<{type(exc).__name__}>"
        if shape != rec["shape"]:
            viols.append(V("compare:shape differs", f"{key!r}: {shape} != {rec['shape']}", uid, stage))
        is_ext = isinstance(t, ir.ExternalTensor)
        nb = rec["nbytes"]
        unmoved = is_ext and prev_pos.get(key) == (os.path.normpath(os.fspath(t.location)), t.offset, t.length)
        # placement against the threshold
        misplaced = False
        if nb == thr:
            c["threshold_boundary_initializers"] += 1
        if rec["dtype"] == "STRING":
            if is_ext:
                viols.append(V("placement:STRING tensor external", f"{key!r}", uid, stage))
        elif nb > thr and not is_ext:
            viols.append(V("placement:inline although above the threshold",
                           f"{key!r}: {nb} bytes > size_threshold_bytes={thr} but loaded as {type(t).__name__}",
                           uid, stage))
            misplaced = True
        elif nb <= thr and is_ext:
            if backend == "st" and nb == thr:
                c["report_only_st_external_at_exact_threshold"] += 1
            else:
                viols.append(V("placement:already-external tensor not above the threshold left external at its old range"
                               if unmoved else "placement:external although not above the threshold",
                               f"{key!r}: {nb} bytes <= size_threshold_bytes={thr} but loaded external "
                               f"(location={os.fspath(t.location)!r} offset={t.offset} length={t.length})",
                               uid, stage))
                misplaced = True
        if misplaced:
            # one root cause per initializer: where a tensor that should not be there points to is
            # not judged further (counted instead); if it was written into a data file by this save it
            # still occupies its range there, so that its neighbours are not blamed for a gap
            c["checks_skipped_for_misplaced_initializers"] += 1
            if is_ext and not unmoved:
                entries.append({"rec": rec, "loc": os.path.normpath(os.fspath(t.location)), "off": t.offset,
                                "len": t.length, "occupies_only": True})
            continue
        # bytes through the loaded tensor
        if rec["dtype"] == "STRING":
            try:
                sd = [bytes(x) for x in t.string_data()]
            except BaseException as exc:  # noqa: BLE001
                viols.append(V(f"readback:{_site(exc)}", f"{key!r}: string_data() raised {exc!r}", uid, stage))
            else:
                if sd != rec["strings"]:
                    viols.append(V("compare:strings differ", f"{key!r}: {sd[:4]} != {rec['strings'][:4]}", uid, stage))
            c["inline_compared"] += 1
            continue
        problems: list[V] = []
        try:
            data = bytes(t.tobytes())
        except BaseException as exc:  # noqa: BLE001
            problems.append(V(f"readback:{_site(exc)}|{type(t).__name__}.tobytes",
                              f"{key!r} ({rec['dtype']}{rec['shape']}, {type(t).__name__}"
                              f"{' offset=%s length=%s' % (t.offset, t.length) if is_ext else ''}): tobytes() raised "
                              f"{type(exc).__name__}: {str(exc)[:200]}", uid, stage))
            data = None
        if data is not None and data != rec["bytes"]:
            problems.append(V("compare:bytes differ" + ("|external" if is_ext else "|inline"),
                              f"{key!r} ({rec['dtype']}{rec['shape']}): {len(data)} bytes read, {len(rec['bytes'])} "
                              f"expected; first difference at {_first_diff(data, rec['bytes'])}", uid, stage))
        if not is_ext:
            viols.extend(problems)
            c["inline_compared"] += 1
            continue
        c["external_compared"] += 1
        facts["nontrivial"] = True
        loc = os.path.normpath(os.fspath(t.location))
        # bytes on disk through the harness' own reader
        off = t.offset or 0
        ln = t.length if t.length is not None else nb
        try:
            with open(os.path.join(base_abs, loc), "rb") as f:
                f.seek(off)
                disk = f.read(ln)
        except OSError as exc:
            problems.append(V("layout:data file unreadable", f"{key!r}: {loc!r}: {exc!r}", uid, stage))
            disk = None
        if disk is not None and disk != rec["bytes"]:
            problems.append(V("disk:bytes at recorded range differ",
                              f"{key!r}: file {loc!r} offset={off} length={ln}: {len(disk)} bytes read, first "
                              f"difference at {_first_diff(disk, rec['bytes'])}", uid, stage))
        data_gone = any(q.clause.startswith(("disk:", "layout:data file unreadable")) for q in problems) or len(disk or b"") < ln
        if problems and unmoved and data_gone:
            # one root cause: the tensor was not migrated and what it points at was overwritten
            viols.append(V("stale:already-external tensor still at its old range whose data this save overwrote",
                           f"{key!r}: still location={loc!r} offset={t.offset} length={t.length} as before the "
                           f"save; observed: {problems[0].message[:300]}", uid, stage))
            c["checks_skipped_for_stale_initializers"] += 1
            continue
        if problems and key in source_rewritten and data_gone:
            viols.append(V(f"inplace:bytes of an already-external tensor lost|{INPLACE}",
                           f"{key!r}: was at {prev_pos.get(key)} before the save, a file this save rewrote; now "
                           f"location={loc!r} offset={t.offset} length={t.length}; observed: {problems[0].message[:300]}",
                           uid, stage, fixed=True))
            c["checks_skipped_for_stale_initializers"] += 1
            continue
        viols.extend(problems)
        entries.append({"rec": rec, "loc": loc, "off": t.offset, "len": t.length})

    # ---- observed shape of an in-place save: did tensors change between data files that both existed
    # before the call, still backed the model and exist (rewritten) afterwards?  (observation only) -----
    kept = {os.path.normpath(os.path.relpath(p, base_abs)) for p in files_before
            if p in files_now and os.path.normpath(p) in rewritten}
    later = earlier = 0
    for key, (loc0, _, _) in prev_pos.items():
        value = got.get(key)
        t = value.const_value if value is not None else None
        if isinstance(t, ir.ExternalTensor):
            loc1 = os.path.normpath(os.fspath(t.location))
            if loc1 != loc0 and loc0 in kept and loc1 in kept:
                later += loc1 > loc0
                earlier += loc1 < loc0
    if later or earlier:
        c["inplace_saves_moving_tensors_between_kept_data_files"] += 1
        c["inplace_tensors_moved_to_a_later_kept_file"] += later
        c["inplace_tensors_moved_to_an_earlier_kept_file"] += earlier
        if later:
            c["inplace_saves_moving_a_tensor_to_a_later_kept_file"] += 1
        if earlier:
            c["inplace_saves_moving_a_tensor_to_an_earlier_kept_file"] += 1

    _check_layout(step, opts, entries, all_locs, base_abs, case_dir, model_path, files_before, c, viols)
    return m2


def _first_diff(a: bytes, b: bytes) -> int:
    for i, (x, y) in enumerate(zip(a, b)):
        if x != y:
            return i
    return min(len(a), len(b))


def _check_layout(step: Step, opts: dict, entries: list[dict], all_locs: set, base_abs: str, case_dir: str, model_path: str,
                  files_before: dict, c: Counter, viols: list[V]) -> None:
    stage, backend = step.stage, step.backend
    files_after = _snapshot_files(case_dir)
    written = {p for p, sig in files_after.items() if files_before.get(p) != sig}
    by_file: dict[str, list[dict]] = {}
    for e in entries:
        by_file.setdefault(e["loc"], []).append(e)
    align = opts.get("alignment") if backend == "raw" else None
    athr = opts.get("align_threshold", DEFAULT_ALIGN_THRESHOLD)
    limit = opts.get("max_shard_size_bytes")
    referenced = {os.path.normpath(os.path.join(base_abs, loc)) for loc in all_locs}
    judged_files = 0
    for loc, ents in by_file.items():
        path = os.path.join(base_abs, loc)
        referenced.add(os.path.normpath(path))
        try:
            size = os.stat(path).st_size
        except OSError:
            viols.append(V("layout:data file missing", f"{loc!r} named by {len(ents)} tensors does not exist",
                           [e["rec"]["uid"] for e in ents[:1]], stage))
            continue
        if os.path.normpath(path) not in {os.path.normpath(p) for p in written}:
            c["report_only_tensor_left_in_file_not_written_by_this_save"] += len(ents)
            continue
        judged_files += 1
        c["data_files_checked"] += 1
        prev_end, prev_off = 0, 0
        ranges = []
        for i, e in enumerate(ents):
            rec = e["rec"]
            uid = [rec["uid"]]
            if e.get("occupies_only"):
                o = e["off"] or 0
                prev_off, prev_end = o, max(prev_end, o + (e["len"] if e["len"] is not None else rec["nbytes"]))
                continue
            c["ranges_checked"] += 1
            if e["off"] is None or e["len"] is None:
                c["report_only_offset_or_length_not_recorded"] += 1
            off = e["off"] or 0
            ln = e["len"] if e["len"] is not None else rec["nbytes"]
            if ln != rec["nbytes"]:
                viols.append(V("layout:recorded length differs from tensor size",
                               f"{rec['name']!r}: length={ln}, tensor has {rec['nbytes']} bytes", uid, stage))
            if off + ln > size:
                viols.append(V("layout:range outside the file",
                               f"{rec['name']!r}: offset={off} length={ln} but {loc!r} has {size} bytes", uid, stage))
            ranges.append((off, off + ln, rec))
            if backend == "raw":
                if i and off < prev_off:
                    viols.append(V("layout:ranges not in declaration order",
                                   f"{rec['name']!r} declared after {ents[i - 1]['rec']['name']!r} but offset {off} < {prev_off} "
                                   f"in {loc!r}", uid + [ents[i - 1]["rec"]["uid"]], stage))
                if align is not None and rec["nbytes"] > athr:
                    c["alignment_required_checks"] += 1
                    if off % align:
                        viols.append(V("layout:offset not aligned as requested",
                                       f"{rec['name']!r}: {rec['nbytes']} bytes > align_threshold={athr}, "
                                       f"alignment={align}, offset={off} (previous end {prev_end})", uid, stage))
                    elif off % max(4096, align):
                        c["report_only_offset_not_multiple_of_documented_max_4096_alignment"] += 1
                    elif off - prev_end >= max(4096, align):
                        c["report_only_more_padding_than_needed"] += 1
                else:
                    c["dense_placement_checks"] += 1
                    if off != prev_end and off >= prev_end:
                        what = ("layout:gap before tensor although no alignment was requested" if align is None
                                else "layout:padding before tensor not above align_threshold")
                        viols.append(V(what, f"{rec['name']!r}: {rec['nbytes']} bytes, alignment={align}, "
                                             f"align_threshold={athr}: offset={off}, previous range ends at {prev_end}",
                                       uid, stage))
            else:
                if i and off < prev_off:
                    c["report_only_st_ranges_not_in_declaration_order"] += 1
            prev_off, prev_end = off, max(prev_end, off + ln)
        # pairwise overlap of non-empty ranges, whatever the order
        pos = sorted((r for r in ranges if r[1] > r[0]), key=lambda r: (r[0], r[1]))
        for a, b in zip(pos, pos[1:]):
            if b[0] < a[1]:
                viols.append(V("layout:byte ranges overlap",
                               f"{a[2]['name']!r} [{a[0]},{a[1]}) and {b[2]['name']!r} [{b[0]},{b[1]}) in {loc!r}",
                               [a[2]["uid"], b[2]["uid"]], stage))
        if ranges and size > max(r[1] for r in ranges) and backend == "raw":
            c["report_only_trailing_bytes_after_last_range"] += 1
        if limit is not None:
            measure = size if backend == "raw" else sum(r[1] - r[0] for r in ranges)
            holding = sum(1 for r in ranges if r[1] > r[0])
            if len(ranges) >= 2 and holding < 2 and measure > limit:
                c["report_only_oversized_shard_also_lists_zero_size_tensors"] += 1
            if holding >= 2:
                c["shard_limit_checks"] += 1
                if measure > limit:
                    viols.append(V("shards:shard above the limit holds several tensors",
                                   f"{loc!r}: {measure} bytes > max_shard_size_bytes={limit} with {len(ents)} tensors "
                                   f"{[(r[2]['name'], r[0], r[1] - r[0]) for r in ranges][:8]}",
                                   [r[2]["uid"] for r in ranges], stage))
            elif measure > limit:
                c["oversized_single_tensor_shards"] += 1
    if len(by_file) > 1:
        c["multi_shard_saves"] += 1
        if limit is None:
            c["report_only_several_data_files_without_shard_limit"] += 1
    # every written data file must be referenced (a tensor written into a second shard would show here)
    model_abs = os.path.normpath(os.path.join(base_abs, os.path.basename(model_path)))
    for p in sorted(written):
        pn = os.path.normpath(p)
        if pn == model_abs or pn in referenced or pn.endswith(".index.json"):
            continue
        if files_after[p][1] > 0:
            viols.append(V("shards:data file written but referenced by no tensor",
                           f"{os.path.relpath(p, case_dir)!r} ({files_after[p][1]} bytes) was written by this save; "
                           f"referenced files: {sorted(by_file)}", [], stage))
        else:
            c["report_only_empty_unreferenced_file_written"] += 1


# ------------------------------------------------------------------------------------------
# shrinking to a mechanism signature
# ------------------------------------------------------------------------------------------
def _clauses(spec, cfg, root) -> set[str]:
    try:
        viols, _ = run_case(copy.deepcopy(spec), copy.deepcopy(cfg), root)
    except Exception:  # noqa: BLE001 - a candidate the builder cannot construct is simply not a witness
        return set()
    return {v.clause for v in viols}


KIND_FAMILY = {"array": "array", "array_f": "array", "lazy": "lazy", "lazy_cache": "lazy", "packed": "packed",
               "proto_raw": "proto", "proto_typed": "proto", "ext_same": "already-external",
               "ext_other": "already-external", "string": "string"}


def minimise(spec: dict, cfg: dict, v: V, root: str, max_tests: int = 160) -> tuple[dict, dict, int]:
    """Greedy reduction that keeps the violated clause: fewer initializers (ddmin), plainer
    initializers (main graph, own object, named like the value, array, FLOAT, 3 elements), then the
    default configuration.  The signature is read off the result."""
    spec, cfg = copy.deepcopy(spec), copy.deepcopy(cfg)
    tests = 0

    def still(s, k) -> bool:
        nonlocal tests
        if tests >= max_tests:
            return False
        tests += 1
        return v.clause in _clauses(s, k, root)

    def attempt(mut) -> bool:
        nonlocal spec, cfg
        s, k = copy.deepcopy(spec), copy.deepcopy(cfg)
        if mut(s, k) is False:
            return False
        gen.normalise(s, k)
        if (s, k) == (spec, cfg):
            return False
        if still(s, k):
            spec, cfg = s, k
            return True
        return False

    if v.stage == 0 and cfg.get("resave"):
        attempt(lambda s, k: k.update(resave=None))
    attempt(lambda s, k: k.update(callback=None) if k.get("callback") else False)

    def fewer_initializers() -> None:
        # the focus alone, else delta debugging over the list
        if v.focus and len(spec["inits"]) > len(v.focus):
            attempt(lambda s, k: s.update(inits=[i for i in s["inits"] if i["uid"] in v.focus]))
        if len(spec["inits"]) > 1:
            def fails(sub: list) -> bool:
                s = dict(spec, inits=copy.deepcopy(sub))
                k = copy.deepcopy(cfg)
                gen.normalise(s, k)
                return still(s, k)
            kept = ddmin(spec["inits"], fails, max_tests=40)
            if len(kept) < len(spec["inits"]):
                spec["inits"] = copy.deepcopy(kept)
                gen.normalise(spec, cfg)

    def plainer_initializers() -> None:
        for idx in range(len(spec["inits"])):
            def setf(**kw):
                def mut(s, k):
                    tgt = s["inits"][idx]
                    for o in s["inits"]:
                        if o["obj"] == tgt["obj"]:
                            o.update(kw)
                return mut
            cur = spec["inits"][idx]
            if cur["g"]:
                attempt(lambda s, k: s["inits"][idx].update(g=""))
            if sum(1 for o in spec["inits"] if o["obj"] == cur["obj"]) > 1:
                attempt(lambda s, k: s["inits"][idx].update(obj=s["inits"][idx]["uid"] + 1000))
            if cur["kind"] != "string":
                if cur.get("tname", "same") != "same":
                    attempt(setf(tname="same"))
                if cur["kind"] != "array" or cur.get("raise"):
                    attempt(setf(**{"kind": "array", "raise": None}))
                zero = gen.nelem(spec["inits"][idx]["shape"]) == 0
                if not attempt(setf(shape=[3], dtype="FLOAT")) and not attempt(setf(shape=[1], dtype="FLOAT")):
                    if not attempt(setf(shape=[3])) and zero:
                        attempt(setf(shape=[0]))
                    if spec["inits"][idx]["dtype"] != "FLOAT" and not attempt(setf(dtype="FLOAT")):
                        rep = {"2-bit": "UINT2", "4-bit": "UINT4"}.get(gen.dtype_class(spec["inits"][idx]["dtype"]))
                        if rep and rep != spec["inits"][idx]["dtype"]:
                            attempt(setf(dtype=rep))
            attempt(lambda s, k: s["inits"][idx].update(also_input=False, typed=False))

    def default_configuration() -> None:
        # canonical values first (0 / huge threshold, one tensor per shard) so that the
        # initializers can then be made plain without leaving the failing region
        if not attempt(lambda s, k: k["opts"].update(size_threshold_bytes=0)) and \
                cfg["opts"].get("size_threshold_bytes") not in (0, 1 << 40):
            attempt(lambda s, k: k["opts"].update(size_threshold_bytes=1 << 40))
        if cfg["opts"].get("max_shard_size_bytes") not in (None, 1):
            attempt(lambda s, k: k["opts"].update(max_shard_size_bytes=1))
        if cfg.get("resave"):
            ro = cfg["resave"]["opts"]
            if ro.get("size_threshold_bytes") not in (0, 1 << 40):
                if not attempt(lambda s, k: k["resave"]["opts"].update(size_threshold_bytes=0)):
                    attempt(lambda s, k: k["resave"]["opts"].update(size_threshold_bytes=1 << 40))
            if ro.get("max_shard_size_bytes") not in (None, 1):
                attempt(lambda s, k: k["resave"]["opts"].update(max_shard_size_bytes=1))
        if cfg["backend"] == "st":
            attempt(lambda s, k: k.update(backend="raw", ext_rel="m.data"))
        if cfg.get("resave") and cfg["resave"]["backend"] == "st":
            attempt(lambda s, k: k["resave"].update(backend="raw"))
        for key in sorted(cfg["opts"]):
            if key != "size_threshold_bytes":
                attempt(lambda s, k, key=key: k["opts"].pop(key, None))
        attempt(lambda s, k: k.update(cwd=False))
        attempt(lambda s, k: k.update(model_rel="m.onnx"))
        if cfg["backend"] == "raw":
            attempt(lambda s, k: k.update(ext_rel="m.data"))
        if cfg.get("resave"):
            for key in sorted(cfg["resave"]["opts"]):
                if key != "size_threshold_bytes":
                    attempt(lambda s, k, key=key: k["resave"]["opts"].pop(key, None))
            attempt(lambda s, k: k["resave"].update(same_ext=True))

    for _ in range(3):   # passes enable each other; attempts that change nothing cost no test
        snapshot = (copy.deepcopy(spec), copy.deepcopy(cfg))
        fewer_initializers()
        default_configuration()
        plainer_initializers()
        if snapshot == (spec, cfg):
            break
    attempt(lambda s, k: s.update(graphs=[""]) if all(i["g"] == "" for i in s["inits"]) else False)
    return spec, cfg, tests


def features(spec: dict, cfg: dict, v: V) -> str:
    """Mechanism part of the signature: the backend and the properties of the initializers of the
    minimal witness that could not be made plain.  No names, sizes, option values or counts."""
    f: list[str] = []
    st_involved = cfg["backend"] == "st" or (v.stage == 1 and cfg.get("resave") and cfg["resave"]["backend"] == "st")
    if st_involved:
        f.append("backend=safetensors")
    inits = spec["inits"]
    per = set()
    for s in inits:
        p = []
        fam = KIND_FAMILY.get(s["kind"], s["kind"])
        if fam != "array":
            p.append(f"kind={fam}")
        if s["dtype"] not in ("FLOAT", "STRING"):
            p.append(f"dtype={gen.dtype_class(s['dtype'])}")
        if gen.effective_tname(s, inits) != "same":
            p.append(f"tname={gen.effective_tname(s, inits)}")
        if s["kind"] != "string" and gen.nelem(s["shape"]) == 0:
            p.append("zero-size")
        if s["g"]:
            p.append("subgraph")
        if sum(1 for o in inits if o["obj"] == s["obj"]) > 1:
            p.append("shared-object")
        if s.get("also_input"):
            p.append("also-input")
        if s.get("raise"):
            p.append("raising")
        if p:
            per.add(",".join(p))
    f.extend(sorted(per))
    return "|".join(f)


# ------------------------------------------------------------------------------------------
# shard entry points
# ------------------------------------------------------------------------------------------
def _gen_case(rng, tier: str) -> tuple[dict, dict]:
    backend = "raw" if rng.random() < 0.72 else "st"
    spec = gen.gen_model_spec(rng, backend, tier)
    cfg = gen.gen_config(rng, spec, backend)
    gen.normalise(spec, cfg)
    # most safetensors -> safetensors re-saves are steered to the in-place shape "same shard file
    # names, another distribution of the tensors over them" (random limits almost never meet it)
    if cfg.get("resave") and rng.random() < 0.8 and gen.steer_inplace_repartition(rng, spec, cfg):
        cfg["steered"] = "inplace_repartition"
        gen.normalise(spec, cfg)
    return spec, cfg


def _pre_signature(spec: dict, cfg: dict, v: V) -> tuple:
    """Cheap class of a violation before shrinking (clause + coarse features of the blamed
    initializers); one shrink per class and shard, one report per class and case."""
    def coarse(s: dict) -> tuple:
        dc = gen.dtype_class(s["dtype"])
        return (KIND_FAMILY[s["kind"]], dc if dc in ("2-bit", "4-bit", "FLOAT8E8M0", "STRING") else "other",
                gen.effective_tname(s, spec["inits"]), s["kind"] != "string" and gen.nelem(s["shape"]) == 0,
                sum(1 for o in spec["inits"] if o["obj"] == s["obj"]) > 1)

    focus = [s for s in spec["inits"] if s["uid"] in v.focus]
    if focus:
        about = tuple(sorted(coarse(s) for s in focus))
    else:  # no initializer to blame: summarise what the case contains that is not plain
        allc = [coarse(s) for s in spec["inits"]]
        about = ("case", any(x[0] == "already-external" for x in allc), any(x[1] == "2-bit" for x in allc),
                 any(x[1] == "FLOAT8E8M0" for x in allc), tuple(sorted({x[2] for x in allc})),
                 any(x[3] for x in allc), any(x[4] for x in allc))
    return (v.clause, cfg["backend"], v.stage, (cfg.get("resave") or {}).get("backend") if v.stage else None, about)


def _report(ctx, spec, cfg, v: V, root: str, cache: dict) -> None:
    if v.fixed:
        backend = cfg["resave"]["backend"] if v.stage == 1 and cfg.get("resave") else cfg["backend"]
        sig = v.clause + ("|backend=safetensors" if backend == "st" else "")
        ctx.violation(sig, f"{v.message}\ncase (not shrunk): cfg={_brief_cfg(cfg)} inits={_brief_inits(spec)[:12]}",
                      {"spec": spec, "cfg": cfg, "clause": v.clause, "signature": sig, "stage": v.stage})
        return
    pre = _pre_signature(spec, cfg, v)
    if pre in cache:
        sig, mspec, mcfg = cache[pre]
        ctx.count("violations_attributed_by_cache")
    else:
        mspec, mcfg, tests = minimise(spec, cfg, v, root)
        ctx.count("shrink_tests", tests)
        sig = "|".join(x for x in (v.clause, features(mspec, mcfg, v)) if x)
        cache[pre] = (sig, mspec, mcfg)
    ctx.violation(sig, f"{v.message}\nminimal witness: cfg={_brief_cfg(mcfg)} inits={_brief_inits(mspec)}",
                  {"spec": mspec, "cfg": mcfg, "clause": v.clause, "signature": sig, "stage": v.stage})


def _brief_cfg(cfg: dict) -> dict:
    return {k: v for k, v in cfg.items() if v not in (None, False, {}) or k == "opts"}


def _brief_inits(spec: dict) -> list:
    return [{k: s[k] for k in ("g", "name", "kind", "dtype", "shape", "tname", "obj") if k in s} for s in spec["inits"]]


def run(ctx) -> None:
    root = os.environ.get("VF_SHARD_TMP")
    if not root:
        raise RuntimeError("VF_SHARD_TMP is not set; refusing to write elsewhere")
    cache: dict = {}
    for case in ctx.case_ids():
        rng = ctx.rng(case)
        spec, cfg = _gen_case(rng, ctx.tier)
        viols, facts = run_case(copy.deepcopy(spec), copy.deepcopy(cfg), root, ctx.counters)
        ctx.count(f"cases_backend_{cfg['backend']}")
        if cfg.get("steered"):
            ctx.count(f"cases_steered_to_{cfg['steered']}")
        ctx.evaluation(stable_hash([spec, cfg]), nontrivial=facts["nontrivial"])
        ctx.sample({"cfg": _brief_cfg(cfg), "inits": _brief_inits(spec)[:6], "n_inits": len(spec["inits"])})
        seen = set()
        for v in viols:
            pre = _pre_signature(spec, cfg, v)
            if pre in seen:
                ctx.count("violations_same_class_in_same_case")
                continue
            seen.add(pre)
            if ctx.out_of_time() and pre not in cache:
                # no time left to shrink it to a mechanism signature: treated like a case not run
                ctx.count("violations_not_attributed_time_budget_exhausted")
                ctx.truncated_by_time = True
                continue
            _report(ctx, spec, cfg, v, root, cache)


def replay(replay_data, ctx) -> None:
    root = os.environ.get("VF_SHARD_TMP") or tempfile.mkdtemp(prefix="vf-c07-replay-")
    made = "VF_SHARD_TMP" not in os.environ
    try:
        viols, _ = run_case(copy.deepcopy(replay_data["spec"]), copy.deepcopy(replay_data["cfg"]), root)
        for v in viols:
            if v.clause == replay_data.get("clause"):
                ctx.violation(replay_data.get("signature", v.clause), v.message, replay_data)
                return
        for v in viols:
            ctx.violation(v.clause, v.message, replay_data)
    finally:
        if made:
            shutil.rmtree(root, ignore_errors=True)
