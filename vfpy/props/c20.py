"""C20 - journaling observes without interfering and always restores the classes.

One case = one generated edit history (the C01 alphabet plus tensor / attribute / model
construction and the setters only the journal instruments) with journal markers interleaved
(nesting depth 1-3, several enter/exit rounds, leaving by a harness exception or by the re-thrown
exception of an IR call, out of several nested journals at once).  The marked history is run
on a fresh world without journals and on another fresh world inside real ``with Journal()``
blocks; monitors:

* differential: per step returned value / raised or not / exception type and message; at
  checkpoints and at the end ``snapshot(world, identities=False)``, the C01 clause list and the
  extension pools.  A divergence is confirmed against a second plain run before it counts.
* entries: ``sys.monitoring`` call log of the original functions (observed, not read from the
  wrapper table) against ``Journal.entries`` of every journal activation.
* census: every attribute of every class of ``_core`` / ``_graph_containers`` after every exit
  against before the matching enter; ``get_current_journal()``; journals that were left must
  not grow.
* hooks: the journals are configured through their public hook API (``add_hook`` / ``clear_hooks``)
  with hooks that observe, hooks that perform IR calls of their own on a private object, and hooks
  that raise once from inside an IR operation; the caller handles that exception and repeats the
  call (only calls whose repetition is invisible in the IR).  The entry monitors keep judging every
  later completed call: a hook that raised must not change what the journal records afterwards.
* liveness: after dropping the worlds and ``gc.collect()`` no IR object may survive because
  of the journals or their entries.  The IR objects are reachable only from the worlds and from the frames of the
  runner, which are gone when the history ends - those of the blocks that completed and those that an exception
  (the harness's or the re-thrown one of an IR call) unwound.  Decided causally in two stages: first the client keeps
  the Journal objects (its way to the entries; the harness's hooks detached) with their entries, and the Journal
  objects are dropped one by one - what dies with a Journal object was pinned by that journal
  (``journal-keeps-recorded-objects-alive|<how its block was last left>|via <attribute>``: as long as the client
  holds the journal no ``entry.ref()`` of it ever turns None); then only the entries are kept - what dies once the
  entries are dropped too was pinned by the entries.  Before the worlds are
  dropped the client *looks at* the journals (``J_inspect`` markers, while a journal is active and / or after
  the last exit) through every public accessor of JournalEntry / Journal - ``entry.ref()``, ``entry.obj``,
  ``entry.details``, every public data attribute, ``entry.display()`` / ``Journal.display()`` with the output
  captured, the documented filtering comprehension, repr / == / copies of entries - and keeps what it got
  that is an entry or a string: looking must not make the entries pin the objects.  A liveness violation
  names the single look that suffices for it (none: the entries pin by themselves).
* the alphabet also brings IR objects into being the other way: ``ir.from_proto`` / ``serde.deserialize_*`` /
  ``ir.load`` of generated messages of every kind (vfpy.gen_proto), serialise-and-deserialise of objects
  of the world, ``ir.save`` (inline / external data) + ``ir.load``, every tensor class (TensorProtoTensor,
  ExternalTensor with and without its file, LazyTensor, PackedTensor, StringTensor, TorchTensor, a user
  subclass) through every public way to one; what is deserialised joins the pools and is edited on.
"""

from __future__ import annotations

import gc
import weakref

import onnx_ir  # noqa: F401

from vfpy import invariants, shrink, snapshot
from vfpy import c20_mon as mon
from vfpy import c20_ops
from vfpy.c20_ops import MARKERS, Gen20, World20, insert_markers

ID = "C20"
LEVEL = "exploration"
RULE = ("a case is one generated edit history (15-80 calls; C01 alphabet with hostile argument classes + tensor (every tensor "
        "class), attribute, model, function construction, deserialisation of generated protos of every kind through from_proto / "
        "serde.deserialize_* / ir.load / TensorProtoTensor, serialise+deserialise and save+load of world objects (results join the "
        "pools), Graph.clone, keyword/generator call forms; 3 of 10 cases with tensors that can reject a rename) with journal markers interleaved (depth 1-3, "
        "re-entered Journal objects, exits: normal / harness exception / re-thrown IR exception, crossing up to 3 journals; "
        "6 of 7 cases also add hooks to the journals: observing, calling the IR themselves, or raising once from inside a "
        "setter / resize / replace_all_uses_with call, which the caller handles and repeats; 6 of 7 cases look at the journals "
        "through the public accessors of Journal / JournalEntry while the recorded objects are alive, inside a journal and / or "
        "after the last exit), "
        "executed on a fresh world outside and on another inside journals; non-trivial = the journaled run left >= 1 journal "
        "in which >= 5 instrumented calls completed and compared >= 10 steps; distinct = hash of the marker structure and the "
        "multiset of call kinds. half of the cases construct nodes with Node(..., graph=g) (a constructor that hands the "
        "half-built node to the journal's Graph.append wrapper; fixed in the repository by c9364db), the others build the same "
        "states through Node(...) + g.append(node)")
ASSUMPTIONS = [
    "the instrumented set is what a probe journal replaces on the classes (census diff); the expected operation name per "
    "replaced attribute is a table in vfpy/c20_mon.py; a replaced attribute without a table row is only excluded from entry matching (report_only_unmapped_instrumented:<attr>)",
    "sys.monitoring PY_START/PY_RETURN/PY_UNWIND on the original code objects sees every call of them (pure-Python functions)",
    "entry clause as read in DESIGN.md: every completed call has exactly one entry of its kind on its object; entries of calls "
    "that raised are tolerated; order only between non-overlapping completed calls",
    "object ids / addresses inside messages and reprs are not state (normalised before comparing)",
    "a hook that raises makes the IR operation being recorded raise; the entry recorded for that operation is tolerated like "
    "the entry of any call that raised; hook faults are injected only at calls whose repetition does not change the IR "
    "(setters, resize_inputs/outputs, replace_all_uses_with) and never while an original instrumented function is running",
    "calls made by a hook lie inside the operation being recorded: each needs its entry, its position is not judged; whether "
    "hooks are notified is not part of the statement (report_only_hook_*)",
    "re-entering one Journal object while it is active is not 'properly nested journals' (not exercised)",
    "snapshot covers every public data attribute of Value/Node/Graph/Function/Model (audited against dir() at start-up)",
    "what a client keeps from looking at a journal is entries (also copies of entries) and strings, never the object an "
    "accessor returned; an exception out of display()/repr() of an entry is not judged (report_only_inspector_raised:*); "
    "the entries are reached through the Journal object: a Journal object the client still holds after its block was left "
    "(normally or by an exception) is judged together with its entries - IR objects that stay alive exactly as long as that "
    "Journal object is referenced are kept alive by the journal's record of the block (the harness's own hooks are detached first)",
    "an operation that the client saw raise from the journaling layer itself (the repr() taken for the entry raised) is not a "
    "completed operation although the original constructor returned: its missing entry is not judged, the exception is "
    "(differential monitor)",
    "generated protos (vfpy.gen_proto) and the files written for ir.load are functions of the operation descriptor; every world "
    "writes into a directory of its own whose path is replaced in messages before comparing",
]

GC_EVERY = 1
MAX_SHRINKS = 6
# calls that reach Graph.remove(iterable): the only place of the alphabet's code paths that iterates a
# set of IR objects (hash = address), so the *choice* of the node named in a rejection is not a
# function of the history
SET_ORDERED = {"remove", "c_rnv", "pos_remove"}


# =============================================================================================
# shard state
# =============================================================================================
class Shard:
    def __init__(self):
        extra = snapshot.unaccounted_attributes()
        if extra:
            raise RuntimeError(f"snapshot does not account for public attributes {extra}; extend vfpy/snapshot.py")
        d = mon.discover_instrumented()
        # An instrumented attribute without a table row only switches off the per-entry matching of
        # *its* entries; census, differential and liveness do not need the mapping and keep running.
        self.unmapped = list(d["unknown"])
        self.probe_leftover = d["probe_leftover"]
        self.code_to_key = d["code_to_key"]
        self.baseline = d["baseline"]
        self.volatile: set = set()
        self.log = mon.CallLog(self.code_to_key)
        self.log.start()
        self.shrunk: dict = {}


def _without_devcfg_addresses(s: dict) -> dict:
    """The shared snapshot names the model configuration of a node's device configuration by ``id()`` (nodes
    of deserialised models have them); across two worlds only *which nodes share one* is comparable: the
    addresses are replaced by the rank of their first appearance."""
    rank: dict = {}
    for d in s.values():
        dc = d.get("devcfg") if isinstance(d, dict) else None
        if dc:
            d["devcfg"] = tuple(
                ((rank.setdefault(t[0], len(rank)),) + t[1:]) if isinstance(t, tuple) and t and isinstance(t[0], int)
                else (mon.norm_text(t) if isinstance(t, str) else t) for t in dc)
    return s


def snap(w):
    """Cross-world comparable state.  A world that cannot be read any more (possible only after the
    runs already diverged, e.g. a half-constructed node left behind by a constructor that raised
    only inside the journal) is represented by the error."""
    try:
        return (_without_devcfg_addresses(snapshot.snapshot(w, identities=False)), w.extra_state(),
                tuple(sorted({c for c, _ in invariants.check_world(w)})))
    except Exception as e:  # noqa: BLE001
        return ({}, {"unreadable": f"{type(e).__name__}: {e}"}, ())


def op_kind(op) -> str:
    k = op[0]
    if k == "node" and op[5] is not None:
        k += "(graph=)"
    if k == "node_x" and op[4] is not None:
        k += "(graph=)"
    if k.startswith(("io_", "kw_io_")) and len(op) > 2 and isinstance(op[2], str):
        k += f"({op[2]})"
    if k == "tensor":
        k += f"({op[1]})"
    if k == "deser":
        k += f"({op[1]} via {op[4]})"
    if k == "ser_rt":
        k += f"({op[1]})"
    if k == "save_load":
        k += "(external_data)" if op[2] else "(inline)"
    return k


def default_checkpoints(items) -> list[int]:
    """The step before every journal boundary, the step that follows a fault marker (executed with a
    raising hook and repeated), and the last step."""
    out = []
    last = None
    after_fault = False
    for i, it in enumerate(items):
        if it[0] in ("J_enter", "J_exit"):
            if last is not None:
                out.append(last)
            after_fault = False
        elif it[0] == "J_fault":
            after_fault = True
        elif it[0] not in MARKERS:
            last = i
            if after_fault:
                out.append(i)
                after_fault = False
    if last is not None:
        out.append(last)
    return sorted(set(out))


# =============================================================================================
# one judgement of a marked history
# =============================================================================================
def plain_run(S, items, cps):
    w = World20()
    S.log.reset()
    r = mon.Runner(w, items, False, S.log, snap, checkpoint_at=cps)
    obs = r.run()
    return w, obs


def first_divergence(items, a, b, notes=None):
    """First step or checkpoint at which two observations differ: (index, what, detail) or None."""
    notes = {} if notes is None else notes
    cps = sorted(set(a.checkpoints) & set(b.checkpoints))
    ci = 0
    for i, (x, y) in enumerate(zip(a.results, b.results)):
        if x[0] == "exc" and y[0] == "exc":
            # the raise site is localisation, not an observable
            if x[1:3] != y[1:3]:
                if x[1] == y[1] and items[i][0] in SET_ORDERED:
                    # Graph.remove checks `for node in frozenset(nodes)`: which offending node is found
                    # first (and so which of its two messages is raised) depends on object addresses
                    notes["report_only_graph_remove_names_other_node"] = \
                        notes.get("report_only_graph_remove_names_other_node", 0) + 1
                else:
                    return i, "result", (x, y)
        elif x != y:
            return i, "result", (x, y)
        while ci < len(cps) and cps[ci] <= i:
            if cps[ci] == i and a.checkpoints[i] != b.checkpoints[i]:
                return i, "state", (a.checkpoints[i], b.checkpoints[i])
            ci += 1
    if len(a.results) != len(b.results):
        return min(len(a.results), len(b.results)), "length", (len(a.results), len(b.results))
    return None


def describe_divergence(items, div):
    """(signature, text) of a plain-vs-journaled divergence."""
    i, what, (x, y) = div
    kind = op_kind(items[i]) if i < len(items) else "?"
    if what == "result":
        if x[0] != "exc" and y[0] == "exc":
            if len(y) > 5 and y[5]:
                # the mechanism is not the operation but the text the journal builds for its entry
                return (f"diff:raised-only-inside-journal|repr() taken for the journal entry|{y[1]}@{y[3]}",
                        f"step {i} {items[i]}: outside a journal -> {x!r}; inside -> raised {y[1]}: {y[2][:300]} (at {y[3]}, "
                        "while the journaling wrapper was taking the repr() of an object for the entry's details)")
            return (f"diff:raised-only-inside-journal|{kind}|{y[1]}@{y[3]}",
                    f"step {i} {items[i]}: outside a journal -> {x!r}; inside -> raised {y[1]}: {y[2][:300]} (at {y[3]})")
        if x[0] == "exc" and y[0] != "exc":
            return (f"diff:raised-only-outside-journal|{kind}|{x[1]}@{x[3]}",
                    f"step {i} {items[i]}: outside a journal -> raised {x[1]}: {x[2][:300]}; inside -> {y!r}")
        if x[0] == "exc":
            if x[1] != y[1]:
                return (f"diff:exception-type|{kind}|{x[1]}->{y[1]}",
                        f"step {i} {items[i]}: outside raised {x[1]}: {x[2][:200]}; inside raised {y[1]}: {y[2][:200]} (at {y[3]})")
            if x[2] != y[2]:
                return (f"diff:exception-message|{kind}|{x[1]}",
                        f"step {i} {items[i]}: {x[1]} message outside: {x[2][:300]!r}; inside: {y[2][:300]!r}")
            return None  # same type and message; the raise site is localisation only
        return (f"diff:return-value|{kind}", f"step {i} {items[i]}: returned {x!r} outside a journal, {y!r} inside")
    if what == "state":
        (s0, e0, c0), (s1, e1, c1) = x, y
        fields = []
        for label, field, before, after in snapshot.diff(s0, s1, limit=6):
            okind = {"v": "value", "n": "node", "g": "graph", "f": "function", "m": "model"}.get(label[0], "object")
            fields.append((f"{okind}.{field}", f"{label}.{field}: {before!r} outside, {after!r} inside"))
        for label in s1:
            if label not in s0:
                fields.append(("object-set", f"{label} exists only in the journaled world"))
        for k in e0:
            if e0[k] != e1.get(k):
                fields.append((f"pools.{k}", f"{k}: {e0[k]!r} outside, {e1.get(k)!r} inside"))
        if c0 != c1:
            fields.append(("C01-clauses", f"violated C01 clauses {c0} outside, {c1} inside"))
        if not fields:
            return None
        return (f"diff:state|{kind}|{fields[0][0]}",
                f"after step {i} {items[i]} the worlds differ although every call returned/raised the same: "
                + "; ".join(t for _, t in fields[:5]))
    return ("diff:history-length", f"runs executed a different number of items: {x} vs {y}")


ENTRY_FIELDS = ("ref", "details", "class_", "stack_trace", "object_id", "operation", "timestamp", "class_name")


def _reaches(start, target_ids, depth=4) -> bool:
    """Localisation only: does ``start`` reach one of the objects through strong references
    (gc.get_referents, not descending into classes, modules and module dictionaries)?"""
    import types
    seen, frontier = set(), [start]
    for _ in range(depth):
        nxt = []
        for o in frontier:
            if id(o) in target_ids:
                return True
            if id(o) in seen or isinstance(o, (type, types.ModuleType, str, int, float, bytes)):
                continue
            seen.add(id(o))
            if isinstance(o, dict) and "__builtins__" in o:
                continue
            nxt.extend(gc.get_referents(o))
        frontier = nxt
    return any(id(o) in target_ids for o in frontier)


def liveness_refs(w, w_plain):
    """Weak references to every pooled object of the journaled world and of the control world."""
    refs = []
    for pool in (w.values, w.nodes, w.graphs, w.functions, w.models, w.xtensors, w.attrs, w.tensors):
        for o in pool:
            refs.append((type(o).__name__, weakref.ref(o), id(o)))
    control = []
    for pool in (w_plain.values, w_plain.nodes, w_plain.graphs, w_plain.functions, w_plain.models):
        for o in pool:
            control.append(weakref.ref(o))
    return refs, control


LIVENESS = "entries-keep-objects-alive"
JOURNAL_PINS = "journal-keeps-recorded-objects-alive"


def strip_after(sig: str) -> str:
    """A liveness signature without its 'after <inspector>' part (which only a localising judgement fills in);
    a journal-pins signature without how the block was left and the attribute (both read off the minimal witness)."""
    if sig.startswith(JOURNAL_PINS):
        return JOURNAL_PINS
    return "|".join(p for p in sig.split("|") if not p.startswith("after ")) if sig.startswith(LIVENESS) else sig


def _has_liveness(S, items) -> bool:
    v, _ = judge(S, items, gc_check=True, confirm=False, localise=False)
    return any(s.startswith(LIVENESS) for s, _ in v)


def localise_inspection(S, items) -> str:
    """Which look at the journal makes the entries pin the objects: '' = none is needed, else 'after <inspector>'
    for the first single inspector (in the fixed order of the table) that suffices."""
    used = {n for it in items if it[0] == "J_inspect" for n in it[1]}
    if not used or _has_liveness(S, [it for it in items if it[0] != "J_inspect"]):
        return ""
    for name in mon.INSPECTORS:
        if name in used and _has_liveness(S, [["J_inspect", [name]] if it[0] == "J_inspect" else it for it in items]):
            return "after " + name
    return "after several looks at the entries"


def judge(S, items, gc_check=True, confirm=True, localise=True):
    """Returns (violations, info): violations = list of (signature, text)."""
    cps = default_checkpoints(items)
    viol: list = []
    w1, plain = plain_run(S, items, cps)
    # attributes of IR classes that change in a run without any journal are not the journal's doing
    for cname, attr, facet in mon.census_diff(S.baseline, mon.census(), S.volatile):
        S.volatile.add((cname, attr))
    w2 = World20()
    S.log.reset()
    runner = mon.Runner(w2, items, True, S.log, snap, volatile=S.volatile, checkpoint_at=cps,
                        unmapped=bool(S.unmapped))
    jobs = runner.run()
    runner = None
    info = dict(jobs.stats)
    info["steps"] = sum(1 for r in jobs.results if r[0] != "marker")
    info["raised_steps"] = sum(1 for r in jobs.results if r[0] == "exc")

    # ---- differential ------------------------------------------------------------------------
    div = first_divergence(items, plain, jobs, info)
    info["steps_compared"] = sum(1 for r in jobs.results[: (div[0] if div else len(jobs.results))] if r[0] not in ("marker", "skip"))
    info["checkpoints_compared"] = sum(1 for c in cps if div is None or c < div[0])
    if div is not None:
        d = describe_divergence(items, div)
        if d is not None:
            if confirm:
                w3, plain2 = plain_run(S, items, cps)
                w3 = None
                cdiv = first_divergence(items, plain, plain2)
                if cdiv is not None and cdiv[0] <= div[0]:
                    info["report_only_nondeterministic_history"] = 1
                    d = None
            if d is not None:
                viol.append(d)
    # ---- journal monitors --------------------------------------------------------------------
    for cat, key, text in jobs.problems:
        viol.append((f"{cat}|{key}", text))
    # after the last exit the classes must be what they were before the first enter
    left = mon.census_diff(S.baseline, mon.census(), S.volatile)
    for cname, attr, facet in left:
        viol.append((f"class-not-restored|{cname}.{attr}:{facet}",
                     f"after all journals were left {cname}.{attr} differs from the class before any journal: {facet}"))
    if left:
        info["classes_force_restored"] = mon.force_restore(S.baseline)
    # ---- liveness ----------------------------------------------------------------------------
    # The IR objects were reachable only from the worlds and from frames that are gone by now (the runner's
    # frames: those of the blocks that completed and those that an exception unwound).  The client keeps the
    # Journal objects (its way to the entries), the entries and what it kept from looking.
    journals_kept = list(jobs.journals)
    last_how = [jobs.last_exit.get(id(j)) for j in journals_kept]
    entries_kept = [list(j.entries) for j in journals_kept]
    info["entries_total"] = sum(len(e) for e in entries_kept)
    client_kept = jobs.kept  # what the client kept from looking at the journals: entries (and copies of entries), strings
    still_open = mon.journaling.get_current_journal() is not None
    jobs.journals = []
    jobs.kept = []
    jobs.problems = []
    jobs.last_exit = {}
    plain = None
    pinned = None
    journal_pins: list = []
    if gc_check and not still_open:
        refs, control = liveness_refs(w2, w1)
        w1 = w2 = None
        gc.collect()
        if any(r() is not None for r in control):
            raise RuntimeError("objects of the un-journaled world survive dropping it: the liveness monitor cannot judge")
        alive = [(n, r, i) for n, r, i in refs if r() is not None]
        info["gc_objects_checked"] = len(refs)
        info["journals_kept_after_the_ir_was_dropped"] = len(journals_kept)
        info["journals_kept_last_left_by_exception"] = sum(1 for h in last_how if h == "exception")
        info["journals_kept_last_left_normally"] = sum(1 for h in last_how if h == "normal")
        info["entries_of_journals_kept_last_left_by_exception"] = sum(
            len(es) for es, h in zip(entries_kept, last_how) if h == "exception")
        if alive:
            # Stage 1 - the Journal objects, causally: they are dropped one at a time (the latest first: a journal
            # refers to the one that was current when it was entered); the entries stay.  What dies with a Journal
            # object was kept alive by that journal, not by an entry object.
            for idx in reversed(range(len(journals_kept))):
                before = [(n, r) for n, r, _ in alive if r() is not None]
                if not before:
                    break
                via = []
                own = getattr(journals_kept[idx], "__dict__", None) if localise else None
                if isinstance(own, dict):
                    # localisation, causal as well: this Journal object is not used again (its entries were copied
                    # out above), so what it holds is emptied attribute by attribute
                    n_before = len(before)
                    for a in list(own):
                        own[a] = None
                        gc.collect()
                        n_now = sum(1 for _, r in before if r() is not None)
                        if n_now < n_before:
                            via.append(a)
                            n_before = n_now
                own = None
                journals_kept[idx] = None
                gc.collect()
                freed = sorted(n for n, r in before if r() is None)
                if freed:
                    journal_pins.append((last_how[idx], via, freed))
            before = None
            journals_kept = None
            gc.collect()
            alive = [t for t in alive if t[1]() is not None]
        if alive:
            # Stage 2 - the entries (and what the client kept from looking at them)
            alive_ids = {id(r()) for _, r, _ in alive}
            holders = set()
            for es in entries_kept + [k for k in client_kept if k and hasattr(k[0], "operation")]:
                for e in es[:200]:
                    # what the entry object holds: its fields and whatever else sits in its instance dictionary
                    # (read from there: a property is not evaluated by the localisation)
                    own = dict(getattr(e, "__dict__", {}))
                    for f in ENTRY_FIELDS:
                        own.setdefault(f, getattr(e, f, None))
                    for f, val in own.items():
                        if f not in holders and _reaches(val, alive_ids):
                            holders.add(f)
            names = sorted({n for n, _, _ in alive})
            n_alive = len(alive)
            entries_kept = client_kept = es = e = val = own = None  # the loop variables would keep the last entry alive
            gc.collect()
            if any(r() is not None for _, r, _ in alive):
                raise RuntimeError(f"{names} objects survive although worlds and journal entries were dropped: harness leak")
            pinned = (n_alive, names, sorted(holders))
    journals_kept = entries_kept = client_kept = refs = control = alive = None
    if journal_pins:
        hows = {h for h, _, _ in journal_pins}
        how = ("block left by an exception" if hows == {"exception"} else
               "block left normally" if hows == {"normal"} else "blocks left normally and by an exception")
        via = sorted({a for _, v, _ in journal_pins for a in v})
        freed = [n for _, _, f in journal_pins for n in f]
        viol.append((f"{JOURNAL_PINS}|{how}|via {'+'.join('Journal.' + a for a in via) or 'unlocated attribute of the Journal'}",
                     f"{len(freed)} IR objects ({', '.join(sorted(set(freed)))}) that were reachable only from the dropped world and "
                     f"from frames that had returned or been unwound survived gc.collect() while the client kept the Journal "
                     f"object(s) and their entries, and died when {len(journal_pins)} Journal object(s) ({how}) were dropped "
                     f"although the entries were still kept: as long as the client holds such a journal, entry.ref() / entry.obj of "
                     f"its entries keep reaching live objects; held through Journal attribute(s): {via or 'not located'}"))
    if pinned is not None:
        n_alive, names, holders = pinned
        after = localise_inspection(S, items) if localise else ""
        viol.append((f"{LIVENESS}|{after + '|' if after else ''}via {'+'.join(holders) or 'unlocated field'}",
                     f"{n_alive} IR objects ({', '.join(names)}) survived gc.collect() after the world was dropped and died "
                     f"only when the journal entries were dropped too; held through entry attribute(s): {holders or 'not located'}"
                     + (f"; needed for it: the client looked at the entries ({after[6:]}) while the objects were alive"
                        if after else "")))
    # de-duplicate by signature, keep order
    seen, out = set(), []
    for sig, text in viol:
        if sig not in seen:
            seen.add(sig)
            out.append((sig, text))
    return out, info


# =============================================================================================
# reporting
# =============================================================================================
def report(ctx, S, items, sig, text):
    if sig in S.shrunk:  # reported under the signature that its minimal witness gave
        ctx.violation(S.shrunk[sig][2], S.shrunk[sig][0], S.shrunk[sig][1])
        return
    want_gc = sig.startswith((LIVENESS, JOURNAL_PINS))
    if len(S.shrunk) >= MAX_SHRINKS:  # a flood (a mutant): report, do not spend the budget on shrinking
        msg = text + "\n  marked history (not shrunk):\n    " + "\n    ".join(str(it) for it in items[:80])
        S.shrunk[sig] = (msg, {"items": items}, sig)
        ctx.violation(sig, msg, {"items": items})
        return

    def fails(sub):
        if not any(it[0] not in MARKERS for it in sub):
            return False
        v, _ = judge(S, sub, gc_check=want_gc, confirm=False, localise=False)
        return any(strip_after(s) == strip_after(sig) for s, _ in v)

    small = shrink.ddmin(items, fails, max_tests=90 if ctx.tier == "quick" else 250)
    v, _ = judge(S, small, gc_check=want_gc, confirm=True)
    # the signature is derived from the minimal witness (for liveness: the look at the entries that it still contains)
    hit = next(((s, t) for s, t in v if s == sig), None) or next(((s, t) for s, t in v if strip_after(s) == strip_after(sig)), None)
    if hit is None:  # the shrunk witness did not survive the confirmation run: keep the original
        small, hit = items, (sig, text)
    msg = hit[1] + "\n  minimal marked history:\n    " + "\n    ".join(str(it) for it in small[:60])
    S.shrunk[sig] = S.shrunk[hit[0]] = (msg, {"items": small}, hit[0])
    ctx.violation(hit[0], msg, {"items": small})


def run_case(ctx, S, case):
    rng = ctx.rng(case)
    hostile = rng.choice([0.1, 0.25, 0.45])
    length = rng.choice([15, 30, 50, 80])
    p_ext = rng.choice([0.15, 0.3, 0.45])
    node_in_graph = rng.random() < 0.5
    collaborators = rng.random() < 0.3
    scratch = World20()
    gen = Gen20(rng, scratch, hostile, p_ext, node_in_graph, collaborators)
    ops = []
    for _ in range(length):
        op = gen.op()
        scratch.apply(op)
        ops.append(op)
    scratch = gen = None
    items = insert_markers(rng, ops, mon.MAX_DEPTH, faultable=mon.FAULTABLE)
    viol, info = judge(S, items, gc_check=(case % GC_EVERY == 0))
    for k, v in info.items():
        if isinstance(v, int):
            ctx.count(k, v)
    ctx.count("cases_with_node_in_graph" if node_in_graph else "cases_without_node_in_graph")
    if collaborators:
        ctx.count("cases_with_collaborator_tensors")
    for it in items:
        if it[0] in ("deser", "ser_rt", "save_load", "x_read", "tensor"):
            ctx.count("ops:" + op_kind(it))
            if it[0] != "tensor":
                ctx.count("deser_ops" if it[0] != "x_read" else "tensor_reads")
    shape = [tuple(it) for it in items if it[0] in MARKERS]
    kinds = sorted({op_kind(it) for it in items if it[0] not in MARKERS})
    nontrivial = info.get("journals_with_5+_completed_calls", 0) >= 1 and info.get("steps_compared", 0) >= 10
    ctx.evaluation(key=[shape, kinds], nontrivial=nontrivial)
    if case % 53 == 0:
        ctx.sample({"case": case, "hostile": hostile, "node_in_graph": node_in_graph,
                    "stats": {k: v for k, v in info.items() if not k.startswith("calls:")},
                    "marked_history": [str(it) for it in items[:45]]})
    for sig, text in viol:
        report(ctx, S, items, sig, text)


def plan(tier: str) -> dict:
    quick = tier == "quick"
    # Sized for an idle 16-core machine (quick ~30 s, ~25 ms per case and shard); on a loaded machine
    # the shards stop at budget_s, so the floors are what ~1500 cases reach (x10 for thorough).
    floors = {
        "steps_compared": 20000,
        "checkpoints_compared": 3000,
        "journal_exits": 2000,
        "exit_exception": 800,
        "exit_from_depth_2": 400,
        "exit_from_depth_3": 300,
        "exception_crossed_nested_journal": 200,
        "left_by_rethrown_ir_exception": 100,
        "journal_object_reentered": 150,
        "calls_completed": 30000,
        "calls_matched": 30000,
        "calls_raised": 2000,
        "gc_objects_checked": 10000,
        "journals_kept_last_left_by_exception": 400,
        "journals_kept_last_left_normally": 400,
        "entries_of_journals_kept_last_left_by_exception": 4000,
        "del_io_inside_a_journal": 150,
        "del_io_outside_after_a_journal": 150,
        "client_calls_checked": 3000,
        "hook_faults_injected": 300,
        "journal_exits_after_hook_fault": 150,
        "calls_completed_after_hook_fault": 3000,
        "hook_touch_rounds": 1000,
        "hook_notifications_checked": 10000,
    }
    for key in mon.TABLE:
        floors["calls:" + key] = 15
    # looking at the journals before the IR is dropped
    floors.update({"inspections": 600, "inspections_inside_a_journal": 250, "inspections_after_the_last_exit": 250,
                   "entries_inspected_while_object_alive": 20000})
    for name in mon.INSPECTORS:
        floors["inspect:" + name] = 400
    # objects of every tensor class came into being inside a journal (entries seen), deserialisation happened
    floors.update({"init_entries:TensorProtoTensor": 500, "init_entries:ExternalTensor": 150, "init_entries:StringTensor": 300,
                   "init_entries:LazyTensor": 40, "init_entries:PackedTensor": 20, "init_entries:Tensor": 400,
                   "init_entries:PickyTensor": 30, "ops:deser(ModelProto via load)": 40, "deser_ops": 500})
    if c20_ops.torch is not None:
        floors["init_entries:TorchTensor"] = 20
    if not quick:
        floors = {k: v * 10 for k, v in floors.items()}
    return {
        "cases": 16000 if quick else 250000,
        "shards": 16,
        "budget_s": 42 if quick else 480,
        "floors": floors,
        "min_nontrivial": 600 if quick else 6000,
    }


def run(ctx) -> None:
    S = Shard()
    if S.probe_leftover:
        for cname, attr, facet in S.probe_leftover:
            ctx.violation(f"class-not-restored|{cname}.{attr}:{facet}",
                          f"an empty `with Journal(): pass` left {cname}.{attr} different from before: {facet}",
                          {"items": [["J_enter", 0], ["J_exit", "normal", 1]]})
    for key in S.unmapped:
        ctx.count("report_only_unmapped_instrumented:" + key)
        ctx.note(f"the journal replaces {key}, for which the monitor has no operation name: its entries are not matched "
                 "against calls (census, differential and liveness monitors are unaffected)")
    # warm-up (lazy class attributes, import-time caches), then keep the start-up heap out of gc
    judge(S, [["val", "a", None, 0], ["J_enter", 0], ["val", "b", None, 1], ["J_exit", "normal", 1]])
    gc.collect()
    gc.freeze()
    try:
        for case in ctx.case_ids():
            run_case(ctx, S, case)
    finally:
        S.log.stop()
    reached = {k[6:] for k in ctx.counters if k.startswith("calls:")}
    for key in sorted(set(mon.TABLE) - reached):
        ctx.note(f"instrumented operation never reached inside a journal by at least one shard: {key}")
    def subclasses(c):
        return {s for d in c.__subclasses__() for s in ({d} | subclasses(d))}
    built = {k[len("init_entries:"):] for k in ctx.counters if k.startswith("init_entries:")}
    for c in sorted(subclasses(mon._core.TensorBase), key=lambda c: c.__name__):
        if c.__name__ not in built:
            ctx.note(f"tensor class never constructed inside a journal by at least one shard: {c.__name__}")
    if S.volatile:
        ctx.note(f"class attributes that change without any journal (ignored by the census): {sorted(S.volatile)}")


def replay(data, ctx) -> None:
    S = Shard()
    try:
        viol, _ = judge(S, data["items"])
        for sig, text in viol:
            ctx.violation(sig, text + "\n  marked history:\n    " + "\n    ".join(str(i) for i in data["items"][:60]),
                          {"items": data["items"]})
    finally:
        S.log.stop()
