"""C10 - external tensor reads never escape the model directory (fail closed); ir.load gives
every external tensor the model's directory as base directory whatever the path spelling.

Monitor: the real onnx_ir read entry points are driven against a sandbox of canary files
(vfpy/c10_lib.py).  Observers: (a) the bytes each entry point delivers, identified by canary;
(b) sys.addaudithook 'open' / 'mmap.__new__' events mapped to inodes of the sandbox inventory;
(c) thorough tier: a batch replayed in a child under ``strace -f -e trace=%file``.
Oracle: harness-side truth (kernel resolution + inode inventory, cross-checked with realpath
containment + S_ISREG + st_nlink == 1); it never calls onnx_ir.
"""

from __future__ import annotations

import json
import logging
import os
import pathlib
import re
import shutil
import subprocess
import sys
import tempfile

import onnx
import onnx_ir as ir  # noqa: F401  (imported at module top so VF_REPO is honoured)

from vfpy import c10_lib as L
from vfpy.c10_lib import AUDIT, LibRaised, Sandbox

ID = "C10"
LEVEL = "exploration"
RULE = (
    "case = (base target, route that establishes base_dir [ctor|setter|set_base_dir|deserialize_tensor|ir.load], "
    "base spelling + cwd, location string from the component grammar, dtype/offset/length, read entry point); "
    "non-trivial = the location resolves (kernel) to an existing file or directory, i.e. there is something a "
    "non-failing read could deliver; distinct = distinct (route, base spelling, location, entry point) tuples. "
    "ir.load cases additionally judge the base directory of every external tensor of the loaded model "
    "(9 positions) for one path spelling each; in 30% of them the model FILE named by the path is itself a symbolic link "
    "(direct or chained, relative or absolute text) into another / child / parent directory holding same-named decoy data "
    "files - the model's directory is the directory holding the entry the caller named (kernel resolution of dirname(path "
    "as given) or '.'), not the directory of the link's destination. Stateful cases (16%) keep one tensor object alive: read via entry point A "
    "-> the data file is swapped for a symlink / hard link / dir-symlink escape, gains a hard link, is replaced or "
    "restored, or base_dir is re-pointed, optionally followed by release()/invalidate() -> read via entry point B, "
    "judged against the truth recomputed at the time of the second read. Fixed stratum (case % 8 == 5): the base / model "
    "directory is one of a family of 11 sibling directories whose names are pairwise equal under a folding of names "
    "(letter case, casefold-only pairs, Unicode NFC/NFD/compatibility forms, trailing dot or space) and hold same-named "
    "files; locations lead into a neighbour lexically ('../<variant>/x'), absolutely, through a symlinked file or a "
    "symlinked directory; the two static base directories have such neighbours and case-variant file names as well, and "
    "the stateful cases re-point base_dir / the data file to a case-variant sibling."
)
ASSUMPTIONS = [
    "Linux/POSIX path semantics; the kernel's resolution of (base dir fd, location) is the definition of the fully resolved location",
    "sandbox is static while a case runs (no TOCTOU races are exercised; docs/security.md lists them as known limitation)",
    "bytes are attributed to files by 64-byte unique canaries at the start of each (sparse) file followed by zeros; reads of "
    "at least 8 bytes, starting inside the canary",
    "CPython audit events 'open' and 'mmap.__new__' are raised for every file open / mapping made from Python code (PEP 578); "
    "opens from C extensions that bypass them are only visible to the strace observer (thorough tier)",
    "'raises' accepts any Exception type; an allowed location that is refused is not a violation (report_only)",
    "bytes of the file validated by an earlier read that are served from the tensor's retained mapping after the file or "
    "base_dir changed (nothing is opened) are report_only: the statement does not say a mapping must be dropped",
    "FIFOs, devices and sockets are not placed in the sandbox",
    "the scratch file system is case-sensitive and keeps Unicode names byte for byte (names differing in case / "
    "normalisation form / a trailing dot or space are different directory entries); otherwise building the sandbox fails "
    "and the run is inconclusive",
]


def plan(tier: str) -> dict:
    quick = tier == "quick"
    return {
        "cases": 48000 if quick else 640000,
        "shards": 16,
        "budget_s": 35 if quick else 420,
        # floors: roughly a tenth of what an undisturbed run observes, so that a loaded machine
        # (shards stop at budget_s) still passes while a run whose monitors saw little does not
        "floors": (
            {
                "reads_judged": 10000,
                "outcome:allowed-read-ok": 1500,
                "disallowed_existing_file_refused": 4500,
                "audit_inventory_open": 1800,
                "audit_inventory_mmap": 900,
                "load_base_dir_ok": 5000,
                "load_spelling:bare-filename": 100,
                "load_base_dir_judged_for_model_file_symlinked_into_another_dir": 1500,
                "stateful_cases": 800,
                "stateful_refused_although_previously_mapped": 80,
                # size classes (tensors of at least 64 KiB; most around 1 MiB)
                "big_reads_judged": 900,
                "big_allowed_read_ok": 150,
                "big_disallowed_existing_file_refused": 350,
                "big_bulk_disallowed_existing_file_refused": 60,
                "big_stateful_cases": 80,
                # neighbours whose name equals the base directory's under a folding of names
                "name_variant_neighbour_file_refused": 1500,
                "name_variant_refused:case-variant-of-base": 600,
                "name_variant_refused:unicode-form-variant-of-base": 150,
                "name_variant_refused:trailing-dot-space-variant-of-base": 250,
            }
            if quick
            else {
                "reads_judged": 200000,
                "outcome:allowed-read-ok": 30000,
                "disallowed_existing_file_refused": 90000,
                "audit_inventory_open": 35000,
                "audit_inventory_mmap": 18000,
                "load_base_dir_ok": 90000,
                "load_spelling:bare-filename": 2000,
                "load_base_dir_judged_for_model_file_symlinked_into_another_dir": 25000,
                "stateful_cases": 20000,
                "stateful_refused_although_previously_mapped": 2000,
                "strace_cases_observed": 1000,
                "strace_inventory_open": 150,
                "big_reads_judged": 4500,
                "big_allowed_read_ok": 750,
                "big_disallowed_existing_file_refused": 1750,
                "big_bulk_disallowed_existing_file_refused": 300,
                "big_stateful_cases": 400,
                "name_variant_neighbour_file_refused": 20000,
                "name_variant_refused:case-variant-of-base": 8000,
                "name_variant_refused:unicode-form-variant-of-base": 2000,
                "name_variant_refused:trailing-dot-space-variant-of-base": 3500,
            }
        ),
        "min_nontrivial": 6000 if quick else 60000,
        "params": {"strace_batch": 0 if quick else 150},
    }


# --------------------------------------------------------------------------------------------
# read cases
# --------------------------------------------------------------------------------------------


def _fold_target(rng) -> str:
    """A base directory of the name-folding family: the stem half of the time, else a variant."""
    return L.FOLD_TARGETS[0] if rng.random() < 0.5 else rng.choice(L.FOLD_TARGETS)


def gen_read_case(rng, sb: Sandbox, tensor_entries_only: bool = False, fold: bool = False) -> dict:
    target = rng.choice(L.BASE_TARGETS) if rng.random() < 0.5 else "work/B"
    if fold:
        target = _fold_target(rng)
    bcls, cwd, base = rng.choice(L.base_spellings(target))
    loc, style = L.gen_location(rng, sb, target)
    route = rng.choice(["ctor", "ctor", "setter", "set_base_dir", "deserialize"])
    spec = {
        "target": target, "route": route, "cwd": cwd, "base": base, "base_class": bcls,
        "base_pathlike": rng.random() < 0.12, "loc": loc, "loc_style": style,
        "loc_pathlike": route != "deserialize" and rng.random() < 0.12,
    }
    spec.update(L.gen_tensor_params(rng))
    if tensor_entries_only or rng.random() < 0.72:
        spec["entry"] = rng.choice(L.TENSOR_ENTRIES)
    else:
        spec["entry"] = rng.choice(L.MODEL_ENTRIES)
        spec["position"] = rng.choice(["init", "init", "subinit", "subsubinit"])
    return spec


def _objs(sb: Sandbox, spec: dict):
    base = sb.subst(spec["base"])
    loc = sb.subst(spec["loc"])
    return (pathlib.Path(base) if spec.get("base_pathlike") else base,
            pathlib.Path(loc) if spec.get("loc_pathlike") else loc)


def exec_read(sb: Sandbox, spec: dict):
    """Run the code under test for one read case.  -> (("bytes", data) | ("raised", exc), events)"""
    os.chdir(f"{sb.R}/{spec['cwd']}" if spec["cwd"] else sb.R)
    base_o, loc_o = _objs(sb, spec)
    sb.reset_scratch()
    AUDIT.events = []
    t = None
    try:
        t = L.lib(lambda: L.make_tensor(spec["route"], base_o, loc_o, spec))
        return _run_entry(sb, spec, t), AUDIT.events
    except LibRaised as e:
        return ("raised", e.exc), AUDIT.events
    finally:
        _release(t)


def _run_entry(sb: Sandbox, spec: dict, t):
    entry = spec["entry"]
    if entry in L.MODEL_ENTRIES:
        model = L.lib(lambda: L.model_with(t, spec.get("position", "init"), companion=L.wants_companion(entry)))
        return ("bytes", L.run_model_entry(sb, entry, model, t.name))
    return ("bytes", L.run_tensor_entry(sb, entry, t))


def _release(t) -> None:
    if t is not None:
        try:
            t.release()
        except Exception:  # noqa: BLE001
            pass


def judge_read(ctx, sb: Sandbox, spec: dict, truth: L.Truth, outcome, events, observer: str = "audit"):
    """-> list of (kind, signature, text).  Also counts what was observed."""
    viols = []
    entry = spec["entry"]
    off = spec["offset"] or 0
    n = L.nbytes_of(spec)
    size = L.size_suffix(spec)  # "" for the small tensors, "|size>=2^20" ... for the size classes
    big = "big_" if size else ""
    bulk = "bulk_" if entry in L.MODEL_ENTRIES or entry.startswith("convert_from") else ""
    if big:
        ctx.count("big_reads_judged")
        ctx.count(f"big_size:{L.size_class(spec)}")
        ctx.count(f"big_entry:{entry}")
    for ev in events:
        e = sb.inv.get((ev[1], ev[2]))
        if e is None:
            continue
        ctx.count(f"{observer}_inventory_{ev[0]}")
        if e.kind == "dir":
            ctx.count(f"report_only_{observer}_open_of_directory")  # no byte can be read from a directory
            continue
        if truth.allowed and (ev[1], ev[2]) == truth.key:
            continue
        viols.append((
            f"{observer}-{ev[0]}",
            f"escape:{ev[0]}-observed|loc={truth.cls}|entry={entry}{size}",
            f"{ev[0]}({ev[3]}) reached {e.relpaths} (nlink={e.nlink}) which is not an allowed file for this case",
        ))
    if outcome[0] == "raised":
        exc = type(outcome[1]).__name__
        if truth.allowed:
            ctx.count("report_only_allowed_location_refused")
            ctx.count(f"outcome:allowed-refused:{exc}")
        else:
            ctx.count(f"outcome:disallowed-raised:{exc}")
            if truth.exists and not truth.cls.startswith("directory"):
                ctx.count("disallowed_existing_file_refused")
                if "-variant-of-base" in truth.cls:
                    ctx.count("name_variant_neighbour_file_refused")
                    ctx.count("name_variant_refused:" + truth.cls.split("+", 1)[1])
                    ctx.count("name_variant_refused_via:" + truth.cls.split("+", 1)[0])
                if big:
                    ctx.count("big_disallowed_existing_file_refused")
                    if bulk:
                        ctx.count("big_bulk_disallowed_existing_file_refused")
    else:
        data = outcome[1]
        src = sb.source_of(data, off) if len(data) >= 8 else None
        src_txt = f"canary of {src.relpaths}" if src is not None else "no canary"
        if truth.allowed and src is sb.inv[truth.key] and len(data) == n:
            ctx.count("outcome:allowed-read-ok")
            if big:
                ctx.count("big_allowed_read_ok")
        elif truth.allowed and src is None:
            # right file or no file at all, wrong bytes/length: a fidelity matter (C04/C07), not containment
            ctx.count("report_only_allowed_read_unexpected_bytes")
        else:
            kind = "bytes" if data else "no-raise"
            viols.append((
                kind,
                f"escape:{kind}-returned|loc={truth.cls}|entry={entry}{size}",
                f"{len(data)} byte(s) delivered ({src_txt}) although the location is "
                f"{'allowed but resolves to another file' if truth.allowed else 'not allowed: ' + truth.cls}",
            ))
    return viols


def describe(sb: Sandbox, spec: dict, truth: L.Truth, outcome) -> str:
    out = f"raised {outcome[1]!r}"[:300] if outcome[0] == "raised" else f"returned {len(outcome[1])} bytes"
    return (
        f"base_dir={spec['base']!r} ({spec['base_class']}, cwd=$R/{spec['cwd']}, route={spec['route']}) "
        f"location={spec['loc']!r} entry={spec['entry']} dtype={spec['dtype']} shape={spec['shape']} "
        f"offset={spec['offset']} length={spec['length']}; truth: class={truth.cls} allowed={truth.allowed} "
        f"resolves_to={truth.relpaths} (base $R/{truth.base_rel}); code under test {out}"
    )


def run_read_case(ctx, sb: Sandbox, spec: dict, count: bool = True):
    """Execute + judge one read case; returns (truth, outcome, violations)."""
    os.chdir(f"{sb.R}/{spec['cwd']}" if spec["cwd"] else sb.R)
    base_o, loc_o = _objs(sb, spec)
    truth = L.compute_truth(sb, base_o, loc_o)
    outcome, events = exec_read(sb, spec)
    sink = ctx if count else _NullCtx()
    viols = judge_read(sink, sb, spec, truth, outcome, events)
    if count:
        ctx.count("reads_judged")
        ctx.count(f"truth:{truth.cls}")
        ctx.count(f"entry:{spec['entry']}")
        ctx.count(f"base:{spec['base_class']}")
        ctx.count(f"route:{spec['route']}")
        ctx.count(f"style:{spec.get('loc_style', '?')}")
    return truth, outcome, viols


class _NullCtx:
    def count(self, *a, **k) -> None:
        pass


def _case_key(spec: dict):
    return [spec.get("route"), spec.get("base"), spec.get("cwd"), spec.get("loc"), spec.get("entry"),
            spec.get("base_pathlike"), spec.get("loc_pathlike")]


def shrink_read(ctx, sb: Sandbox, spec: dict, kind: str, cls: str) -> dict:
    """Greedy simplification of a violating read case keeping the violation kind and truth class."""

    def still(s: dict) -> bool:
        try:
            truth, _, viols = run_read_case(ctx, sb, s, count=False)
        except (AssertionError, OSError, ValueError):
            return False
        return truth.cls == cls and any(v[0] == kind for v in viols)

    cur = dict(spec)
    budget = 40
    simple = [
        {"route": "ctor"}, {"base_pathlike": False}, {"loc_pathlike": False},
        {"base": f"$R/{spec['target']}", "cwd": "work", "base_class": "abs"},
        {"dtype": "UINT8", "shape": [8]}, {"offset": None}, {"length": None},
    ]
    for change in simple:
        if budget <= 0:
            break
        if all(cur.get(k) == v for k, v in change.items()):
            continue
        cand = dict(cur, **change)
        budget -= 1
        if still(cand):
            cur = cand
    if L.size_class(cur):
        # the violation needs a large tensor: find the smallest size-class boundary that keeps it
        for k, _w in L.SIZE_TIERS:
            if (1 << k) >= L.nbytes_of(cur):
                break
            cand = dict(cur, dtype="UINT8", shape=[1 << k], length=None)
            budget -= 1
            if still(cand):
                cur = cand
                break
    progress = True
    while progress and budget > 0:
        progress = False
        loc = cur["loc"]
        cands = []
        norm = re.sub(r"/(\./)+", "/", re.sub(r"(?<!^)/{2,}", "/", loc))
        if norm != loc:
            cands.append(norm)
        if not loc.startswith(("$R", "/")):
            parts = loc.split("/")
            for i in range(len(parts)):
                c = "/".join(parts[:i] + parts[i + 1:])
                if c and c != loc:
                    cands.append(c)
        for c in cands:
            if budget <= 0:
                break
            budget -= 1
            cand = dict(cur, loc=c)
            if still(cand):
                cur = cand
                progress = True
                break
    return cur


def report_read_violations(ctx, sb: Sandbox, spec: dict, truth, outcome, viols) -> None:
    seen = set()
    for kind, sig, text in viols:
        if sig in seen:
            continue
        seen.add(sig)
        small = shrink_read(ctx, sb, spec, kind, truth.cls) if ctx.counters.get("violations_raw", 0) < 60 else spec
        t2, o2, v2 = run_read_case(ctx, sb, small, count=False)
        # the size class in the signature is that of the shrunk witness
        sig2 = next((s2 for k2, s2, _ in v2 if k2 == kind), sig)
        if sig2 in seen and sig2 != sig:
            continue
        seen.add(sig2)
        ctx.violation(sig2, f"{text}. Witness (shrunk): {describe(sb, small, t2, o2)}",
                      {"kind": "read", "spec": small})


# --------------------------------------------------------------------------------------------
# stateful cases: one tensor object, read -> mutation -> read
# --------------------------------------------------------------------------------------------

ALL_ENTRIES = L.TENSOR_ENTRIES + L.MODEL_ENTRIES
DYN_BASES = [  # (class, cwd rel to R, base template) for the initial base dyn/base
    ("abs", "work", "$R/dyn/base"), ("abs-trailing-sep", "work", "$R/dyn/base/"), ("rel", "dyn", "base"),
    ("dot", "dyn/base", "."), ("via-symlink-abs", "work", "$R/dyn/base_link"), ("via-symlink-rel", "dyn", "base_link"),
]
# location -> the directory entry (relative to dyn/base) whose replacement changes what it denotes
DYN_LOCS = {"w.bin": "w.bin", "./w.bin": "w.bin", "sub/w2.bin": "sub/w2.bin", "sub/../w.bin": "w.bin",
            "ln_w": "w.bin", "$R/dyn/base/w.bin": "w.bin"}
FILE_MUTATIONS = ["swap-symlink-out", "swap-symlink-out-rel", "swap-hardlink-out", "add-hardlink",
                  "swap-symlink-inside", "swap-regular", "swap-symlink-case-sibling"]
REBASE = {  # mutation -> new base_dir template
    "rebase-prefix-sibling": "$R/dyn/base_evil", "rebase-dir-with-symlink-out": "$R/dyn/alt_sym",
    "rebase-dir-with-hardlink": "$R/dyn/alt_hl", "rebase-outside-dir": "$R/dyn/out",
    "rebase-parent": "$R/dyn", "rebase-symlink-to-same": "$R/dyn/base_link",
    "rebase-case-sibling": "$R/dyn/Base",  # the name differs from dyn/base in letter case only
}
SUFFIXES = ["", "", "", "release", "restore", "invalidate"]


def gen_stateful_case(rng, sb: Sandbox) -> dict:
    bcls, cwd, base = rng.choice(DYN_BASES)
    loc = rng.choice(list(DYN_LOCS))
    muts = list(FILE_MUTATIONS) + list(REBASE) + ["none"]
    if loc == "sub/w2.bin":
        muts += ["swap-dir-symlink-out"] * 3
    if loc == "ln_w":
        muts += ["retarget-symlink-out"] * 3
    mut = rng.choice(muts)
    suffix = rng.choice(SUFFIXES)
    spec = {"target": "dyn/base", "route": rng.choice(["ctor", "setter", "deserialize"]), "cwd": cwd, "base": base,
            "base_class": bcls, "loc": loc, "A": rng.choice(["none"] + ALL_ENTRIES), "mut": mut, "suffix": suffix,
            "B": rng.choice(ALL_ENTRIES), "positionA": rng.choice(["init", "subinit"]),
            "positionB": rng.choice(["init", "subinit"])}
    spec.update(L.gen_tensor_params(rng))
    return spec


def _apply_mutation(sb: Sandbox, spec: dict, t, mut: str, cur_base: str) -> str:
    """Harness-side change of the world; returns the (possibly new) base_dir string."""
    R = sb.R
    victim = f"{R}/dyn/base/{DYN_LOCS[spec['loc']]}"
    rel_in_out = DYN_LOCS[spec["loc"]]  # same relative name exists under dyn/out
    if mut in ("none", ""):
        pass
    elif mut == "swap-symlink-out":
        os.unlink(victim)
        os.symlink(f"{R}/dyn/out/{rel_in_out}", victim)
    elif mut == "swap-symlink-out-rel":
        os.unlink(victim)
        os.symlink(("../" * (1 + rel_in_out.count("/"))) + "out/" + rel_in_out, victim)
    elif mut == "swap-symlink-case-sibling":
        os.unlink(victim)
        os.symlink(f"{R}/dyn/Base/{rel_in_out}", victim)
    elif mut == "swap-hardlink-out":
        os.unlink(victim)
        os.link(f"{R}/dyn/out/{rel_in_out}", victim)
    elif mut == "add-hardlink":
        os.link(victim, f"{R}/dyn/out/extra.bin")
    elif mut == "swap-symlink-inside":
        os.unlink(victim)
        os.symlink(f"{R}/dyn/base/other.bin", victim)
    elif mut == "swap-regular":
        os.unlink(victim)
        L.write_canary_file(victim, L.canary("dyn-new-content"))
    elif mut == "swap-dir-symlink-out":
        os.rename(f"{R}/dyn/base/sub", f"{R}/dyn/hold/sub_real")
        os.symlink("../out/sub", f"{R}/dyn/base/sub")
    elif mut == "retarget-symlink-out":
        os.unlink(f"{R}/dyn/base/ln_w")
        os.symlink("../out/w.bin", f"{R}/dyn/base/ln_w")
    elif mut in REBASE:
        cur_base = sb.subst(REBASE[mut])
        t.base_dir = cur_base
    elif mut == "release":
        t.release()
    elif mut == "invalidate":
        t.invalidate()
    elif mut == "restore":
        sb.dyn_reset()
    else:
        raise AssertionError(mut)
    return cur_base


def _stateful_entry(sb: Sandbox, entry: str, t, position: str):
    sb.reset_scratch()
    AUDIT.events = []
    try:
        if entry in L.MODEL_ENTRIES:
            model = L.lib(lambda: L.model_with(t, position, companion=L.wants_companion(entry)))
            return ("bytes", L.run_model_entry(sb, entry, model, t.name)), AUDIT.events
        return ("bytes", L.run_tensor_entry(sb, entry, t)), AUDIT.events
    except LibRaised as e:
        return ("raised", e.exc), AUDIT.events


def run_stateful_case(ctx, sb: Sandbox, spec: dict, count: bool = True):
    """-> (violations [(kinds, text)], truth at second read, outcome of second read)."""
    c = ctx if count else _NullCtx()
    sb.dyn_reset()
    os.chdir(f"{sb.R}/{spec['cwd']}")
    base_o, loc_o = _objs(sb, spec)
    cur_base = base_o
    off = spec["offset"] or 0
    n = L.nbytes_of(spec)
    t = None
    try:
        try:
            t = L.lib(lambda: L.make_tensor(spec["route"], base_o, loc_o, spec))
        except LibRaised:
            c.count("stateful_construction_raised")
            return [], None, None
        # ---- first read: must be the legitimate one --------------------------------------------
        prev = None
        if spec["A"] != "none":
            truth0 = L.compute_truth(sb, base_o, loc_o)
            assert truth0.allowed, "harness: stateful cases start at an allowed location"
            outcome0, events0 = _stateful_entry(sb, spec["A"], t, spec["positionA"])
            for kind, sig, text in judge_read(_NullCtx(), sb, dict(spec, entry=spec["A"]), truth0, outcome0, events0):
                raise AssertionError(f"harness: first read of a stateful case misbehaved: {sig} {text}")
            if outcome0[0] == "raised":
                c.count("report_only_stateful_first_read_refused")
                return [], None, None
            prev = outcome0[1]
            c.count("stateful_first_read_ok")
        mapped = getattr(t, "raw", None) is not None  # counting only
        # ---- the world changes -----------------------------------------------------------------
        for m in (spec["mut"], spec["suffix"]):
            cur_base = _apply_mutation(sb, spec, t, m, cur_base)
        sb.scan_dyn()
        # ---- second read, judged against the truth as it is *now* ------------------------------
        truth = L.compute_truth(sb, cur_base, loc_o)
        outcome, events = _stateful_entry(sb, spec["B"], t, spec["positionB"])
        c.count("stateful_cases")
        big = bool(L.size_class(spec))
        if big:
            c.count("big_stateful_cases")
        c.count(f"stateA:{spec['A']}")
        c.count(f"stateB:{spec['B']}")
        c.count(f"mut:{spec['mut']}{'+' + spec['suffix'] if spec['suffix'] else ''}")
        c.count(f"stateful_truth:{truth.cls}")
        kinds, texts = [], []
        opened_files = 0
        for ev in events:
            e = sb.inv.get((ev[1], ev[2]))
            if e is None or e.kind == "dir":
                continue
            opened_files += 1
            c.count(f"audit_inventory_{ev[0]}")
            if truth.allowed and (ev[1], ev[2]) == truth.key:
                continue
            kinds.append(f"{ev[0]}-observed")
            texts.append(f"{ev[0]}({ev[3]}) reached {e.relpaths} (nlink={e.nlink}), not an allowed file now")
        if outcome[0] == "raised":
            exc = type(outcome[1]).__name__
            if truth.allowed:
                c.count("report_only_allowed_location_refused")
            else:
                c.count(f"stateful_outcome:disallowed-raised:{exc}")
                if truth.exists and not truth.cls.startswith("directory"):
                    c.count("stateful_disallowed_existing_file_refused")
                    if big:
                        c.count("big_stateful_disallowed_existing_file_refused")
                    if mapped:
                        c.count("stateful_refused_although_previously_mapped")
        else:
            data = outcome[1]
            src = sb.source_of(data, off) if len(data) >= 8 else None
            if truth.allowed and src is sb.inv[truth.key] and len(data) == n:
                c.count("stateful_outcome:allowed-read-ok")
                if big:
                    c.count("big_stateful_allowed_read_ok")
            elif prev is not None and data == prev:
                # bytes of the file validated by the first read, served from the retained mapping
                # (the statement does not say a mapping must be dropped).  If instead the file was
                # re-opened by name and is not allowed now, the open observed above already counts.
                fam = "base_dir_change" if spec["mut"] in REBASE else "file_change"
                c.count(f"report_only_stale_mapping_served_after_{fam}")
            elif truth.allowed and src is None:
                c.count("report_only_allowed_read_unexpected_bytes")
            else:
                kinds.append("bytes-returned")
                texts.append(f"{len(data)} byte(s) delivered (canary of {src.relpaths if src else '?'}) although the "
                             f"location is now {'allowed but another file' if truth.allowed else 'not allowed: ' + truth.cls}")
        viols = [(sorted(set(kinds)), "; ".join(texts))] if kinds else []
        return viols, truth, outcome
    finally:
        _release(t)
        sb.dyn_reset()


def stateful_signature(spec: dict) -> str:
    mut = spec["mut"] + ("+" + spec["suffix"] if spec["suffix"] else "")
    return f"escape-after-prior-read|A={spec['A']}|mut={mut}|B={spec['B']}{L.size_suffix(spec)}"


def describe_stateful(spec: dict, truth, outcome) -> str:
    out = f"raised {outcome[1]!r}"[:200] if outcome[0] == "raised" else f"returned {len(outcome[1])} bytes"
    return (f"tensor(location={spec['loc']!r}, base_dir={spec['base']!r} [{spec['base_class']}, cwd=$R/{spec['cwd']}, "
            f"route={spec['route']}], dtype={spec['dtype']}, shape={spec['shape']}, offset={spec['offset']}, "
            f"length={spec['length']}): step 1 read via {spec['A']}; step 2 {spec['mut']}"
            f"{' then ' + spec['suffix'] if spec['suffix'] else ''}; step 3 read via {spec['B']} -> {out}; truth at step 3: "
            f"{truth.cls} allowed={truth.allowed} resolves_to={truth.relpaths} (base $R/{truth.base_rel})")


def report_stateful(ctx, sb: Sandbox, spec: dict, viols) -> None:
    def still(sp):
        v, _, _ = run_stateful_case(ctx, sb, sp, count=False)
        return bool(v)

    cur = dict(spec)
    for change in ({"suffix": ""}, {"A": "none"}, {"route": "ctor"},
                   {"base": "$R/dyn/base", "cwd": "work", "base_class": "abs"},
                   {"dtype": "UINT8", "shape": [8], "offset": None, "length": None}):
        if all(cur.get(k) == v for k, v in change.items()):
            continue
        cand = dict(cur, **change)
        if still(cand):
            cur = cand
    if L.size_class(cur):  # needs a large tensor: smallest size-class boundary that keeps the violation
        for k, _w in L.SIZE_TIERS:
            if (1 << k) >= L.nbytes_of(cur):
                break
            cand = dict(cur, dtype="UINT8", shape=[1 << k], offset=None, length=None)
            if still(cand):
                cur = cand
                break
    v, truth, outcome = run_stateful_case(ctx, sb, cur, count=False)
    kinds, text = v[0]
    ctx.violation(stateful_signature(cur),
                  f"{'/'.join(kinds)}: {text}. Witness (shrunk): {describe_stateful(cur, truth, outcome)}",
                  {"kind": "stateful", "spec": cur})


# --------------------------------------------------------------------------------------------
# ir.load cases
# --------------------------------------------------------------------------------------------


LINK_SHARE = 0.3
FOLD_STRATUM = 8  # every 8th case number uses the name-folding family (fixed stratum)
_LOAD_SHRUNK: dict[str, str] = {}  # unshrunk base-dir signature -> signature of its shrunk witness (per shard)


def gen_load_case(rng, sb: Sandbox, fold: bool = False) -> dict:
    target = rng.choice(L.BASE_TARGETS)
    fname = "m.onnx" if rng.random() < 0.85 else "m.textproto"
    # a third of the load cases reach the model FILE through a symbolic link that lives in the
    # target directory and leads (directly or over a second link) to the real file elsewhere
    link = L.gen_model_link(rng, target, fname) if rng.random() < LINK_SHARE else None
    if fold:  # model stored in a directory of the name-folding family (no model-file links there)
        target, link = _fold_target(rng), None
    spellings = L.load_spellings(target, link["name"] if link else fname)
    if link:  # the static ln_<fname> links do not exist for the per-case link name
        spellings = [s for s in spellings if not s[0].startswith("symlinked-model-file")]
    scls, cwd, sp, judged = rng.choice(spellings)
    spec = {"target": target, "fname": fname, "spelling": sp, "spelling_class": scls, "cwd": cwd,
            "judged": judged, "pathlike": rng.random() < 0.2, "tensors": [], "link": link,
            # the directory that holds the directory entry named by the caller
            "model_dir": "outside" if scls == "symlinked-model-file-other-dir" else target}
    if rng.random() < 0.65:
        spec["mode"] = "tensors"
        for pos in L.POSITIONS:
            loc, style = L.gen_location(rng, sb, target)
            spec["tensors"].append(dict(L.gen_tensor_params(rng), name=f"t_{pos}", position=pos, loc=loc,
                                        loc_style=style, entry=rng.choice(L.TENSOR_ENTRIES)))
        rel = "../B_evil/evil.bin" if target == "work/B" else "../sub_evil/e.bin"
        decoyed = "data.bin" if target == "work/B" else "inner.bin"  # same-named decoys exist elsewhere
        if fold:
            other = rng.choice([n for n in L.FOLD_NAMES if "fold/" + n != target])
            rel, decoyed = f"../{other}/data.bin", "data.bin"
        for name, loc in (("w_escape_rel", rel), ("w_escape_abs", "$R/outside/secret.bin"), ("w_decoyed", decoyed)):
            spec["tensors"].append({"dtype": "UINT8", "shape": [16], "offset": None, "length": None, "name": name,
                                    "position": "init", "loc": loc, "loc_style": "fixed-witness",
                                    "entry": rng.choice(["tobytes", "numpy", "tofile_bytesio"])})
    else:
        spec["mode"] = "model"
        pos = rng.choice(L.INIT_POSITIONS)
        loc, style = L.gen_location(rng, sb, target)
        spec["entry"] = rng.choice(L.MODEL_ENTRIES)
        spec["tensors"].append(dict(L.gen_tensor_params(rng), name=f"t_{pos}", position=pos, loc=loc,
                                    loc_style=style, entry=spec["entry"]))
    return spec


def _write_model(sb: Sandbox, spec: dict) -> tuple[str, list[str]]:
    """-> (path of the real model file, paths to remove after the case)."""
    by_pos: dict[str, list] = {}
    for ts in spec["tensors"]:
        by_pos.setdefault(ts["position"], []).append(L.tensor_proto(ts["name"], sb.subst(ts["loc"]), ts))
    if spec["mode"] == "model" and L.wants_companion(spec.get("entry", "")):
        comp = onnx.helper.make_tensor("companion", onnx.TensorProto.UINT8, [24], bytes(range(24)), raw=True)
        by_pos.setdefault(spec["tensors"][0]["position"], []).insert(0, comp)
    proto = L.build_model_proto(by_pos)
    fmt = "textproto" if spec["fname"].endswith(".textproto") else "protobuf"
    link = spec.get("link")
    if not link:
        written = f"{sb.R}/{spec['target']}/{spec['fname']}"
        onnx.save(proto, written, format=fmt)
        return written, []
    written = f"{sb.R}/{link['blob'][0]}/{link['blob'][1]}"
    created = [written]
    onnx.save(proto, written, format=fmt)
    for (d, n), text in zip(link["chain"], link["texts"]):
        p = f"{sb.R}/{d}/{n}"
        if os.path.lexists(p):
            os.unlink(p)
        os.symlink(sb.subst(text), p)
        created.append(p)
    return written, created


def _named_directory(path: str) -> os.stat_result:
    """The model's directory for ``ir.load(path)``: the directory that holds the directory entry
    the caller named - dirname of the path as given ('.' for a bare name), resolved by the kernel
    (a "<symlinked-dir>/.." component goes up from the link's destination; the LAST component is
    not followed).  Cross-checked with the textual formulation realpath(cwd/dirname)."""
    d = os.path.dirname(path) or "."
    fd = os.open(d, os.O_RDONLY | os.O_DIRECTORY)
    try:
        st = os.fstat(fd)
        os.lstat(os.path.basename(path), dir_fd=fd)  # the named entry lives there
    finally:
        os.close(fd)
    st2 = os.stat(os.path.realpath(os.path.join(os.getcwd(), d)))
    if (st.st_dev, st.st_ino) != (st2.st_dev, st2.st_ino):
        raise AssertionError(f"harness: kernel and realpath disagree on the directory of {path!r}")
    return st


def run_load_case(ctx, sb: Sandbox, spec: dict, count: bool = True) -> list:
    """-> list of (signature, message).  Judges the base-dir clause and every read."""
    c = ctx if count else _NullCtx()
    written, created = _write_model(sb, spec)
    try:
        return _run_load_case(ctx, c, sb, spec, written, count)
    finally:
        for p in created:
            try:
                os.unlink(p)
            except OSError:
                pass


def _run_load_case(ctx, c, sb: Sandbox, spec: dict, written: str, count: bool) -> list:
    link = spec.get("link")
    os.chdir(f"{sb.R}/{spec['cwd']}" if spec["cwd"] else sb.R)
    sp = sb.subst(spec["spelling"])
    sp_o = pathlib.Path(sp) if spec["pathlike"] else sp
    scls = spec["spelling_class"]
    if spec["judged"] and "/" not in os.fspath(sp_o):
        scls = "bare-filename"  # e.g. pathlib turns "./m.onnx" into "m.onnx"
    # how the last component of the path reaches the real model file
    fcls = f"symlink:{link['class']}" if link else (
        "symlink:other-dir" if scls == "symlinked-model-file-other-dir" else
        "symlink:same-dir" if scls == "symlinked-model-file" else "regular")
    if len((link or {}).get("chain", ())) > 1:
        fcls += "-chained"
    c.count("load_cases")
    c.count(f"load_spelling:{scls}")
    c.count(f"load_model_file:{fcls}")
    AUDIT.events = []
    try:
        model = L.lib(lambda: ir.load(sp_o))
    except LibRaised as e:
        c.count(f"load_raised:{type(e.exc).__name__}")
        if spec["judged"]:
            c.count("report_only_load_raised_for_valid_spelling")
        return []
    if not spec["judged"]:
        c.count("report_only_unjudged_spelling_loaded")
    tensors = L.collect_external_tensors(model)
    expected = {ts["name"] for ts in spec["tensors"]}
    if set(tensors) != expected:
        raise AssertionError(f"harness: loaded external tensors {sorted(tensors)} != written {sorted(expected)}")
    model_rel = spec.get("model_dir") or spec["target"]
    model_dir = f"{sb.R}/{model_rel}"
    dst = os.stat(model_dir)
    if spec["judged"]:
        # the model's directory = the directory holding the entry the caller named (NOT the
        # directory of whatever file a symlinked last component leads to)
        named = _named_directory(os.fspath(sp_o))
        if (named.st_dev, named.st_ino) != (dst.st_dev, dst.st_ino):
            raise AssertionError(f"harness: spelling {sp!r} does not name an entry of {model_dir}")
        fst, wst = os.stat(os.fspath(sp_o)), os.stat(written)
        if (fst.st_dev, fst.st_ino) != (wst.st_dev, wst.st_ino):
            raise AssertionError(f"harness: spelling {sp!r} does not reach the model written to {written}")
    bad: dict[str, str] = {}  # tensor name -> "empty" | "wrong"
    for ts in spec["tensors"]:
        t = tensors[ts["name"]]
        b = os.fspath(t.base_dir)
        status = "ok"
        if b == "":
            status = "empty"
        else:
            try:
                st = os.stat(b)
                if (st.st_dev, st.st_ino) != (dst.st_dev, dst.st_ino):
                    status = "wrong"
            except (OSError, ValueError):
                status = "wrong"
        if spec["judged"]:
            c.count("load_tensors_checked")
            c.count(f"load_base_dir_{status}")
            if fcls not in ("regular", "symlink:same-dir", "symlink:same-dir-via-dirlink"):
                c.count("load_base_dir_judged_for_model_file_symlinked_into_another_dir")
            if status != "ok":
                bad[ts["name"]] = status
                c.count(f"load_base_dir_{status}:position={ts['position']}")
    out = []
    witnesses = []
    # ---- reads through the loaded tensors ----------------------------------------------------
    for ts in spec["tensors"]:
        t = tensors[ts["name"]]
        b = os.fspath(t.base_dir)
        rspec = dict(ts, route="load", base=sb.unsubst(b), base_class=f"load:{scls}",
                     cwd=spec["cwd"], target=spec["target"])
        loc = sb.subst(ts["loc"])
        # truth relative to the directory the base *should* denote when load got it wrong
        misbased = ts["name"] in bad
        truth = L.compute_truth(sb, model_dir if misbased else b, loc)
        sb.reset_scratch()
        AUDIT.events = []
        try:
            if spec["mode"] == "model":
                outcome = ("bytes", L.run_model_entry(sb, spec["entry"], model, ts["name"]))
            else:
                outcome = ("bytes", L.run_tensor_entry(sb, ts["entry"], t))
        except LibRaised as e:
            outcome = ("raised", e.exc)
        finally:
            _release(t)
        events = AUDIT.events
        if misbased:
            # the violation is the base directory itself (last sentence of the statement); what the
            # reads then deliver relative to the *model's* directory is kept as witness
            if outcome[0] == "bytes":
                src = sb.source_of(outcome[1], ts["offset"] or 0)
                if not truth.allowed or src is not sb.inv[truth.key]:
                    c.count(f"report_only_escape_through_{bad[ts['name']]}_base_dir")
                    witnesses.append(
                        f"tensor {ts['name']!r} (position {ts['position']}) location {ts['loc']!r} read through "
                        f"{ts['entry']} returned {len(outcome[1])} bytes = canary of {src.relpaths if src else '?'}, "
                        f"not a file of the model directory ({truth.cls}"
                        f"{', the model-directory file of that name is ' + str(truth.relpaths) if truth.allowed else ''})")
            continue
        viols = judge_read(c, sb, rspec, truth, outcome, events)
        c.count("reads_judged")
        c.count(f"truth:{truth.cls}")
        c.count(f"entry:{rspec['entry']}")
        c.count("route:load")
        c.count(f"style:{ts.get('loc_style', '?')}")
        if count:
            ctx.evaluation(key=["load", spec["spelling"], spec["cwd"], ts["loc"], rspec["entry"]],
                           nontrivial=truth.exists)
        for kind, sig, text in viols:
            out.append((sig, f"{text}. Witness: model {sb.unsubst(written)} loaded with "
                             f"ir.load({spec['spelling']!r}) from cwd=$R/{spec['cwd']}; "
                             f"{describe(sb, rspec, truth, outcome)}"))
    # ---- base-dir clause ---------------------------------------------------------------------
    if bad:
        wit = ("; consequence: " + " | ".join(witnesses[:3])) if witnesses else ""
        how = f"ir.load({'Path(' if spec['pathlike'] else ''}{spec['spelling']!r}{')' if spec['pathlike'] else ''}) with cwd=$R/{spec['cwd']}"
        if link:
            how += (" where " + ", ".join(f"$R/{d}/{n} -> {t!r}" for (d, n), t in zip(link["chain"], link["texts"]))
                    + f" (symbolic links; the real model file is $R/{link['blob'][0]}/{link['blob'][1]})")
        elif fcls != "regular":
            how += f" where the named file is a symbolic link to $R/{spec['target']}/{spec['fname']}"
        mf = "" if fcls in ("regular", "symlink:same-dir") else f"|model-file={fcls}"
        if len(bad) == len(spec["tensors"]) and len(set(bad.values())) == 1:
            status = next(iter(bad.values()))
            out.append((
                f"load-base-dir:{status}|spelling={scls}{mf}",
                f"{how}: every external tensor of the model got base_dir "
                f"{os.fspath(tensors[spec['tensors'][0]['name']].base_dir)!r} ({status}) instead of the model's "
                f"directory $R/{model_rel}, so containment is "
                f"{'disabled' if status == 'empty' else 'anchored at the wrong directory'}{wit}"))
        else:
            for ts in spec["tensors"]:
                if ts["name"] in bad:
                    out.append((
                        f"load-base-dir:{bad[ts['name']]}|position={ts['position']}{mf}",
                        f"{how}: external tensor {ts['name']!r} at position {ts['position']} got base_dir "
                        f"{os.fspath(tensors[ts['name']].base_dir)!r} ({bad[ts['name']]}) while the model's directory is "
                        f"$R/{model_rel}{wit}"))
    return out


def shrink_load(ctx, sb: Sandbox, spec: dict, sig: str) -> dict:
    """Greedy simplification of a load case that violates the base-dir clause: plain absolute
    spelling, str instead of PathLike, a single direct relative link - kept only while a
    base-dir violation of the same status remains."""
    status = sig.split("|")[0]

    def still(sp: dict) -> bool:
        try:
            return any(s2.split("|")[0] == status for s2, _ in run_load_case(ctx, sb, sp, count=False))
        except (AssertionError, OSError, ValueError):
            return False

    cur = dict(spec)
    link = spec.get("link")
    name = link["name"] if link else spec["fname"]
    cands = [{"pathlike": False}]
    if spec["spelling_class"] != "symlinked-model-file-other-dir":
        cands.append({"spelling": f"$R/{spec['target']}/{name}", "cwd": "outside", "spelling_class": "abs"})
    if link and len(link["chain"]) > 1:
        cands.append({"link": dict(link, chain=link["chain"][:1],
                                   texts=[os.path.relpath("/".join(link["blob"]), spec["target"])])})
    for change in cands:
        if all(cur.get(k) == v for k, v in change.items()):
            continue
        cand = dict(cur, **change)
        if still(cand):
            cur = cand
    return cur


# --------------------------------------------------------------------------------------------
# strace observer (thorough tier)
# --------------------------------------------------------------------------------------------

_LINE = re.compile(r"^(\d+)\s+(\w+)\((.*)$")
_RESUMED = re.compile(r"^(\d+)\s+<\.\.\. (\w+) resumed>(.*)$")
_STR = re.compile(r'"((?:[^"\\]|\\.)*)"')
_RET = re.compile(r"\)\s+=\s+(-?\d+)")
_MARK = "/__c10_case__/"


def _c_unescape(s: str) -> str:
    out = bytearray()
    i = 0
    simple = {"n": 10, "t": 9, "r": 13, "v": 11, "f": 12, "\\": 92, '"': 34, "e": 27, "a": 7, "b": 8}
    while i < len(s):
        ch = s[i]
        if ch != "\\":
            out += ch.encode("utf-8", "surrogateescape")
            i += 1
            continue
        i += 1
        ch = s[i]
        if ch in simple:
            out.append(simple[ch])
            i += 1
        elif ch == "x":
            out.append(int(s[i + 1:i + 3], 16))
            i += 3
        elif ch in "01234567":
            j = i
            while j < len(s) and j < i + 3 and s[j] in "01234567":
                j += 1
            out.append(int(s[i:j], 8) & 0xFF)
            i = j
        else:
            out += ch.encode()
            i += 1
    return os.fsdecode(bytes(out))


def parse_strace(log_path: str) -> tuple[dict[int, list[str]], int]:
    """-> ({case index: [paths opened successfully]}, number of lines that could not be attributed)."""
    opens: dict[int, list[str]] = {}
    cur = None
    pending: dict[str, str] = {}
    unresolved = 0
    with open(log_path, errors="surrogateescape") as f:
        for line in f:
            line = line.rstrip("\n")
            if _MARK in line:
                m = re.search(re.escape(_MARK) + r"(\w+)", line)
                cur = int(m.group(1)) if m and m.group(1).isdigit() else None
                continue
            if cur is None:
                continue
            m = _LINE.match(line)
            if m:
                pid, name, rest = m.groups()
                if rest.endswith("<unfinished ...>"):
                    pending[pid] = name + "(" + rest
                    continue
            else:
                r = _RESUMED.match(line)
                if not r:
                    continue
                pid, name, tail = r.groups()
                head = pending.pop(pid, None)
                if head is None:
                    unresolved += 1
                    continue
                name, rest = head.split("(", 1)
                rest = rest.replace("<unfinished ...>", "") + tail
            if name not in ("open", "openat", "openat2", "creat"):
                continue
            ret = _RET.search(rest)
            if not ret or int(ret.group(1)) < 0:
                continue
            if name.startswith("openat") and not rest.startswith("AT_FDCWD"):
                s = _STR.search(rest)
                if not (s and s.group(1).startswith("/")):
                    unresolved += 1
                    continue
            s = _STR.search(rest)
            if s:
                opens.setdefault(cur, []).append(_c_unescape(s.group(1)))
    return opens, unresolved


def strace_batch(ctx, sb: Sandbox, n: int) -> None:
    strace = shutil.which("strace")
    if not strace:
        ctx.note("strace observer unavailable: strace not found")
        ctx.count("strace_unavailable")
        return
    specs = []
    i = 0
    while len(specs) < n:
        s = gen_read_case(ctx.rng(f"strace:{ctx.shard}:{i}"), sb, tensor_entries_only=True, fold=i % 6 == 5)
        i += 1
        if "parallel" not in s["entry"]:
            specs.append(s)
    side = os.path.dirname(sb.R)
    cases_p, out_p, log_p = (f"{side}/c10_strace_{x}" for x in ("cases.json", "out.json", "log.txt"))
    with open(cases_p, "w") as f:
        json.dump(specs, f)
    os.chdir(sb.R)
    cmd = [strace, "-f", "-qq", "-s", "16384", "-e", "trace=%file", "-o", log_p,
           sys.executable, "-m", "vfpy.c10_strace_child", sb.R, cases_p, out_p]
    root = os.environ.get("VF_ROOT") or str(pathlib.Path(__file__).resolve().parents[2])
    proc = None
    for extra in (["--seccomp-bpf"], []):
        try:
            proc = subprocess.run(cmd[:1] + extra + cmd[1:], cwd=root, capture_output=True, text=True, timeout=600)
        except subprocess.TimeoutExpired:
            ctx.note("strace observer: child timed out")
            ctx.count("strace_unavailable")
            return
        if proc.returncode == 0 and os.path.exists(out_p):
            break
    if proc is None or proc.returncode != 0 or not os.path.exists(out_p):
        ctx.note(f"strace observer unavailable: rc={proc.returncode if proc else '?'} {(proc.stderr if proc else '')[-300:]}")
        ctx.count("strace_unavailable")
        return
    with open(out_p) as f:
        results = json.load(f)
    opens, unresolved = parse_strace(log_p)
    ctx.count("strace_unattributed_lines", unresolved)
    for idx, (spec, res) in enumerate(zip(specs, results)):
        cwd = f"{sb.R}/{spec['cwd']}" if spec["cwd"] else sb.R
        os.chdir(cwd)
        base_o, loc_o = _objs(sb, spec)
        truth = L.compute_truth(sb, base_o, loc_o)
        events = []
        for p in opens.get(idx, []):
            try:
                st = os.stat(p if p.startswith("/") else os.path.join(cwd, p))
            except (OSError, ValueError):
                continue
            events.append(("open", st.st_dev, st.st_ino, repr(p)))
        outcome = ("bytes", bytes.fromhex(res["hex"]) + bytes(res.get("zeros", 0))) if res["kind"] == "bytes" else ("raised", RuntimeError(res["exc"]))
        viols = judge_read(ctx, sb, spec, truth, outcome, events, observer="strace")
        ctx.count("strace_cases_observed")
        ctx.count("strace_child_audit_inventory_open", res.get("audit_events", 0))
        n_strace = sum(1 for ev in events if (ev[1], ev[2]) in sb.inv)
        if n_strace != res.get("audit_events", 0):
            # the two observers disagree on how many sandbox files were opened (e.g. an open made
            # below the Python level); reported, the verdict comes from each observer separately
            ctx.count("report_only_strace_audit_open_count_mismatch")
        ctx.evaluation(key=["strace"] + _case_key(spec), nontrivial=truth.exists)
        for kind, sig, text in viols:
            ctx.violation(sig, f"[strace batch] {text}. Witness: {describe(sb, spec, truth, outcome)}",
                          {"kind": "read", "spec": spec})
    for p in (cases_p, out_p, log_p):
        try:
            os.remove(p)
        except OSError:
            pass


# --------------------------------------------------------------------------------------------
# driver
# --------------------------------------------------------------------------------------------


def _new_sandbox(prefix: str) -> tuple[Sandbox, str]:
    parent = os.environ.get("VF_SHARD_TMP")
    holder = tempfile.mkdtemp(prefix=prefix, dir=parent if parent and os.path.isdir(parent) else None)
    return Sandbox(os.path.join(holder, "c10")), holder


def run(ctx) -> None:
    logging.getLogger("onnx_ir").setLevel(logging.ERROR)
    home = os.getcwd()
    sb, holder = _new_sandbox("sb-")
    AUDIT.install()
    try:
        if ctx.params.get("strace_batch"):
            strace_batch(ctx, sb, int(ctx.params["strace_batch"]))
        n_cases = 0
        for case in ctx.case_ids():
            rng = ctx.rng(case)
            n_cases += 1
            kind_draw = rng.random()
            if case % FOLD_STRATUM == FOLD_STRATUM - 3:
                # fixed stratum: base directories / model directories of the name-folding family
                if kind_draw < 0.2:
                    spec = gen_load_case(rng, sb, fold=True)
                    _do_load_case(ctx, sb, spec, n_cases)
                else:
                    spec = gen_read_case(rng, sb, fold=True)
                    _do_read_case(ctx, sb, spec, n_cases)
                ctx.count("name_fold_family_cases")
                continue
            if kind_draw > 0.84:
                spec = gen_stateful_case(rng, sb)
                viols, truth, outcome = run_stateful_case(ctx, sb, spec)
                if truth is not None:
                    ctx.evaluation(key=["stateful", spec["base"], spec["loc"], spec["A"], spec["mut"], spec["suffix"],
                                        spec["B"]], nontrivial=truth.exists and spec["A"] != "none")
                    if n_cases % 40 == 11:
                        ctx.sample({"kind": "stateful", "A": spec["A"], "mut": spec["mut"], "suffix": spec["suffix"],
                                    "B": spec["B"], "location": spec["loc"], "truth_at_second_read": truth.cls,
                                    "outcome": outcome[0] if outcome[0] == "bytes" else type(outcome[1]).__name__})
                if viols:
                    report_stateful(ctx, sb, spec, viols)
                continue
            if kind_draw < 1 / 6:
                spec = gen_load_case(rng, sb)
                _do_load_case(ctx, sb, spec, n_cases)
                continue
            spec = gen_read_case(rng, sb)
            _do_read_case(ctx, sb, spec, n_cases)
        if AUDIT.errors:
            ctx.count("audit_hook_errors", AUDIT.errors)
            raise AssertionError(f"harness: audit hook failed {AUDIT.errors} time(s)")
    finally:
        os.chdir(home)
        shutil.rmtree(holder, ignore_errors=True)


def _do_load_case(ctx, sb: Sandbox, spec: dict, n_cases: int) -> None:
    viols = run_load_case(ctx, sb, spec)
    ctx.evaluation(key=["load-clause", spec["spelling"], spec["cwd"], spec["pathlike"], spec["mode"]],
                   nontrivial=spec["judged"])
    if n_cases % 40 == 7:
        ctx.sample({"kind": "load", "spelling": spec["spelling"], "cwd": spec["cwd"], "mode": spec["mode"],
                    "locations": [t["loc"] for t in spec["tensors"]][:4]})
    first = next((sig for sig, _ in viols if sig.startswith("load-base-dir:")), None)
    if first is not None and first not in _LOAD_SHRUNK:
        # shrink once per (status, spelling class, model-file class); later instances
        # of the same unshrunk signature are booked under the shrunk one
        small = shrink_load(ctx, sb, spec, first)
        v2 = run_load_case(ctx, sb, small, count=False) if small != spec else viols
        _LOAD_SHRUNK[first] = next((s2 for s2, _ in v2 if s2.startswith("load-base-dir:")), first)
        if small != spec and v2:
            spec, viols = small, v2
    seen = set()
    for sig, msg in viols:
        sig = _LOAD_SHRUNK.get(sig, sig) if sig == first else sig
        if sig not in seen:
            seen.add(sig)
            ctx.violation(sig, msg, {"kind": "load", "spec": spec})


def _do_read_case(ctx, sb: Sandbox, spec: dict, n_cases: int) -> None:
    truth, outcome, viols = run_read_case(ctx, sb, spec)
    ctx.evaluation(key=_case_key(spec), nontrivial=truth.exists)
    if n_cases % 25 == 3:
        ctx.sample({"kind": "read", "base": spec["base"], "cwd": spec["cwd"], "location": spec["loc"],
                    "entry": spec["entry"], "truth": truth.cls,
                    "outcome": outcome[0] if outcome[0] == "bytes" else type(outcome[1]).__name__})
    if viols:
        report_read_violations(ctx, sb, spec, truth, outcome, viols)


def replay(replay_data, ctx) -> None:
    logging.getLogger("onnx_ir").setLevel(logging.ERROR)
    home = os.getcwd()
    sb, holder = _new_sandbox("vf-c10-replay-")
    AUDIT.install()
    try:
        spec = replay_data["spec"]
        if replay_data["kind"] == "stateful":
            viols, truth, outcome = run_stateful_case(ctx, sb, spec)
            for kinds, text in viols:
                ctx.violation(stateful_signature(spec),
                              f"{'/'.join(kinds)}: {text}. Witness: {describe_stateful(spec, truth, outcome)}", replay_data)
        elif replay_data["kind"] == "load":
            for sig, msg in run_load_case(ctx, sb, spec):
                ctx.violation(sig, msg, replay_data)
        else:
            truth, outcome, viols = run_read_case(ctx, sb, spec)
            for kind, sig, text in viols:
                ctx.violation(sig, f"{text}. Witness: {describe(sb, spec, truth, outcome)}", replay_data)
    finally:
        os.chdir(home)
        shutil.rmtree(holder, ignore_errors=True)
