"""C19 - device annotations follow object identity and never dangle.

Workload: histories of replayable operation descriptors (vfpy/c19_world.py) over a generated
model (IR >= 11) with a main graph, nested subgraphs and a function, values of known and unknown
rank.  After EVERY step a monitor walks the current model with its own traversal and checks

  dangling-spec        every ShardingSpec.value is, by identity, a current input/output of its node
                       (also on nodes the history removed from their graph);
  annotation-survived  sharding_of(v) is empty on every node v has just left;
  unregistered-config  every NodeDeviceConfiguration.configuration is, by identity, one of
                       model.device_configurations;
  lib-check            onnx_ir._multi_device._check_device_configurations(model) == [];
  proto-*              in ir.to_proto(model): each NodeProto tensor_name is one of the current names of
                       that node's inputs/outputs (and appears in NodeProto.input/output), each
                       configuration_id names a configuration of the ModelProto;
  source-changed       cloning / serialising leaves the annotations, configurations and node inputs/outputs of
                       the SOURCE model as they were, and the library's checker still reports nothing on it
                       (the clauses hold for every model of the history, not only the newest one);
  invalid-accepted / invalid-changed-state / valid-rejected
                       an annotation request the harness's own oracle classifies invalid raises and
                       leaves the snapshot of every node.device_configurations and
                       model.device_configurations unchanged; a valid one does not raise.
"""

from __future__ import annotations

import logging

import onnx_ir as ir
from onnx_ir import _multi_device

from vfpy import shrink
from vfpy.c19_world import (C19World, Index, OpGen, gen_spec, io_values, on_node, resolution_ok,
                             shadowed_spec_refs)
from vfpy.ctx import stable_hash
from vfpy.histories import raise_site

logging.getLogger("onnx_ir").setLevel(logging.ERROR)

ID = "C19"
LEVEL = "exploration"
RULE = ("a case is one generated model (main graph + subgraphs + function; values of known and unknown rank; IR "
        "11-13) and a history of 12-70 operation descriptors over {add/remove_device_configuration (cascade, by object "
        "or name), shard (valid and invalid request classes), set_pipeline_stage, rename (to a fresh name, or to the name of a value of an enclosing/sibling graph = shadowing), replace_input_with, "
        "resize_inputs/outputs, replace_all_uses_with, safe remove, clone (Model.clone or Graph.clone+Function.clone "
        "re-assembled, deep_copy False/True; a nested graph replaced by its own clone), serialise+deserialise (in memory, "
        "bytes, file)}; all clauses are "
        "checked after every step; non-trivial = >=3 edit/clone/round-trip/cascade steps executed while a sharding "
        "spec was live and annotations in >=2 scopes; distinct = hash of the sequence of (operation kind, request class, raised)")
ASSUMPTIONS = [
    "the harness's own traversal (graph order, GRAPH/GRAPHS attributes, model.functions) reaches every node of the model",
    "validity oracle for requests is the harness's reading of the statement: value on node, num_shards >= 1, axis in "
    "[-rank, rank-1] when rank is known, no repeated axis (aliases compared modulo rank when known, literally otherwise), "
    "no stage different from an existing one in shard(); set_pipeline_stage with a different stage and duplicate "
    "configuration names are report-only (documentation and statement disagree or are silent)",
    "workload confinement: device indices in range, shapes never edited, non-empty names unique within each graph (inner values may shadow names of enclosing or sibling graphs, provided every by-identity reference is what an innermost-first name lookup finds; re-asserted after every step), graphs "
    "kept topologically sorted, a configuration still referenced by nodes is never removed without cascade",
    "_check_device_configurations is the library's own checker named by the statement (private; absence makes the shard fail, i.e. inconclusive)",
    "a node annotation dropped by clone/deserialisation is counted (report_only_annotations_lost), not judged: the statement does not demand preservation",
]

EDIT_KINDS = {"rename", "rename-shadow", "rin", "rsi", "rso", "rauw", "rm", "clone", "clone-deep", "clone-parts",
              "clone-parts-deep", "subclone", "subclone-deep", "roundtrip", "rmcfg-cascade", "rmcfg-cascade-byname"}
CLONE_KINDS = {"clone", "clone-deep", "clone-parts", "clone-parts-deep"}     # the whole model is replaced by a copy
PROTO_SITES = ("device", "shard")


# ------------------------------------------------------------------------------------------
# observables
# ------------------------------------------------------------------------------------------
def ann_snapshot(w: C19World, idx: Index):
    """Deep, identity-keyed snapshot of every node.device_configurations and of
    model.device_configurations (the observable an invalid request must leave unchanged)."""
    return _ann_snapshot(w.model, w.detached, idx)


def _ann_snapshot(model, detached, idx: Index):
    nodes = []
    for info in idx.nodes:
        nodes.append((id(info.node), _dcs(info.node)))
    for n in detached:
        nodes.append((id(n), _dcs(n)))
    cfgs = tuple((id(c), c.name, c.num_devices, tuple(c.device_names)) for c in model.device_configurations)
    return tuple(nodes), cfgs


def _dcs(node):
    out = []
    for dc in node.device_configurations:
        specs = []
        for s in dc.sharding_specs:
            dims = tuple((d.axis, tuple((repr(x.dim), x.num_shards) for x in d.simple_shardings)) for d in s.sharded_dims)
            gmap = tuple((e.key, tuple(e.value)) for e in s.index_to_device_group_map)
            specs.append((id(s.value), tuple(s.device), gmap, dims))
        out.append((id(dc.configuration), tuple(specs), dc.pipeline_stage))
    return tuple(out)


def io_map(w: C19World, idx: Index):
    return _io_map(w.detached, idx)


def _io_map(detached, idx: Index):
    m = {}
    for info in idx.nodes:
        m[id(info.node)] = (info.node, io_values(info.node))
    for n in detached:
        m[id(n)] = (n, io_values(n))
    return m


def count_annotations(idx: Index):
    specs = cfgs = 0
    scopes = set()
    for info in idx.nodes:
        for dc in info.node.device_configurations:
            cfgs += 1
            specs += len(dc.sharding_specs)
            scopes.add(info.scope)
    return specs, cfgs, scopes


def _proto_nodes(graph, out):
    for n in graph.node:
        if n.name in out:
            raise RuntimeError(f"harness: duplicate node name {n.name!r} in proto")
        out[n.name] = n
        for a in n.attribute:
            if a.HasField("g"):
                _proto_nodes(a.g, out)
            for g in a.graphs:
                _proto_nodes(g, out)


def _vname(v):
    return "None" if v is None else repr(v.name)


# ------------------------------------------------------------------------------------------
# the monitor
# ------------------------------------------------------------------------------------------
class Monitor:
    """``after`` returns a list of (clause, kind, message); the signature is ``clause|kind``."""

    def __init__(self, ctx=None, only=None):
        self.ctx = ctx
        self.only = only          # while shrinking: (clause, kind) that must re-appear
        self.live_edit_steps = 0
        self.scopes_seen: set[str] = set()

    def cnt(self, key, n=1):
        if self.ctx is not None and n:
            self.ctx.count(key, n)

    def before(self, w, op):
        idx = w.index()
        specs, cfgs, scopes = count_annotations(idx)
        return {"ann": ann_snapshot(w, idx), "io": io_map(w, idx), "specs": specs, "cfgs": cfgs, "scopes": scopes}

    def after(self, w, op, res, pre):
        if res.skipped:
            return []
        found: list[tuple[str, str, str]] = []
        kind = res.kind
        idx = w.index()
        self.cnt("monitor_steps")

        # ---- requests: invalid raises without effect, valid does not raise -------------------
        if res.expect in ("valid", "invalid", "report"):
            label = f"{kind}:{res.cls}"
            if res.expect == "invalid":
                self.cnt("invalid_requests_judged")
                self.cnt("invalid:" + label)
                if not res.raised:
                    found.append(("invalid-accepted", label, f"{op} was accepted"))
                elif ann_snapshot(w, idx) != pre["ann"]:
                    found.append(("invalid-changed-state", label,
                                  f"{op} raised {type(res.exc).__name__} but device configurations changed"))
            elif res.expect == "valid":
                self.cnt("valid_requests_judged")
                self.cnt("valid:" + label)
                if res.raised:
                    found.append(("valid-rejected", label, f"{op} raised {type(res.exc).__name__}: {res.exc}"))
                elif kind == "shard":
                    n, v, c, axis = (res.info[k] for k in ("node", "value", "cfg", "axis"))
                    ok = any(dc.configuration is c and s.value is v and any(d.axis == axis for d in s.sharded_dims)
                             for dc in n.device_configurations for s in dc.sharding_specs)
                    ok = ok and any(any(d.axis == axis for d in s.sharded_dims) for s in n.sharding_of(v))
                    if not ok:
                        self.cnt("report_only_valid_shard_without_visible_effect")
            else:
                self.cnt(f"report_only_{label}:" + ("raised" if res.raised else "accepted"))
                if res.raised and ann_snapshot(w, idx) != pre["ann"]:
                    found.append(("invalid-changed-state", label,
                                  f"{op} raised {type(res.exc).__name__} but device configurations changed"))
        elif res.raised:
            self.cnt(f"exc:{kind}:{type(res.exc).__name__}")
            if kind in CLONE_KINDS or kind in ("roundtrip", "rename", "subclone", "subclone-deep"):
                site = raise_site(res.exc)
                if kind == "roundtrip" and any(s in site.lower() for s in PROTO_SITES):
                    found.append(("serialize-raised", site, f"{op}: {type(res.exc).__name__}: {res.exc}"))
                else:
                    raise res.exc  # not an outcome the workload is meant to produce: harness/library problem -> inconclusive

        # ---- harness self-check: name-based serialisation of the workload is well defined ---------
        if not resolution_ok(idx):
            raise RuntimeError(f"harness: after {op} a by-identity reference is no longer what its name resolves to")

        # ---- bookkeeping for the evidence -----------------------------------------------------
        if not res.raised:
            if kind == "roundtrip":
                n = shadowed_spec_refs(idx)
                self.cnt("roundtrip_spec_refs_with_shadowing_name", n)
                if n:
                    self.cnt("roundtrips_with_shadowing_spec_names")
            if kind in EDIT_KINDS and pre["specs"] > 0:
                self.live_edit_steps += 1
                self.cnt("edit_steps_with_live_specs")
                self.cnt("edit_with_live_specs:" + kind)
                for s in pre["scopes"]:
                    self.cnt(f"{kind}_annotated_scope:{s}")
                if kind in CLONE_KINDS and kind != "clone":      # totals over the argument classes of cloning
                    self.cnt("edit_with_live_specs:clone")
                    for s in pre["scopes"]:
                        self.cnt(f"clone_annotated_scope:{s}")
                if kind.startswith("subclone"):
                    inner = outer = 0        # specs inside the freshly cloned graph / of those, on outer-scope values
                    new_graph = res.info["ret"]
                    for i in idx.nodes:
                        if not any(g is new_graph for g in idx.chain[id(i.graph)]):
                            continue
                        for dc in i.node.device_configurations:
                            for sp in dc.sharding_specs:
                                inner += 1
                                dg = idx.def_graph.get(id(sp.value)) if sp.value is not None else None
                                if dg is None or not any(g is new_graph for g in idx.chain[id(dg)]):
                                    outer += 1
                    if inner:
                        self.cnt("subclones_of_graphs_with_specs")
                    if outer:
                        self.cnt("subclones_with_specs_on_outer_scope_values")
            if kind in CLONE_KINDS or kind == "roundtrip":
                specs, cfgs, _ = count_annotations(idx)
                if (specs, cfgs) != (pre["specs"], pre["cfgs"]):
                    self.cnt("report_only_annotations_lost:" + kind)
                found += self.check_source(res, pre, kind)
            if kind.startswith("rmcfg-cascade") and res.cls == "referenced":
                self.cnt("cascade_removals_with_references")
                for s in pre["scopes"]:
                    self.cnt(f"cascade_annotated_scope:{s}")

        # ---- identity membership ------------------------------------------------------------
        registered = list(w.model.device_configurations)
        all_nodes = [(info.node, info.scope) for info in idx.nodes] + [(n, "detached") for n in w.detached]
        n_specs = n_cfgs = 0
        for node, scope in all_nodes:
            for dc in node.device_configurations:
                n_cfgs += 1
                self.scopes_seen.add(scope)
                if scope != "detached" and not any(dc.configuration is c for c in registered):
                    name = getattr(dc.configuration, "name", None)
                    found.append(("unregistered-config", kind,
                                  f"node {node.name!r} ({scope}) refers to configuration {name!r} which is not (by "
                                  f"identity) in model.device_configurations {[c.name for c in registered]}"))
                for spec in dc.sharding_specs:
                    n_specs += 1
                    if spec.value is None or not on_node(node, spec.value):
                        found.append(("dangling-spec", kind,
                                      f"node {node.name!r} ({scope}) has a spec for value {_vname(spec.value)} which is "
                                      f"not one of its inputs {[_vname(v) for v in node.inputs]} / outputs "
                                      f"{[_vname(v) for v in node.outputs]}"))
        self.cnt("specs_checked", n_specs)
        self.cnt("node_configurations_checked", n_cfgs)

        # ---- values that left a node --------------------------------------------------------
        if kind not in CLONE_KINDS and kind != "roundtrip":
            post = io_map(w, idx)
            for key, (node, before_io) in pre["io"].items():
                if key not in post:
                    continue
                after_ids = {id(v) for v in post[key][1]}
                for v in before_io:
                    if id(v) in after_ids:
                        continue
                    self.cnt("values_left_a_node")
                    had = any(s[0] == id(v) for dc in dict(pre["ann"][0]).get(key, ()) for s in dc[1])
                    if had:
                        self.cnt("annotated_values_left_a_node")
                        self.cnt("annotated_value_left:" + kind)
                    if node.sharding_of(v):
                        found.append(("annotation-survived", kind,
                                      f"node {node.name!r}: sharding_of({_vname(v)}) is non-empty after the value left the node"))

        # ---- the library's own checker ----------------------------------------------------
        errors = _multi_device._check_device_configurations(w.model)  # noqa: SLF001 - named by the statement
        self.cnt("lib_checker_runs")
        if errors:
            found.append(("lib-check", kind, "the library's device-configuration check reports: " + "; ".join(errors[:4])))

        # ---- serialized references -----------------------------------------------------------
        if self.only is None or self.only[0].startswith(("proto", "serialize")):
            found += self.check_proto(w, idx, kind)

        if self.only is not None:
            found = [f for f in found if (f[0], f[1]) == self.only]
        return found

    def check_source(self, res, pre, kind):
        """The model a clone / round trip was taken from keeps satisfying the clauses: nothing observable about its
        annotations changed (so what held before the step still holds) and the library's checker stays silent."""
        src, detached = res.info.get("source"), res.info.get("source_detached", [])
        if src is None:
            return []
        found = []
        sidx = Index(src)
        self.cnt("source_models_checked")
        if _ann_snapshot(src, detached, sidx) != pre["ann"]:
            found.append(("source-changed", kind, "device configurations of the source model (or of its nodes) differ "
                          "from before the step"))
        post = _io_map(detached, sidx)
        if ({k: [id(v) for v in io] for k, (_, io) in post.items()}
                != {k: [id(v) for v in io] for k, (_, io) in pre["io"].items()}):
            found.append(("source-changed", kind, "inputs/outputs of nodes of the source model differ from before the step"))
        errors = _multi_device._check_device_configurations(src)  # noqa: SLF001
        if errors:
            found.append(("lib-check-source", kind, "on the source model the library's device-configuration check "
                          "reports: " + "; ".join(errors[:4])))
        return found

    def check_proto(self, w, idx, kind):
        found = []
        try:
            proto = ir.to_proto(w.model)
        except Exception as e:  # noqa: BLE001
            site = raise_site(e)
            if any(s in site.lower() for s in PROTO_SITES):
                return [("serialize-raised", site, f"ir.to_proto(model) after {kind}: {type(e).__name__}: {e}")]
            raise
        self.cnt("proto_serializations")
        pnodes: dict = {}
        _proto_nodes(proto.graph, pnodes)
        for f in proto.functions:
            for n in f.node:
                if n.name in pnodes:
                    raise RuntimeError(f"harness: duplicate node name {n.name!r} in proto")
                pnodes[n.name] = n
                for a in n.attribute:
                    if a.HasField("g"):
                        _proto_nodes(a.g, pnodes)
                    for g in a.graphs:
                        _proto_nodes(g, pnodes)
        model_ids = {c.name for c in proto.configuration}
        ir_ids = {c.name for c in w.model.device_configurations}
        if model_ids != ir_ids:
            found.append(("proto-model-configurations", kind,
                          f"ModelProto.configuration names {sorted(model_ids)} != model.device_configurations {sorted(ir_ids)}"))
        n_refs = 0
        for info in idx.nodes:
            node = info.node
            if not node.device_configurations:
                continue
            p = pnodes.get(node.name)
            if p is None:
                raise RuntimeError(f"harness: node {node.name!r} not found in proto")
            current = {v.name for v in node.inputs if v is not None} | {v.name for v in node.outputs}
            pio = {n for n in list(p.input) + list(p.output) if n}
            if len(p.device_configurations) != len(node.device_configurations):
                self.cnt("report_only_proto_annotation_count_differs")
            for dcp in p.device_configurations:
                n_refs += 1
                if dcp.configuration_id not in model_ids:
                    found.append(("proto-configuration-id", kind,
                                  f"NodeProto {p.name!r} ({info.scope}) configuration_id {dcp.configuration_id!r} is not "
                                  f"a ModelProto configuration {sorted(model_ids)}"))
                for sp in dcp.sharding_spec:
                    n_refs += 1
                    if sp.tensor_name not in current or sp.tensor_name not in pio:
                        found.append(("proto-tensor-name", kind,
                                      f"NodeProto {p.name!r} ({info.scope}) tensor_name {sp.tensor_name!r} is not a current "
                                      f"input/output name {sorted(current)} (proto io {sorted(pio)})"))
        self.cnt("proto_references_checked", n_refs)
        return found


# ------------------------------------------------------------------------------------------
# driver
# ------------------------------------------------------------------------------------------
def replay_history(spec, ops, mon):
    """Returns (world, (step, op, result, findings) | None)."""
    w = C19World(spec)
    for step, op in enumerate(ops):
        pre = mon.before(w, op)
        res = w.apply(op)
        found = mon.after(w, op, res, pre)
        if found:
            return w, (step, op, res, found)
    return w, None


def describe(spec, ops):
    w = C19World(spec)
    out = []
    for op in ops:
        res = w.apply(op)
        tail = ""
        if res.skipped:
            tail = f"  -> skipped ({res.skipped})"
        elif res.raised:
            tail = f"  -> raised {type(res.exc).__name__}: {str(res.exc)[:100]}"
        cls = f" [{res.expect}:{res.cls}]" if res.expect else ""
        out.append(f"{op}{cls}{tail}")
    return out


def report(ctx, spec, ops, first, shrunk_sigs):
    clause, kind, _ = first
    sig = f"{clause}|{kind}"
    if sig in shrunk_sigs:
        ctx.violation(sig, "(same mechanism as the first witness)", None)
        return
    only = (clause, kind)

    def fails(sub):
        try:
            _, f = replay_history(spec, sub, Monitor(only=only))
        except Exception:  # noqa: BLE001 - a sub-history that breaks the harness is not a witness
            return False
        return bool(f)

    small = shrink.ddmin(ops, fails, max_tests=400)
    _, f = replay_history(spec, small, Monitor(only=only))
    if f is None:  # cannot happen when ddmin's predicate is deterministic; keep the unshrunk witness
        small, f = ops, (len(ops) - 1, ops[-1], None, [first])
    small = small[: f[0] + 1]
    msgs = [m for _, _, m in f[3][:4]]
    message = (f"{clause} after {kind}.\n  " + "\n  ".join(msgs) + "\n  minimal history (model spec in the replay file):\n    "
               + "\n    ".join(describe(spec, small)))
    shrunk_sigs.add(sig)
    ctx.violation(sig, message, {"spec": spec, "ops": small})


def run_case(ctx, case, shrunk_sigs):
    rng = ctx.rng(case)
    spec = gen_spec(rng)
    hostile = rng.choice([0.6, 1.0, 1.5])
    length = rng.choice([12, 25, 40, 55, 70])
    w = C19World(spec)
    gen = OpGen(rng, w, hostile)
    mon = Monitor(ctx)
    ops, trace = [], []
    failure = None
    for _ in range(length):
        op = gen.op()
        pre = mon.before(w, op)
        res = w.apply(op)
        ops.append(op)
        if res.skipped:
            ctx.count("skipped:" + res.kind)
            continue
        ctx.count("op:" + res.kind)
        trace.append((res.kind, res.cls, res.raised))
        found = mon.after(w, op, res, pre)
        if found:
            failure = found[0]
            break
    in_scopes = {s for s in mon.scopes_seen if s != "detached"}
    ctx.evaluation(key=stable_hash(trace), nontrivial=(mon.live_edit_steps >= 3 and len(in_scopes) >= 2))
    if case % 101 == 0:
        ctx.sample({"case": case, "ir_version": spec["ir"], "hostile": hostile, "history": describe(spec, ops)[:30]})
    if failure:
        report(ctx, spec, ops, failure, shrunk_sigs)


def plan(tier: str) -> dict:
    quick = tier == "quick"
    # ~45 ms of CPU per history on an idle core; shards stop at budget_s, so floors are what ~300 (quick) /
    # ~6 000 (thorough) histories are certain to produce, i.e. they hold on a heavily loaded machine too
    k = 1 if quick else 20
    return {
        "cases": 5000 if quick else 200000,
        "shards": 16,
        "budget_s": 42 if quick else 480,
        "floors": {
            "monitor_steps": 9000 * k,
            "invalid_requests_judged": 1250 * k,
            "invalid:shard:repeated-negative-axis": 50 * k,
            "invalid:shard:conflicting-stage": 65 * k,
            "valid_requests_judged": 3500 * k,
            "annotated_values_left_a_node": 225 * k,
            "edit_with_live_specs:clone": 275 * k,
            "edit_with_live_specs:clone-deep": 80 * k,
            "edit_with_live_specs:clone-parts": 40 * k,
            "edit_with_live_specs:clone-parts-deep": 30 * k,
            "source_models_checked": 700 * k,
            "subclones_of_graphs_with_specs": 25 * k,
            "subclones_with_specs_on_outer_scope_values": 10 * k,
            "edit_with_live_specs:roundtrip": 450 * k,
            "cascade_removals_with_references": 225 * k,
            "cascade_annotated_scope:func/sub": 60 * k,
            "clone_annotated_scope:func/sub": 75 * k,
            "roundtrip_annotated_scope:func": 225 * k,
            "roundtrip_annotated_scope:main/sub": 300 * k,
            "roundtrips_with_shadowing_spec_names": 50 * k,
            "proto_references_checked": 50000 * k,
        },
        "min_nontrivial": 200 * k,
    }


def run(ctx) -> None:
    shrunk: set[str] = set()
    for case in ctx.case_ids():
        run_case(ctx, case, shrunk)


def replay(data, ctx) -> None:
    _, f = replay_history(data["spec"], data["ops"], Monitor())
    if f:
        report(ctx, data["spec"], data["ops"], f[3][0], set())
