"""C17 - deserialising any proto terminates with an error or a consistent IR; no file access.

Monitor shape.  A case is a valid proto (``vfpy.gen_proto``, every kind ``ir.from_proto`` accepts, or a
model of the ONNX backend corpus) whose external-data locations carry a unique canary token, hit by
0-8 hostile mutations (``vfpy.mutate_proto``: field level by reflection + byte level of the
serialised form).  Cases run in forked children of the shard (batches), so a hang or a crash of the
code under test cannot take the shard down; the shard parent is the watchdog.

Refuting events (each with its own mechanism-level signature):

  hang            ``from_proto`` (or ``to_proto`` of its result) neither returns nor raises: the child
                  used more than ``case_cpu_s`` CPU seconds in one case (CPU time, not wall time: the
                  trigger does not depend on the load of the machine) and two ``faulthandler`` stack
                  samples taken apart show the same innermost onnx_ir function below an identical
                  outer stack.  Anything else the watchdog sees is *inconclusive* (the shard fails).
                  signature ``hang:<phase>|<module.function>``
  step budget     termination is decided on LOGICAL steps: ``sys.monitoring`` counts function entries, generator
                  resumptions and loop back-edges executed by onnx_ir code objects during one ``from_proto`` /
                  ``to_proto`` call; a call that spends more than 10^6 + 2000 events per byte of the message it was
                  given (the unchanged tree stays below 1% of that on the whole workload; counters
                  ``step_budget_used:*``) is stopped by an exception raised into it and is a witness of a call tree
                  or loop that is not bounded by the size of the input (e.g. work doubling per nesting level).
                  signature ``steps-exceeded:<phase>|<module.function>`` - the function that is on the stack most
                  often (recursion) or that spent the events profiled after the budget ran out (loop).  The
                  stack-sampling watchdog above remains for what the counter cannot see (time spent in C).
  crash           the child died on a signal while inside a library phase
                  signature ``crash:<phase>|<signal>|<module.function>``
  walker          the returned IR violates a clause of the C01 walker (``vfpy.invariants``) or the closure
                  clause X1 (every node reachable through uses()/producer() of the result's values is
                  owned by a graph of the result); also checked on the IR re-loaded from the library's output
                  signature ``walker:<clauses>|<mutation kinds of the ddmin-shrunk mutation list>``
                  (``I6`` - a graph input/initializer that has a producer - is judged like every other
                  clause: the statement says use-def *and ownership* links are consistent)
  self-consistency ``p1 = to_proto(ir)`` may raise; if it returns, ``from_proto(p1)`` must not raise
                  (``reload-raises:<Exc>@<site>|kinds``), ``to_proto`` of that must not raise
                  (``reserialize-raises:...``) and ``canon(p2) == canon(p1)``
                  (``not-idempotent:<Message.field|class>|kinds``).  Where the canonical forms agree, the output
                  lists of all nodes are also compared RAW: the canonical form trims trailing unnamed node outputs
                  (a documented normalisation of the serializer), but p1 is the serializer's own output and so is
                  trimmed already - a list that shrinks or grows on the second trip means p1 does not serialize to
                  itself (``not-idempotent:NodeProto.output|trailing unnamed outputs lost|added``).  The ``empty_run``
                  mutation makes the deciding inputs frequent: nodes none of whose 2-4 outputs/inputs is named, lists
                  of graph/function inputs, outputs, initializers, value infos, attributes all unnamed.
  file access     any file-system call while ``from_proto`` runs (first and second trip) or while
                  ``name/dtype/shape/size`` of a resulting tensor is read: ``sys.addaudithook`` (open,
                  mmap, listdir, scandir ...) plus counted wrappers on ``os.stat/lstat/readlink/access/
                  statvfs`` (not audited by CPython).  A call is a witness when its path contains a canary
                  token or an onnx_ir frame is on the stack; calls made by the import system / linecache
                  are interpreter-internal and only counted.
                  signature ``file-access:<phase>|<call>@<module.function>``
                  Thorough tier: a batch per shard is re-run under ``strace -f -e trace=%file`` with
                  bracketing marker syscalls as an independent observer (``file-access:strace|...``).

  ownership O1    a value listed in the inputs/outputs/initializers of graph S whose producer belongs to a
                  graph belongs to S (clause of the walker event: ``walker:O1|kinds``)
  annotation S1   a sharding spec of a node device configuration whose tensor name is the name of an input/output
                  of its node is bound (``spec.value``, by identity) to that very operand object, not to another
                  Value of the same name such as the value of an enclosing scope that the subgraph shadows
                  (clause of the walker event: ``walker:S1|kinds``).  The ``shadow_scope`` mutation makes the deciding
                  situation frequent: a subgraph re-declares an outer name consistently (definition + all references)
                  and a node touching it carries a sharding annotation on it, IR version >= 11.
  state leak      7% of the cases are SEQUENCES of 2-5 from_proto calls in one fresh child over variants of one
                  base model (model / its graph / a function; roles: rejected late, dangling names, random), so
                  the protos share value names.  Each step is also judged alone in a pristine grandchild; an
                  event that only shows after the earlier calls is ``state-leak:<cls>:<core>``.  A difference
                  of canon(to_proto(from_proto(p))) or of accept/reject between 'alone' and 'in sequence' is
                  report-only unless a walker/X1/O1 event accompanies it.

Any exception type out of ``from_proto``/``to_proto`` of the first trip is acceptable ("raises"); they
are counted by innermost type and raise site.
"""

from __future__ import annotations

import base64
import contextlib
import faulthandler
import glob
import hashlib
import itertools
import json
import logging
import os
import re
import select
import shutil
import signal
import subprocess
import sys
import time
import traceback
from collections import Counter
from typing import Any, Callable

import onnx
import onnx_ir as ir
from onnx_ir import serde

from vfpy import canon_proto as cp
from vfpy import gen_proto as gp
from vfpy import invariants
from vfpy import mutate_proto as mp
from vfpy.ctx import stable_hash
from vfpy.histories import raise_site
from vfpy.shrink import ddmin
from vfpy.world import World

ID = "C17"
LEVEL = "exploration"
RULE = (
    "a case is one valid proto (generated by gen_proto: ModelProto 46% / GraphProto / FunctionProto / NodeProto / "
    "TensorProto / AttributeProto / ValueInfoProto / TypeProto, IR version 3..13, features toggled independently, some "
    "forced; or - 8% - a model of the ONNX backend corpus) with canary tokens in every external-data location, "
    "then 1-8 mutations (3% of the cases: none, as a control) drawn from 45 kinds (9% of the model/graph/function cases first get "
    "the library's own naming scheme - values consistently renamed to val_<n>, nodes to node_<op>_<n>, in one or all containers - "
    "and then, 3 times in 4, a definition (graph/function input, initializer, node output, node, graph) loses its name, so that any name "
    "the library invents meets a declared one; 7% of the cases are instead a sequence "
    "of 2-5 from_proto calls in one process over differently mutated views of one base model, each step also judged alone "
    "in a pristine process): dangling/duplicated/empty names, whole runs of one repeated name field emptied (a node none of whose "
    "2-4 outputs or inputs is named, graphs/functions whose inputs, outputs, initializers, value infos, attributes are all unnamed; "
    "all / trailing / leading / all but one), "
    "missing types, shuffled/cyclic/self-consuming nodes, unknown enum integers, payload/type mismatches, invalid "
    "UTF-8, dims vs data, several storage fields, absurd external_data, redeclared outputs, initializers named like "
    "inputs/node outputs, subgraph names shadowing outer names (also consistently: definition and every reference renamed "
    "to an enclosing scope's name, with a sharding annotation on the shadowed operand), deep nesting (types wrapped 3..560 "
    "sequence/optional/map levels in all-sequence, all-optional, alternating and random patterns, on value infos and type attributes; "
    "graph attributes nested 3..300 levels, optionally typed at every level; small protos, many of them within protobuf's 100-level "
    "parse limit), recursive functions, reference "
    "attributes outside functions, unknown device configurations, unsupported constructs, generic reflection "
    "edits, byte flips/insertions/deletions/duplications/appended fields of the serialised form that protobuf "
    "still parses.  non-trivial = >= 1 mutation applied (so the result was accepted by protobuf) and "
    "deserialisation got past the first field: from_proto returned, or at least one serde deserialize_* "
    "sub-call had returned (sys.monitoring PY_RETURN on serde's deserialisers) before it raised; distinct by "
    "hash of (base proto, mutation list)"
)
ASSUMPTIONS = [
    "protobuf (upb) and onnx's generated classes are trusted for building, mutating, serialising and parsing the inputs",
    "the C01 walker (vfpy.invariants, public accessors only) defines 'use-def and ownership links are consistent'; "
    "I6 (a graph input/initializer with a producing node) is part of it; X1 (ownership closure: no consumer/producer "
    "node reachable from a freshly deserialised Model/Graph/Function lives outside its graph tree) is judged as well",
    "S1: 'links are consistent' includes the identity links of device annotations on the freshly deserialised IR (ShardingSpec.value "
    "'must be an input or output of the node that owns this spec'): judged only when the node has an operand of the spec's name; "
    "a spec naming no operand of its node is report-only",
    "the C02 canonical form (vfpy.canon_proto: reflection over every field, documented normalisations only) defines "
    "'serializes to itself'; a change of order only in external_data / quantization lists is report-only",
    "the serializer's own output p1 already carries the serializer's documented normalisations, so between p1 and p2 the raw output "
    "list of every node must be identical (trailing unnamed outputs included); raw differences of domain spelling and of the set of "
    "value-info names between p1 and p2 are report-only",
    "file access is what CPython audit events (open, mmap, listdir, scandir, ...) and wrappers on os.stat/lstat/"
    "readlink/access/statvfs can see in-process; calls below the Python level are only visible to the strace observer "
    "(thorough tier); os.getcwd is report-only; reading nbytes is report-only (the statement lists name, dtype, shape, size)",
    "'terminates' is judged on logical steps: interpreter events (PY_START, PY_RESUME, JUMP) of onnx_ir code objects during one "
    "from_proto/to_proto call, against a budget linear in the byte size of the message (10^6 + 2000 per byte; two orders of magnitude "
    "above what the unchanged tree needs anywhere in the workload); exceeding it is a violation whatever the wall clock says; work in C "
    "below a call is not counted",
    "a hang the step counter cannot see is diagnosed structurally: more than case_cpu_s CPU seconds in one case AND two stack samples with the same "
    "innermost onnx_ir function under an identical outer stack; a watchdog event without that diagnosis makes the "
    "shard (and the check) inconclusive",
    "RecursionError (default recursion limit while library code runs) counts as 'raises'",
    "signatures of walker/self-consistency events contain the mutation KINDS of the 1-minimal (ddmin) mutation list; "
    "hang/crash/file-access signatures name the onnx_ir function instead",
    "mutated protos deeper than protobuf's 100-level parse limit exist only in memory (the library is handed the "
    "message object); replay re-applies the mutation list to the stored base proto",
]

logging.getLogger("onnx_ir").setLevel(logging.ERROR)  # warnings about invalid models are not observations

KIND_WEIGHTS = (
    ("ModelProto", 0.46), ("GraphProto", 0.17), ("FunctionProto", 0.13), ("NodeProto", 0.07),
    ("TensorProto", 0.08), ("AttributeProto", 0.04), ("ValueInfoProto", 0.025), ("TypeProto", 0.025),
)
PROTO_CLASSES = {
    "ModelProto": onnx.ModelProto, "GraphProto": onnx.GraphProto, "FunctionProto": onnx.FunctionProto,
    "NodeProto": onnx.NodeProto, "TensorProto": onnx.TensorProto, "AttributeProto": onnx.AttributeProto,
    "ValueInfoProto": onnx.ValueInfoProto, "TypeProto": onnx.TypeProto,
}
FORCIBLE = ("external", "functions", "captures", "attr_graph", "attr_graphs", "initializers", "device_config",
            "node_device_config", "ref_attrs", "overloads", "attr_tensor", "string_tensor", "quant_annotation")
N_MUTATIONS = (1, 1, 1, 2, 2, 2, 3, 3, 4, 4, 5, 6, 7, 8)
LIBRARY_PHASES = ("from_proto", "inspect", "to_proto", "reload", "inspect2", "reserialize")
BATCH = 16
STYLED_KINDS = ("ModelProto", "GraphProto", "FunctionProto")
STYLED_FRACTION = 0.09
NAME_LOSS = ("unname", "unname", "empty_name")
CORPUS_MAX_BYTES = 40000
MAX_DIFFS = 6
MARK = "/__c17_mark__/"


def plan(tier: str) -> dict:
    quick = tier == "quick"
    floors = {
        "cases_judged": 900 if quick else 30000,
        "from_proto_returned": 350 if quick else 11000,
        "from_proto_raised": 250 if quick else 8000,
        "walker_runs": 450 if quick else 14000,
        "to_proto_returned": 250 if quick else 8000,
        "idempotence_compared": 220 if quick else 7000,
        "tensors_inspected": 500 if quick else 15000,
        "external_tensors_inspected": 60 if quick else 2000,
        "canary_locations": 100 if quick else 3000,
        "fs_windows": 1500 if quick else 50000,
        "corpus_cases": 25 if quick else 1000,
        "byte_level_cases": 60 if quick else 2500,
        "sharding_specs_bound_to_operand": 150 if quick else 5000,
        "sharding_specs_on_shadowed_operand": 12 if quick else 300,
        "seq_cases": 40 if quick else 1500,
        "seq_steps_judged": 120 if quick else 4500,
        "seq_references_compared": 100 if quick else 4000,
        "seq_steps_after_rejected": 30 if quick else 1200,
        "fs_observer_selfcheck_ok": 1,
        "watchdog_selfcheck_ok": 1,
        "step_budget_selfcheck_ok": 16,
        "step_budget_windows": 2500 if quick else 80000,
        "library_named_cases": 80 if quick else 2000,
        "library_named_cases_with_unnamed_definition": 45 if quick else 1200,
        "deeply_nested_cases": 25 if quick else 800,
        "deeply_nested_small_cases": 15 if quick else 450,
        "all_empty_list_round_trips": 60 if quick else 2000,
        "all_empty_round_trip:NodeProto.output": 4 if quick else 200,
        "all_empty_round_trip:NodeProto.input": 4 if quick else 200,
        "raw_output_lists_compared": 1000 if quick else 45000,
    }
    rare = ("exp_value_info", "dup_function", "recursive_function", "ir_version")
    for k in mp.KINDS:
        floors[f"mut:{k}"] = (2 if k in rare else 6) if quick else (40 if k in rare else 200)
    if not quick:
        floors["strace_windows_observed"] = 600
    return {
        "cases": 36000 if quick else 400000,
        "shards": 16,
        "budget_s": 26 if quick else 430,
        "floors": floors,
        "min_nontrivial": 600 if quick else 20000,
        "params": {"case_cpu_s": 8.0, "case_wall_s": 150.0, "strace_batch": 0 if quick else 120},
    }


# =====================================================================================================
# file-access observer (in-process)
# =====================================================================================================

_AUDIT_FILE_EVENTS = frozenset({
    "open", "mmap.__new__", "os.listdir", "os.scandir", "os.mkdir", "os.remove", "os.rename", "os.rmdir",
    "os.chmod", "os.chown", "os.link", "os.symlink", "os.truncate", "os.utime", "os.walk", "os.fwalk", "os.chdir",
    "os.getxattr", "os.listxattr", "os.setxattr", "os.removexattr", "os.chflags", "os.mkfifo", "os.mknod",
    "glob.glob", "glob.glob/2", "pathlib.Path.glob", "pathlib.Path.rglob", "shutil.copyfile", "shutil.copymode",
    "shutil.copystat", "shutil.copytree", "shutil.move", "shutil.rmtree", "shutil.chown", "shutil.make_archive",
    "shutil.unpack_archive", "tempfile.mkstemp", "tempfile.mkdtemp", "os.startfile",
})
_WRAPPED_OS = ("stat", "lstat", "readlink", "access", "statvfs")
_INTERNAL_FILES = ("linecache.py", "warnings.py", "tokenize.py", "zipimport.py")
_ORIG_STAT = os.stat


class _Fs:
    """Counts file-system calls made while a window is open and says who made them."""

    def __init__(self) -> None:
        self.armed = False
        self.phase = ""
        self.events: list[tuple[str, str, str, str]] = []  # (call, path, site, class)
        self.installed = False
        self.marker: Callable[[str, str], None] | None = None

    def install(self) -> None:
        if self.installed:
            return
        self.installed = True
        sys.addaudithook(self._audit)
        for name in _WRAPPED_OS:
            orig = getattr(os, name, None)
            if orig is not None:
                setattr(os, name, self._wrap(f"os.{name}", orig))
        os.getcwd = self._wrap("os.getcwd", os.getcwd)

    def _wrap(self, label: str, orig):
        fs = self

        def wrapper(*args, **kwargs):
            if fs.armed:
                fs._record(label, args[0] if args else kwargs.get("path"))
            return orig(*args, **kwargs)

        wrapper.__name__ = getattr(orig, "__name__", label)
        wrapper.__wrapped__ = orig
        return wrapper

    def _audit(self, event: str, args) -> None:
        if self.armed and event in _AUDIT_FILE_EVENTS:
            self._record(event, args[0] if args else None)

    def _record(self, call: str, path) -> None:
        self.armed = False
        try:
            try:
                text = os.fsdecode(path) if isinstance(path, (bytes, os.PathLike)) else str(path)
            except Exception:  # noqa: BLE001
                text = repr(path)
            site = ""
            internal = False
            f = sys._getframe(2)
            depth = 0
            while f is not None and depth < 400:
                fn = f.f_code.co_filename
                if fn.endswith(("c17.py", "c17_strace_child.py")):
                    break  # the harness frame that opened the window: everything further out is harness
                if "importlib" in fn or fn.endswith(_INTERNAL_FILES):
                    internal = True
                if not site and "/onnx_ir/" in fn.replace("\\", "/"):
                    mod = fn.replace("\\", "/").rsplit("/onnx_ir/", 1)[1].rsplit(".py", 1)[0].replace("/", ".")
                    site = f"{mod}.{getattr(f.f_code, 'co_qualname', f.f_code.co_name)}"
                f = f.f_back
                depth += 1
            if internal:
                klass = "internal"
            elif mp.CANARY in text:
                klass = "canary"
            elif site:
                klass = "onnx_ir"
            else:
                klass = "other"
            if len(self.events) < 50:
                self.events.append((call, text[:300], site or "?", klass))
        finally:
            self.armed = True

    @contextlib.contextmanager
    def window(self, phase: str, tag: str = ""):
        self.events = []
        self.phase = phase
        if self.marker is not None:
            self.marker(tag, phase + ":b")
        self.armed = True
        try:
            yield
        finally:
            self.armed = False
            if self.marker is not None:
                self.marker(tag, phase + ":e")


FS = _Fs()


# =====================================================================================================
# progress counter: returns of serde's deserialisers (sys.monitoring), only for the non-triviality rule
# =====================================================================================================

_PROGRESS = [0]
_TOOL_ID = 4


def _install_progress() -> bool:
    mon = getattr(sys, "monitoring", None)
    if mon is None:
        return False
    try:
        mon.use_tool_id(_TOOL_ID, "vf-c17")
    except ValueError:
        return mon.get_tool(_TOOL_ID) == "vf-c17"
    codes = set()
    for name, fn in vars(serde).items():
        if not callable(fn) or not (name.startswith(("deserialize", "_deserialize", "_declare"))):
            continue
        while hasattr(fn, "__wrapped__"):
            fn = fn.__wrapped__
        code = getattr(fn, "__code__", None)
        if code is not None:
            codes.add(code)
    for code in codes:
        mon.set_local_events(_TOOL_ID, code, mon.events.PY_RETURN)

    def on_return(code, offset, retval):  # noqa: ARG001
        _PROGRESS[0] += 1

    mon.register_callback(_TOOL_ID, mon.events.PY_RETURN, on_return)
    return True


# =====================================================================================================
# step budget: "terminates" decided on logical steps (interpreter events inside onnx_ir), never on time
# =====================================================================================================

STEP_BASE = 1_000_000
STEP_PER_BYTE = 2_000
_STEP_TOOL = 3
_STEP_SAMPLE = 20_000  # events profiled after the budget is exhausted, to name the function that spends them


class StepBudgetExceeded(BaseException):
    """Raised INTO the library call by the step counter (a BaseException: the library's own ``except Exception``
    wrappers do not swallow it)."""


class _Steps:
    """Counts interpreter events - function entries (PY_START), generator resumptions (PY_RESUME) and taken
    unconditional jumps (JUMP: every loop back-edge) - executed by code objects of the onnx_ir package, through
    ``sys.monitoring`` local events.  Work done in C below one call (numpy, protobuf, dict/set operations) is not
    counted.  One library call gets a budget that is linear in the size of the message handed to it; when the
    budget is exhausted the next ``_STEP_SAMPLE`` events are attributed to their code objects and then
    ``StepBudgetExceeded`` is raised into the call."""

    def __init__(self) -> None:
        self.n = [0]
        self.limit = [1 << 62]
        self.hard = [1 << 62]
        self.hot: Counter = Counter()
        self.ok = False
        self.codes = 0
        self._seen: set[int] = set()

    def _package_codes(self, extra=()) -> list:
        import gc
        import types

        root = os.path.dirname(os.path.abspath(ir.__file__)) + os.sep
        out: dict[int, Any] = {}

        def add(code) -> None:
            if id(code) in out or not code.co_filename.startswith(root):
                return
            out[id(code)] = code
            for k in code.co_consts:
                if isinstance(k, types.CodeType):
                    add(k)

        for o in gc.get_objects():
            if isinstance(o, types.FunctionType):
                add(o.__code__)
        return list(out.values()) + list(extra)

    def install(self) -> bool:
        mon = getattr(sys, "monitoring", None)
        if mon is None:
            return False
        try:
            mon.use_tool_id(_STEP_TOOL, "vf-c17-steps")
        except ValueError:
            if mon.get_tool(_STEP_TOOL) != "vf-c17-steps":
                return False
        n, limit, hard, hot = self.n, self.limit, self.hard, self.hot

        def over(code) -> None:
            hot[code] += 1
            if n[0] > hard[0]:
                limit[0] = hard[0] = 1 << 62
                raise StepBudgetExceeded

        def on_start(code, offset):  # noqa: ARG001
            k = n[0] = n[0] + 1
            if k > limit[0]:
                over(code)

        def on_jump(code, offset, dest):  # noqa: ARG001
            k = n[0] = n[0] + 1
            if k > limit[0]:
                over(code)

        ev = mon.events
        mon.register_callback(_STEP_TOOL, ev.PY_START, on_start)
        mon.register_callback(_STEP_TOOL, ev.PY_RESUME, on_start)
        mon.register_callback(_STEP_TOOL, ev.JUMP, on_jump)
        self.ok = True
        self.refresh()
        return True

    def refresh(self, extra=()) -> None:
        """(Re-)instrument every code object of the package that exists now (modules imported lazily since)."""
        if not self.ok:
            return
        mon = sys.monitoring
        ev = mon.events
        for code in self._package_codes(extra):
            if id(code) not in self._seen:
                self._seen.add(id(code))
                mon.set_local_events(_STEP_TOOL, code, ev.PY_START | ev.PY_RESUME | ev.JUMP)
        self.codes = len(self._seen)

    @contextlib.contextmanager
    def budget(self, steps: int):
        self.hot.clear()
        self.n[0] = 0
        self.limit[0] = steps
        self.hard[0] = steps + _STEP_SAMPLE
        try:
            yield
        finally:
            self.limit[0] = self.hard[0] = 1 << 62

    def used(self) -> int:
        return self.n[0]


STEPS = _Steps()


def _code_site(code) -> str:
    fn = code.co_filename.replace("\\", "/")
    mod = fn.rsplit("/onnx_ir/", 1)[1].rsplit(".py", 1)[0].replace("/", ".") if "/onnx_ir/" in fn else os.path.basename(fn)
    return f"{mod}.{getattr(code, 'co_qualname', code.co_name)}"


def _budget_site(exc: BaseException) -> tuple[str, str]:
    """-> (function that names the mechanism, explanation): the library function that is on the stack most often
    when the budget runs out (a recursion), else the one that spent most of the profiled events (a hot loop)."""
    on_stack: Counter = Counter()
    order: list[str] = []
    tb = exc.__traceback__
    while tb is not None:
        code = tb.tb_frame.f_code
        if "/onnx_ir/" in code.co_filename.replace("\\", "/"):
            site = _code_site(code)
            on_stack[site] += 1
            order.append(site)
        tb = tb.tb_next
    plain = {k: v for k, v in on_stack.items() if "<locals>" not in k} or dict(on_stack)
    hot = Counter()
    for code, k in STEPS.hot.items():
        hot[_code_site(code)] += k
    top = ", ".join(f"{k} x{v}" for k, v in hot.most_common(3))
    if plain and max(plain.values()) >= 3:
        best = max(plain.values())
        site = next(sname for sname in reversed(order) if plain.get(sname) == best)
        return site, f"{site} is on the stack {best} times (depth {len(order)} in onnx_ir); the last {_STEP_SAMPLE} events went to {top}"
    hot_plain = Counter({k: v for k, v in hot.items() if "<locals>" not in k}) or hot
    if hot_plain:
        site = hot_plain.most_common(1)[0][0]
        return site, f"the last {_STEP_SAMPLE} events went to {top}; stack: {' > '.join(order[-6:])}"
    return (order[-1] if order else "?"), "no onnx_ir frame was profiled"


def _proto_bytes(proto) -> int:
    try:
        return int(proto.ByteSize())
    except Exception:  # noqa: BLE001 - protobuf refuses to size it; fall back on the number of messages
        return 2 * sum(1 for _ in mp.walk(proto))


def step_budget(nbytes: int) -> int:
    return STEP_BASE + STEP_PER_BYTE * nbytes


def _budget_event(phase: str, exc: BaseException, used: int, budget: int, nbytes: int, count) -> dict:
    site, why = _budget_site(exc)
    count("step_budget_exceeded", 1)
    return {"cls": "steps-exceeded", "core": f"{phase}|{site}", "kinds": False,
            "text": f"{phase} neither returned nor raised within {budget} interpreter events inside onnx_ir (function entries + "
                    f"loop back-edges; budget = {STEP_BASE} + {STEP_PER_BYTE} per byte of the {nbytes}-byte message): {why}"}


def _count_budget_use(phase: str, used: int, budget: int, count) -> None:
    count("step_budget_windows", 1)
    count(f"steps:{phase}", used)
    frac = used / budget
    count("step_budget_used:" + ("<=0.01%" if frac <= 1e-4 else "<=0.1%" if frac <= 1e-3 else "<=1%" if frac <= 1e-2
                                   else "<=10%" if frac <= 0.1 else "<=100%"), 1)


# =====================================================================================================
# the phases (one function each, so that stack samples and the file observer can name the phase)
# =====================================================================================================


def _phase_from_proto(proto):
    return ir.from_proto(proto)


def _phase_reload(proto):
    return ir.from_proto(proto)


def _serialize(obj):
    if isinstance(obj, ir.TypeAndShape):
        # the documented way for a type with a shape: create the type, then write the shape into it
        out = onnx.TypeProto() if obj.type is None else ir.to_proto(obj.type)
        if obj.shape is not None:
            serde.serialize_shape_into(out, obj.shape)
        return out
    return ir.to_proto(obj)


def _phase_to_proto(obj):
    return _serialize(obj)


def _phase_reserialize(obj):
    return _serialize(obj)


def _phase_inspect(tensors, counts: Counter) -> None:
    for t in tensors:
        for attr in ("name", "dtype", "shape", "size"):
            try:
                getattr(t, attr)
            except Exception as e:  # noqa: BLE001 - an invalid tensor may refuse; counted
                counts[f"inspect_raised:{attr}:{type(e).__name__}"] += 1


def _phase_inspect_nbytes(tensors, counts: Counter) -> None:
    for t in tensors:
        try:
            t.nbytes  # noqa: B018
        except Exception as e:  # noqa: BLE001
            counts[f"inspect_raised:nbytes:{type(e).__name__}"] += 1


# =====================================================================================================
# judging one proto
# =====================================================================================================

def _is_tensor(o) -> bool:
    # looked up on the class: reading .dtype of an invalid tensor may itself raise
    t = type(o)
    return (o is not None and not isinstance(o, (ir.Model, ir.Graph, ir.Function, ir.Node, ir.Value, ir.Attr, ir.TypeAndShape))
            and hasattr(t, "dtype") and hasattr(t, "shape") and hasattr(t, "tobytes"))


_EXPECTED = {
    "ModelProto": lambda o: isinstance(o, ir.Model),
    "GraphProto": lambda o: isinstance(o, ir.Graph),
    "FunctionProto": lambda o: isinstance(o, ir.Function),
    "NodeProto": lambda o: isinstance(o, ir.Node),
    "TensorProto": lambda o: _is_tensor(o),
    "AttributeProto": lambda o: isinstance(o, ir.Attr),
    "ValueInfoProto": lambda o: isinstance(o, ir.Value),
    "TypeProto": lambda o: isinstance(o, ir.TypeAndShape),
}


def _innermost(exc: BaseException) -> BaseException:
    seen = set()
    while exc.__cause__ is not None and id(exc) not in seen:
        seen.add(id(exc))
        exc = exc.__cause__
    return exc


def _exc_key(exc: BaseException) -> str:
    inner = _innermost(exc)
    if isinstance(inner, RecursionError):
        return "RecursionError"
    return f"{type(inner).__name__}@{raise_site(inner)}"


def _exc_text(exc: BaseException) -> str:
    inner = _innermost(exc)
    return f"{type(exc).__name__} <- {type(inner).__name__}: {str(inner)[:300]}"


@contextlib.contextmanager
def _deep():
    """Harness-only code (walker, canon) may recurse as deep as the input is nested."""
    old = sys.getrecursionlimit()
    sys.setrecursionlimit(max(old, 60000))
    try:
        yield
    finally:
        sys.setrecursionlimit(old)


def _attr_graphs(attr) -> list:
    try:
        if attr.is_ref():
            return []
        if attr.type == ir.AttributeType.GRAPH and isinstance(attr.value, ir.Graph):
            return [attr.value]
        if attr.type == ir.AttributeType.GRAPHS:
            return [g for g in attr.value if isinstance(g, ir.Graph)]
    except Exception:  # noqa: BLE001 - an attribute the library built inconsistently; not the walker's business
        pass
    return []


def _attr_tensors(attr) -> list:
    try:
        if attr.is_ref():
            return []
        if attr.type == ir.AttributeType.TENSOR and _is_tensor(attr.value):
            return [attr.value]
        if attr.type == ir.AttributeType.TENSORS:
            return [t for t in attr.value if _is_tensor(t)]
    except Exception:  # noqa: BLE001
        pass
    return []


def _world_of(obj) -> World | None:
    w = World()
    if isinstance(obj, ir.Model):
        w.models.append(obj)
        w.add_graph(obj.graph)
        for f in obj.functions.values():
            w.add_function(f)
    elif isinstance(obj, ir.Function):
        w.add_function(obj)
    elif isinstance(obj, ir.Graph):
        w.add_graph(obj)
    elif isinstance(obj, ir.Node):
        w.add_node(obj)
    elif isinstance(obj, ir.Value):
        w.add_value(obj)
    elif isinstance(obj, ir.Attr):
        for g in _attr_graphs(obj):
            w.add_graph(g)
    else:
        return None
    for f in list(w.functions):
        w.add_graph(f.graph)
        for a in f.attributes.values():
            for g in _attr_graphs(a):
                w.add_graph(g)
    for _ in range(200):  # World.discover() is bounded per call; nest as deep as the input goes
        before = len(w._labels)
        w.discover()
        if len(w._labels) == before:
            break
    return w


def _closure_problems(obj, w: World) -> list[tuple[str, str]]:
    """X1 (ownership closure of a freshly deserialised IR): every node that can be reached from the
    result through ``uses()`` / ``producer()`` of its values is owned by a graph of the result's own
    graph tree (root graphs and the graphs in attributes of the nodes they list).  A consumer left
    behind by an abandoned partial deserialisation is a use-def link into nowhere."""
    roots: list = []
    allowed_nodes: set[int] = set()
    if isinstance(obj, ir.Model):
        roots = [obj.graph] + [f.graph for f in obj.functions.values()]
        for f in obj.functions.values():
            for a in f.attributes.values():
                roots += _attr_graphs(a)
    elif isinstance(obj, ir.Function):
        roots = [obj.graph]
        for a in obj.attributes.values():
            roots += _attr_graphs(a)
    elif isinstance(obj, ir.Graph):
        roots = [obj]
    elif isinstance(obj, ir.Node):
        allowed_nodes.add(id(obj))
        for a in obj.attributes.values():
            roots += _attr_graphs(a)
    elif isinstance(obj, ir.Attr):
        roots = _attr_graphs(obj)
    else:
        return []
    tree: dict[int, Any] = {}
    stack = list(roots)
    while stack:
        g = stack.pop()
        if id(g) in tree:
            continue
        tree[id(g)] = g
        try:
            nodes = list(g)
        except Exception:  # noqa: BLE001 - the walker reports an unreadable graph
            continue
        for n in nodes:
            allowed_nodes.add(id(n))
            for a in n.attributes.values():
                stack.extend(_attr_graphs(a))
    out = []
    for n in w.nodes:
        if id(n) in allowed_nodes:
            continue
        g = n.graph
        if g is None or id(g) not in tree:
            uses = [w.label(v) for v in n.inputs if v is not None]
            out.append(("X1", f"{w.label(n)} ({n.op_type}) consumes/produces values of the result {uses[:3]} but is owned by "
                              f"{'no graph' if g is None else 'a graph outside the result'}"))
            if len(out) >= 5:
                break
    return out


def _ownership_problems(w: World) -> list[tuple[str, str]]:
    """O1 (one owner graph per value of a freshly deserialised IR): a value listed in the inputs, outputs
    or initializers of graph S whose producing node belongs to a graph belongs to S.  (The deserializer
    creates a fresh producer-less value for a name a graph lists but does not define.)"""
    out = []
    for g in w.graphs:
        try:
            members = [("inputs", v) for v in g.inputs] + [("outputs", v) for v in g.outputs] \
                + [("initializers", v) for v in g.initializers.values()]
        except Exception:  # noqa: BLE001 - an unreadable graph is the walker's business
            continue
        for role, v in members:
            p = v.producer()
            if p is not None and p.graph is not None and p.graph is not g:
                out.append(("O1", f"{w.label(v)} ({v.name!r}) is in {w.label(g)}.{role} but its producer {w.label(p)} "
                                  f"({p.op_type}) belongs to {w.label(p.graph)}"))
                if len(out) >= 5:
                    return out
    return out


def _annotation_problems(w: World, count=None) -> list[tuple[str, str]]:
    """S1 (device annotations of a freshly deserialised IR are links to the node's own operands): a sharding
    spec of a node refers to its tensor by object identity and "must be an input or output of the node that
    owns this spec" (ShardingSpec.value).  When the node has an operand of the spec's name, the spec's value IS
    one of the node's input/output objects - not another Value that merely carries the same name (e.g. the value
    of an enclosing scope that the subgraph shadows).  A spec whose name is no operand of its node (the proto
    named something else; the deserializer invents a placeholder) is report-only."""
    count = count or _Null()
    out = []
    for n in w.nodes:
        if id(n) in w.broken:
            continue  # a half-constructed node: the walker reports it
        try:
            configs = tuple(getattr(n, "device_configurations", ()) or ())
            operands = [v for v in (*n.inputs, *n.outputs) if v is not None]
        except Exception:  # noqa: BLE001
            continue
        if not configs:
            continue
        for cfg in configs:
            for spec in getattr(cfg, "sharding_specs", ()) or ():
                v = getattr(spec, "value", None)
                if v is None:
                    count("sharding_specs_without_tensor", 1)
                    continue
                if any(o is v for o in operands):
                    count("sharding_specs_bound_to_operand", 1)
                    continue
                same = [o for o in operands if v.name and o.name == v.name]
                if not same:
                    count("report_only_sharding_spec_names_no_operand", 1)
                    continue
                count("sharding_specs_bound_elsewhere", 1)
                if len(out) < 5:
                    o = same[0]
                    role = "input" if any(o is i for i in n.inputs) else "output"
                    vg, og = v.graph, o.graph
                    out.append(("S1", f"a sharding spec of {w.label(n)} ({n.op_type}, in {w.label(n.graph) if n.graph is not None else 'no graph'}) "
                                      f"names {v.name!r}, which is the node's {role} {w.label(o)} (owned by "
                                      f"{w.label(og) if og is not None else 'no graph'}), but spec.value is another Value object of that "
                                      f"name, {w.label(v) if id(v) in w._labels else 'outside the result'} (owned by "
                                      f"{w.label(vg) if vg is not None and id(vg) in w._labels else ('no graph' if vg is None else 'a graph outside the result')}); "
                                      f"node.sharding_of(operand) finds nothing"))
    return out


def _tensors_of(obj, w: World | None) -> list:
    out: list = []
    if _is_tensor(obj):
        out.append(obj)
    if isinstance(obj, ir.Attr):
        out += _attr_tensors(obj)
    if w is not None:
        for v in w.values:
            cv = v.const_value
            if cv is not None:
                out.append(cv)
        for n in w.nodes:
            for a in n.attributes.values():
                out += _attr_tensors(a)
        for f in w.functions:
            for a in f.attributes.values():
                out += _attr_tensors(a)
    seen: set[int] = set()
    uniq = []
    for t in out:
        if id(t) not in seen:
            seen.add(id(t))
            uniq.append(t)
    return uniq


def _without_vacuous_value_info(proto):
    """Copy of ``proto`` without value_info entries that carry nothing but a name (None if it cannot be copied)."""
    try:
        out = type(proto)()
        out.CopyFrom(proto)
    except Exception:  # noqa: BLE001 - nested deeper than protobuf copies
        return None
    for c in mp.containers(out):
        keep = [v for v in c.value_info if [fd.name for fd, _ in v.ListFields()] != ["name"]]
        if len(keep) != len(c.value_info):
            copies = []
            for v in keep:
                e = onnx.ValueInfoProto()
                e.CopyFrom(v)
                copies.append(e)
            del c.value_info[:]
            c.value_info.extend(copies)
    return out


def _raw_fixed_point_events(p1, p2, count) -> list[dict]:
    """p1 and p2 are equal in canonical form.  Compare what the canonical form normalises away, raw: the output
    list of every node (judged: N5 trims trailing unnamed outputs, and the serializer's own output is trimmed
    already), every ``domain`` string and the value-info names of every container (report-only)."""
    out: list[dict] = []
    n1, n2 = mp.of_type(p1, "NodeProto"), mp.of_type(p2, "NodeProto")
    if len(n1) != len(n2):
        count("report_only_raw_comparison_not_aligned", 1)
        return out
    count("raw_output_lists_compared", len(n1))
    for a, b in zip(n1, n2):
        oa, ob = list(a.output), list(b.output)
        if oa != ob:
            ta, tb = list(oa), list(ob)
            while ta and ta[-1] == "":
                ta.pop()
            while tb and tb[-1] == "":
                tb.pop()
            if ta != tb:  # cannot happen when the canonical forms are equal and the walks aligned
                count("report_only_raw_comparison_not_aligned", 1)
                return out
            cls = "trailing unnamed outputs lost" if len(ob) < len(oa) else "trailing unnamed outputs added"
            if not any(e["core"].endswith(cls) for e in out):
                out.append({"cls": "not-idempotent", "core": f"NodeProto.output|{cls}", "kinds": False,
                            "text": f"p1 -> IR -> p2: node {a.name!r} ({a.op_type}) has outputs {oa!r} in the library's own output p1 "
                                    f"but {ob!r} after one more trip (the canonical form trims trailing unnamed outputs, so only the raw "
                                    f"lists differ): p1 does not serialize to itself"})
        if a.domain != b.domain:
            count("report_only_node_domain_spelling_changed_on_second_trip", 1)
    c1s, c2s = mp.containers(p1), mp.containers(p2)
    if len(c1s) == len(c2s):
        for a, b in zip(c1s, c2s):
            if sorted(v.name for v in a.value_info) != sorted(v.name for v in b.value_info):
                count("report_only_value_info_names_changed_on_second_trip", 1)
    return out


class _Null:
    def __call__(self, *a, **k) -> None:
        return None


def _fs_events(phase: str, judged: bool, count) -> list[dict]:
    """Turn what the file observer saw in the window just closed into events / counters."""
    out = []
    seen = set()
    for call, path, site, klass in FS.events:
        if klass == "internal":
            count("fs_calls_interpreter_internal", 1)
            continue
        if call == "os.getcwd":
            count("report_only_getcwd_during_" + phase, 1)
            continue
        if klass == "other":
            count("report_only_fs_call_without_onnx_ir_frame", 1)
            continue
        if not judged:
            count(f"report_only_fs_call_during_{phase}", 1)
            continue
        core = f"{phase}|{call}@{site}"
        if core in seen:
            continue
        seen.add(core)
        out.append({"cls": "file-access", "core": core, "kinds": False,
                    "text": f"{call}({path!r}) from {site} during {phase}" + (" [canary path]" if klass == "canary" else "")})
    return out


def _shadowed_attribute_subgraph(proto) -> bool:
    """Does some node of the proto carry two attributes of one name, an earlier one holding a graph?"""
    for n in mp.of_type(proto, "NodeProto"):
        last = {a.name: i for i, a in enumerate(n.attribute)}
        for i, a in enumerate(n.attribute):
            if last[a.name] != i and (a.HasField("g") or len(a.graphs)):
                return True
    return False


def _walker_event(cls: str, problems, proto, head: str) -> dict:
    clauses = sorted({c for c, _ in problems})
    text = head + "; ".join(f"{c}: {m}" for c, m in problems[:4])
    if clauses == ["X1"] and _shadowed_attribute_subgraph(proto):
        # mechanism readable from the input: the subgraph of an attribute that a later attribute of the same
        # name replaces was deserialised (its nodes registered as consumers of outer values) and then dropped
        return {"cls": cls, "core": "X1(subgraph of a shadowed duplicate attribute)", "kinds": False, "text": text}
    return {"cls": cls, "core": "+".join(clauses), "kinds": True, "text": text}


def judge(proto, kind: str, count=None, on_phase=None, tag: str = "", want_hash: bool = False) -> tuple[list[dict], dict]:
    """All refuting events of one proto (list of {cls, core, kinds, text}) and a summary."""
    count = count or _Null()
    on_phase = on_phase or _Null()
    events: list[dict] = []
    info: dict[str, Any] = {"progressed": False, "outcome": "", "accepted": False}
    local = Counter()

    # ---- 1. deserialise --------------------------------------------------------------------------
    on_phase("from_proto")
    _PROGRESS[0] = 0
    exc = None
    over = None
    obj = None
    nbytes = _proto_bytes(proto)
    budget = step_budget(nbytes)
    with FS.window("from_proto", tag):
        try:
            with STEPS.budget(budget):
                obj = _phase_from_proto(proto)
        except StepBudgetExceeded as e:
            over = e
        except Exception as e:  # noqa: BLE001 - any exception type is "raises"
            exc = e
    progress = _PROGRESS[0]
    count("fs_windows", 1)
    count("serde_calls_returned", progress)
    events += _fs_events("from_proto", True, count)
    if over is not None:
        events.append(_budget_event("from_proto", over, STEPS.used(), budget, nbytes, count))
        info["progressed"] = progress >= 1
        info["outcome"] = "from_proto exhausted its step budget"
        del over
        return events, info
    _count_budget_use("from_proto", STEPS.used(), budget, count)
    if exc is not None:
        key = _exc_key(exc)
        count("from_proto_raised", 1)
        count(f"raised:{key}", 1)
        info["progressed"] = progress >= 1
        info["outcome"] = f"from_proto raised {_exc_text(exc)}"
        del exc
        return events, info
    count("from_proto_returned", 1)
    info["progressed"] = True
    info["accepted"] = True
    if not _EXPECTED[kind](obj):
        events.append({"cls": "wrong-type", "core": f"from_proto({kind})", "kinds": False,
                       "text": f"from_proto of a {kind} returned {type(obj).__name__}"})
        return events, info

    # ---- 2. walker + tensors ---------------------------------------------------------------------
    on_phase("walker")
    with _deep():
        w = _world_of(obj)
        problems = (invariants.check_world(w) + _closure_problems(obj, w) + _ownership_problems(w)
                    + _annotation_problems(w, count)) if w is not None else []
    if w is not None:
        count("walker_runs", 1)
        count("walker_objects", len(w._labels))
        count("sharding_specs_on_shadowed_operand", mp.shadowed_sharding_specs(proto))
    if problems:
        events.append(_walker_event("walker", problems, proto, "returned IR violates "))
    tensors = _tensors_of(obj, w)
    on_phase("inspect")
    with FS.window("inspect", tag):
        _phase_inspect(tensors, local)
    count("fs_windows", 1)
    count("tensors_inspected", len(tensors))
    count("external_tensors_inspected", sum(1 for t in tensors if isinstance(t, ir.ExternalTensor)))
    events += _fs_events("inspect", True, count)
    with FS.window("nbytes", tag):
        _phase_inspect_nbytes(tensors, local)
    events += _fs_events("nbytes", False, count)

    # ---- 3. serialise; the library's own output must be a fixed point -----------------------------
    on_phase("to_proto")
    exc = None
    p1 = None
    with FS.window("to_proto", tag):
        try:
            with STEPS.budget(budget):
                p1 = _phase_to_proto(obj)
        except StepBudgetExceeded as e:
            over = e
        except Exception as e:  # noqa: BLE001 - "serializing that IR either raises or ..."
            exc = e
    events += _fs_events("to_proto", False, count)
    if over is not None:
        events.append(_budget_event("to_proto", over, STEPS.used(), budget, nbytes, count))
        info["outcome"] = "returned; to_proto exhausted its step budget"
        del over
        return events, info
    _count_budget_use("to_proto", STEPS.used(), budget, count)
    if exc is not None:
        count("to_proto_raised", 1)
        count(f"to_proto_raised:{_exc_key(exc)}", 1)
        info["outcome"] = f"returned; to_proto raised {_exc_text(exc)}"
        del exc
        for k, v in local.items():
            count(k, v)
        return events, info
    count("to_proto_returned", 1)
    if type(p1) is not type(proto):
        events.append({"cls": "wrong-type", "core": f"to_proto({kind})", "kinds": False,
                       "text": f"to_proto of the IR of a {kind} returned {type(p1).__name__}"})
        return events, info
    on_phase("canon")
    with _deep():
        c1 = cp.canon(p1)
        if want_hash:
            info["p1_hash"] = hashlib.blake2b(repr(c1).encode("utf-8", "replace"), digest_size=8).hexdigest()
    on_phase("reload")
    exc = None
    obj2 = None
    nbytes1 = max(nbytes, _proto_bytes(p1))
    budget1 = step_budget(nbytes1)
    with FS.window("reload", tag):
        try:
            with STEPS.budget(budget1):
                obj2 = _phase_reload(p1)
        except StepBudgetExceeded as e:
            over = e
        except Exception as e:  # noqa: BLE001
            exc = e
    count("fs_windows", 1)
    events += _fs_events("reload", True, count)
    if over is not None:
        events.append(_budget_event("reload", over, STEPS.used(), budget1, nbytes1, count))
        info["outcome"] = "returned; to_proto ok; reload exhausted its step budget"
        del over
        return events, info
    _count_budget_use("reload", STEPS.used(), budget1, count)
    if exc is not None:
        count("reload_raised", 1)
        events.append({"cls": "reload-raises", "core": _exc_key(exc), "kinds": False,
                       "text": f"from_proto of the library's own output raised {_exc_text(exc)}"})
        info["outcome"] = "returned; to_proto ok; reload raised"
        del exc
        for k, v in local.items():
            count(k, v)
        return events, info
    count("reload_ok", 1)
    on_phase("walker")
    with _deep():
        w2 = _world_of(obj2)
        problems2 = (invariants.check_world(w2) + _closure_problems(obj2, w2) + _ownership_problems(w2)
                     + _annotation_problems(w2)) if w2 is not None else []
    if w2 is not None:
        count("walker_runs", 1)
    if problems2:
        events.append(_walker_event("walker(reload)", problems2, p1, "IR re-loaded from the library's own output violates "))
    tensors2 = _tensors_of(obj2, w2)
    on_phase("inspect2")
    with FS.window("inspect2", tag):
        _phase_inspect(tensors2, local)
    count("fs_windows", 1)
    events += _fs_events("inspect2", True, count)
    on_phase("reserialize")
    exc = None
    p2 = None
    try:
        with STEPS.budget(budget1):
            p2 = _phase_reserialize(obj2)
    except StepBudgetExceeded as e:
        over = e
    except Exception as e:  # noqa: BLE001
        exc = e
    if over is not None:
        events.append(_budget_event("reserialize", over, STEPS.used(), budget1, nbytes1, count))
        info["outcome"] = "round trip: reserialize exhausted its step budget"
        del over
        return events, info
    _count_budget_use("reserialize", STEPS.used(), budget1, count)
    if exc is not None:
        count("reserialize_raised", 1)
        events.append({"cls": "reserialize-raises", "core": _exc_key(exc), "kinds": False,
                       "text": f"to_proto of the re-loaded IR raised {_exc_text(exc)}"})
        del exc
    else:
        on_phase("canon")
        with _deep():
            c2 = cp.canon(p2)
            count("idempotence_compared", 1)
            diffs = []
            if c1 != c2:
                diffs = cp.differences(cp.canon(p1, lenient=True), cp.canon(p2, lenient=True), limit=MAX_DIFFS)
                if not diffs:
                    count("report_only_keyed_list_order", 1)
                else:
                    # a value-info entry consisting of a name only (what the serializer emits for a value
                    # that has a shape but no type: it documents that it skips the shape) says nothing about
                    # the value; whether such an entry survives a trip is report-only
                    q1, q2 = _without_vacuous_value_info(p1), _without_vacuous_value_info(p2)
                    if q1 is not None and q2 is not None:
                        stripped = cp.differences(cp.canon(q1, lenient=True), cp.canon(q2, lenient=True), limit=MAX_DIFFS)
                        if not stripped:
                            count("report_only_name_only_value_info_dropped", 1)
                        diffs = stripped
            if not diffs:
                # the canonical form forgives what the serializer is documented to normalise (C02: N5 trailing unnamed
                # node outputs, N1 alias domain, N3/N4 value-info added/dropped).  p1 IS the serializer's output, so
                # those normalisations have been applied to it already and "serializes to itself" is judged on the
                # raw lists: a serializer that trims on the second trip what it wrote on the first has no fixed point
                for ev in _raw_fixed_point_events(p1, p2, count):
                    events.append(ev)
            if c1 != c2:
                seen = set()
                for d in diffs:
                    sig = d.signature()
                    if sig in seen:
                        continue
                    seen.add(sig)
                    events.append({"cls": "not-idempotent", "core": sig, "kinds": False,
                                   "text": f"p1 -> IR -> p2 differs at {d.path}: {cp.brief(d.a, 200)} -> {cp.brief(d.b, 200)} [{d.kind}]"})
            else:
                count("idempotent", 1)
    for k, v in local.items():
        count(k, v)
    info["outcome"] = "returned" + ("; walker ok" if not problems else "; walker FAILED") + "; round trip judged"
    return events, info


# =====================================================================================================
# cases
# =====================================================================================================


def _corpus_paths() -> list[str]:
    try:
        import onnx.backend.test
    except Exception:  # noqa: BLE001
        return []
    base = os.path.join(os.path.dirname(onnx.backend.test.__file__), "data")
    paths = sorted(glob.glob(base + "/**/*.onnx", recursive=True))
    out = []
    for p in paths:
        try:
            if _ORIG_STAT(p).st_size <= CORPUS_MAX_BYTES:
                out.append(p)
        except OSError:
            pass
    return out


def _draw_kind(rng) -> str:
    r = rng.random()
    acc = 0.0
    for kind, w in KIND_WEIGHTS:
        acc += w
        if r < acc:
            return kind
    return KIND_WEIGHTS[0][0]


def derive_base(rng, corpus: list[str]):
    """-> (base proto with canary locations, kind, origin text)"""
    if corpus and rng.random() < 0.08:
        path = rng.choice(corpus)
        proto = onnx.load(path, load_external_data=False)
        kind = "ModelProto"
        origin = f"corpus:{os.path.basename(os.path.dirname(path))}/{os.path.basename(path)}"
    else:
        kind = _draw_kind(rng)
        force = {f for f in FORCIBLE if rng.random() < 0.22}
        gen = gp.ProtoGen(rng, force=force)
        proto = gen.build(kind)
        origin = f"generated ir_version={gen.ir_version}"
    mp.canary_locations(proto)
    return proto, kind, origin


def derive_case(ctx, case: int, corpus: list[str]):
    """-> (base, kind, origin, mutated proto, [[kind, seed, what], ...])"""
    rng = ctx.rng(case)
    base, kind, origin = derive_base(rng, corpus)
    proto = type(base)()
    proto.CopyFrom(base)
    rng_m = ctx.rng(case, "mut")
    n = 0 if rng_m.random() < 0.03 else rng_m.choice(N_MUTATIONS)
    applied = []
    if n and kind in STYLED_KINDS and ctx.rng(case, "style").random() < STYLED_FRACTION:
        # the proto is named the way the library names things itself (every model the library produced is); then,
        # most of the time, a definition loses its name; then the ordinary mutations
        rng_s = ctx.rng(case, "style-muts")
        for name in ("autoname", *((rng_s.choice(NAME_LOSS),) if rng_s.random() < 0.75 else ())):
            seed = rng_s.getrandbits(32)
            what = mp.apply(proto, name, seed)
            if what is not None:
                applied.append([name, seed, what])
        n = max(0, n - len(applied)) if rng_s.random() < 0.6 else rng_s.choice((0, 1))
    applied += mp.mutate(proto, rng_m, n) if n else []
    return base, kind, origin, proto, applied


def build(base, muts) -> tuple[Any, list[str]]:
    proto = type(base)()
    proto.CopyFrom(base)
    whats = []
    for m in muts:
        whats.append(mp.apply(proto, m[0], int(m[1])) or "(no site)")
    return proto, whats


def _b64(proto) -> str:
    return base64.b64encode(proto.SerializeToString(deterministic=True)).decode("ascii")


def _kinds_of(muts) -> str:
    ks = sorted({m[0] for m in muts})
    return "+".join(ks) if ks else "unmutated"


def _signature(ev: dict, muts) -> str:
    if ev["kinds"]:
        return f"{ev['cls']}:{ev['core']}|{_kinds_of(muts)}"
    return f"{ev['cls']}:{ev['core']}"


def _text_proto(proto, limit=2500) -> str:
    try:
        with _deep():
            text = str(proto)
    except Exception as e:  # noqa: BLE001 - e.g. nested deeper than the text printer goes
        text = f"<proto not printable: {type(e).__name__}>"
    if len(text) > limit:
        text = text[:limit] + "\n... (truncated)"
    return "\n".join("    " + line for line in text.splitlines())


class Rec:
    """Child-side recorder with the Ctx reporting interface; flushed to the parent after each case."""

    def __init__(self) -> None:
        self.counters: Counter[str] = Counter()
        self.evals: list = []
        self.samples: list = []
        self.violations: list = []
        self.notes: list = []

    def count(self, key: str, n: int = 1) -> None:
        if n:
            self.counters[key] += n

    def evaluation(self, key=None, nontrivial=False) -> None:
        self.evals.append([key, bool(nontrivial)])

    def sample(self, obj) -> None:
        self.samples.append(obj)

    def note(self, text: str) -> None:
        self.notes.append(text)

    def violation(self, signature, message, replay=None) -> None:
        self.violations.append([signature, message, replay])

    def delta(self) -> dict:
        return {"counters": dict(self.counters), "evals": self.evals, "samples": self.samples,
                "violations": self.violations, "notes": self.notes}


def _apply_delta(ctx, d: dict) -> None:
    for k, v in d.get("counters", {}).items():
        ctx.count(k, v)
    for key, nt in d.get("evals", []):
        ctx.evaluation(key=key, nontrivial=nt)
    for s in d.get("samples", []):
        ctx.sample(s)
    for n in d.get("notes", []):
        ctx.note(n)
    for sig, msg, rep in d.get("violations", []):
        ctx.violation(sig, msg, rep)


def run_case(ctx, spec: dict, rec, on_phase, corpus: list[str], state: dict) -> None:
    """Executed in the child: build the case, judge it, shrink and report what fired."""
    if spec.get("seq"):
        run_seq_case(ctx, spec, rec, on_phase, state)
        return
    on_phase("generate")
    if "case" in spec:
        case = spec["case"]
        base, kind, origin, proto, applied = derive_case(ctx, case, corpus)
        muts = [[k, s] for k, s, _ in applied]
        whats = [w for _, _, w in applied]
        if "muts" in spec:  # a probe of a sub-list (hang shrinking)
            muts = [list(m) for m in spec["muts"]]
            proto, whats = build(base, muts)
    else:
        case = spec.get("label", "replay")
        kind = spec["kind"]
        origin = spec.get("origin", "replay")
        base = PROTO_CLASSES[kind]()
        base.ParseFromString(base64.b64decode(spec["base_b64"]))
        muts = [list(m) for m in spec["muts"]]
        proto, whats = build(base, muts)
    base_bytes = base.SerializeToString(deterministic=True)
    rec.count("cases_judged")
    rec.count(f"kind:{kind}")
    rec.count("corpus_cases" if origin.startswith("corpus:") else "generated_cases")
    rec.count("mutations_applied", len(muts))
    for m in muts:
        rec.count(f"mut:{m[0]}")
    if any(m[0] in mp.BYTE_KINDS for m in muts):
        rec.count("byte_level_cases")
    if not muts:
        rec.count("control_cases_unmutated")
    if any(m[0] == "autoname" for m in muts):
        rec.count("library_named_cases")
        if any(m[0] in NAME_LOSS for m in muts):
            rec.count("library_named_cases_with_unnamed_definition")
    deep = mp.nesting_depth(proto)
    if deep >= 40:
        rec.count("deeply_nested_cases")  # 40 message levels = 20 type levels = 10 graph levels
        if _proto_bytes(proto) <= 8000:
            rec.count("deeply_nested_small_cases")
    rec.count("canary_locations", sum(1 for loc in mp.external_locations(proto) if mp.CANARY in loc))

    degenerate = mp.all_empty_lists(proto) if any(m[0] in ("empty_run", "empty_name", "unname") for m in muts) else []
    if degenerate:
        rec.count("all_empty_list_cases")

    events, info = judge(proto, kind, rec.count, on_phase, tag=str(case))
    if degenerate and info["outcome"].endswith("round trip judged"):
        rec.count("all_empty_list_round_trips")
        for d in degenerate:
            rec.count(f"all_empty_round_trip:{d}")
    nontrivial = bool(muts) and info["progressed"]
    rec.evaluation(key=stable_hash([kind, stable_hash(base64.b64encode(base_bytes).decode()), muts]), nontrivial=nontrivial)
    if nontrivial and not events and state["samples"] < 3:
        state["samples"] += 1
        rec.sample({"case": case, "kind": kind, "origin": origin, "base_bytes": len(base_bytes),
                    "mutations": whats, "outcome": info["outcome"][:300]})
    if events:
        _report_events(base, base_bytes, kind, origin, case, muts, events, rec, on_phase, state)


def _report_events(base, base_bytes, kind, origin, case, muts, events, rec, on_phase, state) -> None:
    """Shrink each event to a 1-minimal mutation list, then name and report it."""
    for ev in events:
        key = (ev["cls"], ev["core"])

        def fails(sub, key=key) -> bool:
            on_phase("shrink:" + json.dumps(sub))
            cand, _ = build(base, sub)
            evs, _ = judge(cand, kind)
            return any((e["cls"], e["core"]) == key for e in evs)

        small = muts
        if len(muts) >= 1 and state["shrinks"] < 30:
            state["shrinks"] += 1
            if fails([]):
                small = []
            elif len(muts) > 1:
                # a probe that still exhausts the step budget costs the whole budget: fewer probes for that class
                small = ddmin(muts, fails, max_tests=14 if ev["cls"] == "steps-exceeded" else 80)
        witness, small_whats = build(base, small)
        evs, _ = judge(witness, kind)
        text = next((e["text"] for e in evs if (e["cls"], e["core"]) == key), ev["text"])
        sig = _signature(ev, small)
        msg = (f"{kind} ({origin}) + {len(small)} mutation(s) {[[m[0], m[1]] for m in small]}: {text}\n"
               f"  mutations: {small_whats}\n  mutated proto:\n{_text_proto(witness)}")
        rec.violation(sig, msg, {"kind": kind, "origin": origin, "base_b64": base64.b64encode(base_bytes).decode("ascii"),
                                 "muts": [[m[0], m[1]] for m in small], "case": case, "expect": sig})


# =====================================================================================================
# stateful cases: sequences of from_proto calls over protos that share value names, in ONE process
# =====================================================================================================

SEQ_FRACTION = 0.07
REJECTORS = ("late_reject", "late_reject", "late_reject", "redeclare_output", "unknown_enum", "unsupported", "invalid_utf8")
DANGLERS = ("drop_producer", "drop_producer", "drop_producer", "dangling_output", "dangling_input", "outer_output")


def is_seq_case(ctx, case: int) -> bool:
    return ctx.rng(case, "seq?").random() < SEQ_FRACTION


def _view(base, view: str):
    """A message cut out of the base model: the model itself, its main graph, or one of its functions."""
    if view == "graph":
        out = onnx.GraphProto()
        out.CopyFrom(base.graph)
        return out, "GraphProto"
    if view.startswith("function:") and len(base.functions):
        out = onnx.FunctionProto()
        out.CopyFrom(base.functions[int(view.split(":")[1]) % len(base.functions)])
        return out, "FunctionProto"
    out = onnx.ModelProto()
    out.CopyFrom(base)
    return out, "ModelProto"


def derive_seq(ctx, case: int):
    """-> (base model, origin, steps); a step is {view, kind, role, muts [[kind, seed, what]], proto}.
    All steps are variants of ONE base model, so they share value names; the roles make the pattern
    'a variant that is rejected late' followed by 'a variant with dangling names' frequent."""
    rng = ctx.rng(case, "seq")
    force = {f for f in FORCIBLE if rng.random() < 0.22}
    gen = gp.ProtoGen(rng, force=force)
    base = gen.model()
    mp.canary_locations(base)
    n = rng.randint(2, 5)
    roles = []
    for i in range(n):
        r = rng.random()
        if i == 0:
            roles.append("reject" if r < 0.7 else "random")
        elif i == 1:
            roles.append("dangle" if r < 0.7 else "random")
        else:
            roles.append(rng.choice(("reject", "dangle", "dangle", "random", "plain")))
    steps = []
    for role in roles:
        views = ["model", "model", "graph", "graph"]
        if len(base.functions):
            views.append(f"function:{rng.randrange(len(base.functions))}")
        view = rng.choice(views)
        proto, kind = _view(base, view)
        muts: list[list] = []

        def app(name: str, proto=proto, muts=muts) -> None:
            seed = rng.getrandbits(32)
            what = mp.apply(proto, name, seed)
            if what is not None:
                muts.append([name, seed, what])

        if role == "reject":
            app(rng.choice(REJECTORS))
        elif role == "dangle":
            for _ in range(rng.randint(1, 2)):
                app(rng.choice(DANGLERS))
        if role == "random" or (role in ("reject", "dangle") and rng.random() < 0.3):
            muts += mp.mutate(proto, rng, rng.randint(1, 3) if role == "random" else 1)
        steps.append({"view": view, "kind": kind, "role": role, "muts": muts, "proto": proto})
    return base, f"generated ir_version={gen.ir_version}", steps


def _explicit_seq(ctx, spec: dict) -> dict:
    if "case" not in spec:
        return spec["seq"]
    base, origin, steps = derive_seq(ctx, spec["case"])
    return {"kind": "ModelProto", "origin": origin, "base_b64": _b64(base), "case": spec["case"],
            "steps": [{"view": st["view"], "role": st["role"], "muts": [[m[0], m[1]] for m in st["muts"]]} for st in steps]}


def _steps_of(seq: dict):
    base = onnx.ModelProto()
    base.ParseFromString(base64.b64decode(seq["base_b64"]))
    steps = []
    for st in seq["steps"]:
        proto, kind = _view(base, st["view"])
        muts = []
        for m in st["muts"]:
            muts.append([m[0], int(m[1]), mp.apply(proto, m[0], int(m[1])) or "(no site)"])
        steps.append({"view": st["view"], "kind": kind, "role": st.get("role", "?"), "muts": muts, "proto": proto})
    return base, seq.get("origin", "replay"), steps


def _reference(proto, kind: str, cpu_limit: float) -> dict | None:
    """What judging ``proto`` ALONE yields, computed in a forked grandchild of a process that has not
    deserialised any hostile proto yet (so nothing an earlier call left behind can influence it)."""
    rfd, wfd = os.pipe()
    pid = os.fork()
    if pid == 0:
        try:
            os.close(rfd)
            events, info = judge(proto, kind, want_hash=True)
            os.write(wfd, json.dumps({"events": [[e["cls"], e["core"]] for e in events], "accepted": info["accepted"],
                                      "p1_hash": info.get("p1_hash")}).encode())
        except BaseException:  # noqa: BLE001 - no reference then
            pass
        finally:
            os._exit(0)
    os.close(wfd)
    data = b""
    t0 = time.monotonic()
    try:
        while True:
            ready, _, _ = select.select([rfd], [], [], 0.2)
            if ready:
                chunk = os.read(rfd, 1 << 16)
                if not chunk:
                    break
                data += chunk
            elif _cpu_seconds(pid) > cpu_limit or time.monotonic() - t0 > 90:
                break
    finally:
        with contextlib.suppress(OSError):
            os.kill(pid, signal.SIGKILL)
        os.close(rfd)
        os.waitpid(pid, 0)
    try:
        return json.loads(data.decode())
    except ValueError:
        return None


def run_seq_case(ctx, spec: dict, rec, on_phase, state: dict) -> None:
    on_phase("generate")
    if "case" in spec:
        case = spec["case"]
        base, origin, steps = derive_seq(ctx, case)
    else:
        case = spec.get("label", "replay")
        base, origin, steps = _steps_of(spec["seq"])
    base_b64 = _b64(base)
    rec.count("seq_cases")
    cpu_limit = float(ctx.params.get("case_cpu_s", 8.0))
    on_phase("reference")
    refs = [_reference(st["proto"], st["kind"], cpu_limit) for st in steps]
    outcomes: list[str] = []
    progressed = False
    for k, st in enumerate(steps):
        rec.count("seq_steps_judged")
        rec.count(f"seq_role:{st['role']}")
        rec.count(f"seq_view:{st['view'].split(':')[0]}")
        for m in st["muts"]:
            rec.count(f"mut:{m[0]}")
        events, info = judge(st["proto"], st["kind"], rec.count, on_phase, tag=f"{case}.{k}", want_hash=True)
        outcomes.append(info["outcome"][:160])
        progressed = progressed or (bool(st["muts"]) and info["progressed"])
        if k > 0:
            rec.count("seq_steps_after_rejected" if any(o.startswith("from_proto raised") for o in outcomes[:-1])
                      else "seq_steps_after_accepted_only")
        ref = refs[k]
        if ref is None:
            rec.count("seq_reference_unavailable")
        else:
            rec.count("seq_references_compared")
        ref_keys = None if ref is None else {(c, core) for c, core in ref["events"]}
        ordinary = [e for e in events if ref_keys is None or (e["cls"], e["core"]) in ref_keys]
        leaked = [e for e in events if ref_keys is not None and (e["cls"], e["core"]) not in ref_keys]
        if ordinary:
            view_base, _ = _view(base, st["view"])
            _report_events(view_base, view_base.SerializeToString(deterministic=True), st["kind"], origin, f"{case}.{k}",
                           [[m[0], m[1]] for m in st["muts"]], ordinary, rec, on_phase, state)
        differs = ""
        if ref is not None:
            if ref["accepted"] != info["accepted"]:
                differs = (f"alone it is {'accepted' if ref['accepted'] else 'rejected'}, in the sequence "
                           f"{'accepted' if info['accepted'] else 'rejected'}")
                if not leaked:
                    rec.count("report_only_order_dependent_outcome")
            elif ref.get("p1_hash") and info.get("p1_hash") and ref["p1_hash"] != info["p1_hash"]:
                differs = "canon(to_proto(from_proto(p))) differs from the one obtained when p is deserialised alone"
                if not leaked:
                    rec.count("report_only_order_dependent_output")
            elif ref.get("p1_hash") and info.get("p1_hash"):
                rec.count("seq_outputs_order_independent")
        for ev in leaked:
            sig = f"state-leak:{ev['cls']}:{ev['core']}"
            lines = []
            for j in range(k + 1):
                sj = steps[j]
                lines.append(f"    step {j}: from_proto({sj['kind']} = {sj['view']} of the base model, role {sj['role']}, "
                             f"mutations {[m[2] for m in sj['muts']]}) -> {outcomes[j]}")
            msg = (f"sequence of {k + 1} from_proto calls in one process over variants of one base model ({origin}): "
                   f"step {k} alone (fresh process) does not show this, after the earlier calls it does: {ev['text']}"
                   + (f"; {differs}" if differs else "") + "\n" + "\n".join(lines)
                   + f"\n  proto of step {k}:\n{_text_proto(st['proto'])}")
            rec.violation(sig, msg, {"seq": {"kind": "ModelProto", "origin": origin, "base_b64": base_b64, "case": case,
                                             "steps": [{"view": s_["view"], "role": s_["role"], "muts": [[m[0], m[1]] for m in s_["muts"]]}
                                                       for s_ in steps[:k + 1]]}, "expect": sig})
    rec.evaluation(key=stable_hash(["seq", stable_hash(base_b64), [[s_["view"], [[m[0], m[1]] for m in s_["muts"]]] for s_ in steps]]),
                   nontrivial=progressed)
    if progressed and state["seq_samples"] < 1:
        state["seq_samples"] += 1
        rec.sample({"case": case, "sequence": [{"view": s_["view"], "role": s_["role"], "mutations": [m[2] for m in s_["muts"]],
                                                "outcome": o} for s_, o in zip(steps, outcomes)]})


# =====================================================================================================
# child process + watchdog
# =====================================================================================================


def _child_main(ctx, specs: list[dict], wfd: int, stack_path: str, corpus: list[str]) -> None:
    stack_file = open(stack_path, "a")  # noqa: SIM115 - lives as long as the child
    faulthandler.enable(file=stack_file, all_threads=True)
    faulthandler.register(signal.SIGUSR1, file=stack_file, all_threads=True, chain=False)
    try:  # a memory bomb becomes a MemoryError in the child instead of pressure on the machine
        import resource

        resource.setrlimit(resource.RLIMIT_AS, (24 << 30, 24 << 30))
    except (ImportError, ValueError, OSError):
        pass
    state = {"samples": 0, "shrinks": 0, "seq_samples": 0}

    def send(line: str) -> None:
        data = (line + "\n").encode("utf-8", "replace")
        while data:
            n = os.write(wfd, data)
            data = data[n:]

    for k, spec in enumerate(specs):
        rec = Rec()
        send(f"S {k}")
        run_case(ctx, spec, rec, lambda ph, k=k: send(f"P {k} {ph}"), corpus, state)
        send("R " + json.dumps({"k": k, **rec.delta()}, default=repr))
    send("E")


_FRAME = re.compile(r'^\s+File "(.*)", line (\d+) in (.*)$')


def _parse_dump(text: str) -> list[tuple[str, int, str]]:
    """Frames (most recent first) of the current thread in the LAST faulthandler dump of ``text``."""
    blocks = re.split(r"^(?:Current thread|Stack) .*$", text, flags=re.M)
    if len(blocks) < 2:
        return []
    frames = []
    for line in blocks[-1].splitlines():
        m = _FRAME.match(line)
        if m:
            frames.append((m.group(1), int(m.group(2)), m.group(3)))
        elif line.strip() == "...":
            frames.append(("<truncated>", 0, "..."))  # faulthandler prints at most 100 frames
        elif line.startswith("Thread "):
            break
    return frames


def _truncated(frames) -> bool:
    return any(fn == "<truncated>" for fn, _l, _f in frames)


def _onnx_ir_site(frames) -> tuple[int, str]:
    for i, (fn, _line, func) in enumerate(frames):
        fn = fn.replace("\\", "/")
        if "/onnx_ir/" in fn:
            mod = fn.rsplit("/onnx_ir/", 1)[1].rsplit(".py", 1)[0].replace("/", ".")
            return i, f"{mod}.{func}"
    return -1, ""


def _cpu_seconds(pid: int) -> float:
    try:
        with open(f"/proc/{pid}/stat", "rb") as f:
            data = f.read().decode("ascii", "replace")
        rest = data[data.rfind(")") + 2:].split()
        return (int(rest[11]) + int(rest[12])) / os.sysconf("SC_CLK_TCK")
    except (OSError, ValueError, IndexError):
        return 0.0


def _sample_stack(pid: int, stack_path: str) -> list[tuple[str, int, str]]:
    try:
        before = os.path.getsize(stack_path)
    except OSError:
        before = 0
    try:
        os.kill(pid, signal.SIGUSR1)
    except OSError:
        return []
    deadline = time.monotonic() + 20
    last = before
    stable = 0
    while time.monotonic() < deadline:
        time.sleep(0.1)
        try:
            size = os.path.getsize(stack_path)
        except OSError:
            size = before
        if size > before and size == last:
            stable += 1
            if stable >= 3:
                break
        else:
            stable = 0
        last = size
    try:
        with open(stack_path, errors="replace") as f:
            f.seek(before)
            return _parse_dump(f.read())
    except OSError:
        return []


def _diagnose_hang(pid: int, stack_path: str) -> tuple[str, str]:
    """-> (site, explanation); site == '' when the two samples do not show the same loop."""
    a = _sample_stack(pid, stack_path)
    cpu0 = _cpu_seconds(pid)
    t0 = time.monotonic()
    # let the child burn at least another CPU second (or 30 s of wall time if it is blocked)
    while time.monotonic() - t0 < 30 and not (_cpu_seconds(pid) - cpu0 >= 1.0 and time.monotonic() - t0 >= 2.0):
        time.sleep(0.2)
    b = _sample_stack(pid, stack_path)
    ia, sa = _onnx_ir_site(a)
    ib, sb = _onnx_ir_site(b)
    shown = " <- ".join(f"{func}:{line}" for _fn, line, func in a[:6])
    if not a or not b:
        return "", f"a stack sample could not be taken (the case may have finished) ({shown})"
    if ia < 0 or ib < 0:
        return "", f"no onnx_ir frame in the samples ({shown})"
    if _truncated(a) or _truncated(b):
        return "", f"the stack is deeper than faulthandler prints; the outer frames cannot be compared ({shown})"
    if sa != sb:
        return "", f"the samples are in different functions ({sa} / {sb})"
    if a[ia + 1:] != b[ib + 1:]:
        return "", f"the outer stacks differ between the samples (both in {sa})"
    return sa, f"both samples in {sa} below an identical outer stack of {len(a) - ia - 1} frames; top: {shown}"


def _exec(ctx, specs: list[dict], corpus: list[str], *, apply: bool, cpu_limit: float, wall_limit: float,
          diagnose: bool = True) -> list[dict]:
    """Run specs in forked children under the watchdog.  Returns one outcome per spec:
    {status: done|hang|crash|stuck, phase, site, why, muts?}."""
    outcomes: list[dict] = []
    tmp = os.environ.get("VF_SHARD_TMP") or "."
    i = 0
    while i < len(specs):
        todo = specs[i:]
        stack_path = os.path.join(tmp, f"c17_stack_{os.getpid()}_{len(outcomes)}_{time.monotonic_ns()}.txt")
        rfd, wfd = os.pipe()
        sys.stdout.flush()
        sys.stderr.flush()
        pid = os.fork()
        if pid == 0:
            code = 0
            try:
                os.close(rfd)
                _child_main(ctx, todo, wfd, stack_path, corpus)
            except BaseException:  # noqa: BLE001 - a harness failure is reported to the parent, never swallowed
                code = 7
                try:
                    os.write(wfd, ("X " + json.dumps(traceback.format_exc()) + "\n").encode())
                except OSError:
                    pass
            finally:
                os._exit(code)
        os.close(wfd)
        buf = b""
        cur: int | None = None
        phase = "start"
        finished = False
        scale = 1
        case_cpu0 = 0.0
        case_t0 = time.monotonic()
        verdict: dict | None = None
        harness_error = None
        try:
            while True:
                ready, _, _ = select.select([rfd], [], [], 0.25)
                if ready:
                    data = os.read(rfd, 1 << 16)
                    if not data:
                        break
                    buf += data
                    while b"\n" in buf:
                        line, buf = buf.split(b"\n", 1)
                        text = line.decode("utf-8", "replace")
                        tag, _, rest = text.partition(" ")
                        if tag == "S":
                            cur = int(rest)
                            scale = 1
                            phase = "generate"
                            case_cpu0 = _cpu_seconds(pid)
                            case_t0 = time.monotonic()
                        elif tag == "P":
                            phase = rest.split(" ", 1)[1] if " " in rest else rest
                        elif tag == "R":
                            d = json.loads(rest)
                            if apply:
                                _apply_delta(ctx, d)
                            outcomes.append({"status": "done"})
                            cur = None
                        elif tag == "E":
                            finished = True
                        elif tag == "X":
                            harness_error = json.loads(rest)
                    continue
                if cur is None:
                    continue
                cpu = _cpu_seconds(pid) - case_cpu0
                wall = time.monotonic() - case_t0
                if cpu > cpu_limit * scale or wall > wall_limit * scale:
                    ph = phase.split(":", 1)[0]
                    muts = json.loads(phase.split(":", 1)[1]) if phase.startswith("shrink:") else None
                    why = f"{cpu:.1f} CPU s / {wall:.0f} s wall in one case (limits {cpu_limit * scale}/{wall_limit * scale})"
                    if diagnose:
                        site, expl = _diagnose_hang(pid, stack_path)
                        if not site and scale < 16:
                            # no structural diagnosis: the case may just be slow (time never decides);
                            # give it twice the budget and look again
                            scale *= 2
                            ctx.count("watchdog_extensions")
                            continue
                    else:
                        site, expl = "?", "not sampled (probe)"
                    status = "hang" if site and (ph in LIBRARY_PHASES or ph == "shrink") else "stuck"
                    verdict = {"status": status, "phase": "from_proto" if ph == "shrink" and site else ph,
                               "site": site, "why": f"{why}; {expl}", "muts": muts}
                    if ph == "shrink" and site and diagnose:
                        # which library phase the shrink test was in is read off the sampled stack
                        verdict["phase"] = _phase_from_stack(stack_path) or "from_proto"
                    break
        finally:
            if verdict is not None:
                try:
                    os.kill(pid, signal.SIGKILL)
                except OSError:
                    pass
            os.close(rfd)
            _, status = os.waitpid(pid, 0)
        if harness_error is not None:
            raise RuntimeError("C17 harness failure inside a case child:\n" + harness_error)
        if verdict is None and not finished:
            # the child is gone without finishing: a crash (or an exit) in the middle of case `cur`
            sig = os.WTERMSIG(status) if os.WIFSIGNALED(status) else 0
            code = os.WEXITSTATUS(status) if os.WIFEXITED(status) else -1
            try:
                with open(stack_path, errors="replace") as f:
                    dump = f.read()
            except OSError:
                dump = ""
            frames = _parse_dump(dump)
            _, site = _onnx_ir_site(frames)
            ph = phase.split(":", 1)[0]
            muts = json.loads(phase.split(":", 1)[1]) if phase.startswith("shrink:") else None
            name = signal.Signals(sig).name if sig else f"exit={code}"
            verdict = {"status": "crash" if (ph in LIBRARY_PHASES or (ph == "shrink" and site)) else "stuck",
                       "phase": ph, "site": site or "?", "signal": name, "muts": muts,
                       "why": f"child died with {name} during phase {ph}; top frames: "
                              + " <- ".join(f"{func}:{line}" for _fn, line, func in frames[:6])}
            if cur is None:
                # died between cases: nothing to attribute
                verdict = {"status": "stuck", "phase": "between-cases", "site": "?", "why": f"child died with {name} between cases"}
        with contextlib.suppress(OSError):
            os.remove(stack_path)
        if verdict is not None:
            outcomes.append(verdict)
        i = len(outcomes)
    return outcomes


def _phase_from_stack(stack_path: str) -> str:
    try:
        with open(stack_path, errors="replace") as f:
            frames = _parse_dump(f.read())
    except OSError:
        return ""
    for _fn, _line, func in frames:
        if func.startswith("_phase_"):
            return func[len("_phase_"):]
    return ""


def _explicit(ctx, spec: dict, corpus, muts_override=None) -> dict:
    """Self-contained replay data of a spec (base proto + mutation list), derived in the parent."""
    if "case" not in spec:
        out = dict(spec)
        if muts_override is not None:
            out["muts"] = muts_override
        return out
    base, kind, origin, _proto, applied = derive_case(ctx, spec["case"], corpus)
    muts = [[k, s] for k, s, _ in applied]
    if "muts" in spec:
        muts = spec["muts"]
    if muts_override is not None:
        muts = muts_override
    return {"kind": kind, "origin": origin, "base_b64": _b64(base), "muts": [list(m) for m in muts], "case": spec["case"]}


def _report_abnormal(ctx, spec: dict, oc: dict, corpus, state: dict) -> None:
    """A case that did not finish: violation (diagnosed hang / crash in a library phase) or inconclusive."""
    params = ctx.params
    if oc["status"] == "stuck":
        ctx.count("watchdog_undiagnosed")
        state["undiagnosed"].append(f"case {spec.get('case', spec.get('label'))}: phase {oc.get('phase')}: {oc.get('why')}")
        return
    if spec.get("seq"):
        seq = _explicit_seq(ctx, spec)
        state["strikes"] += 1
        kind_ = "hang" if oc["status"] == "hang" else "crash"
        ctx.count("hangs_diagnosed" if kind_ == "hang" else "crashes")
        sig = (f"hang:{oc['phase']}|{oc['site']}" if kind_ == "hang" else f"crash:{oc['phase']}|{oc.get('signal')}|{oc['site']}")
        ctx.violation(sig, f"sequence of from_proto calls over variants of one base model ({seq.get('origin')}), steps "
                           f"{[(st['view'], st['muts']) for st in seq['steps']]}: {oc['why']}", {"seq": seq, "expect": sig})
        return
    full = _explicit(ctx, spec, corpus, oc.get("muts"))
    muts = full["muts"]
    state["strikes"] += 1
    if state["strikes"] == 1 and len(muts) > 1 and (time.monotonic() - ctx.t0) < 2.5 * ctx.budget_s:
        # cheap 1-minimality pass: drop one mutation at a time, probe in a child with a short CPU limit
        i = 0
        while i < len(muts) and len(muts) > 1:
            cand = muts[:i] + muts[i + 1:]
            probe = dict(full, muts=cand)
            res = _exec(ctx, [probe], corpus, apply=False, cpu_limit=min(2.0, float(params.get("case_cpu_s", 8.0))),
                        wall_limit=60.0, diagnose=False)
            if res and res[0]["status"] != "done" and res[0].get("phase", oc["phase"]) in (oc["phase"], "shrink"):
                muts = cand
            else:
                i += 1
        full["muts"] = muts
    base = PROTO_CLASSES[full["kind"]]()
    base.ParseFromString(base64.b64decode(full["base_b64"]))
    witness, whats = build(base, muts)
    if oc["status"] == "hang":
        ctx.count("hangs_diagnosed")
        sig = f"hang:{oc['phase']}|{oc['site']}"
        head = f"{oc['phase']} neither returned nor raised: {oc['why']}"
    else:
        ctx.count("crashes")
        sig = f"crash:{oc['phase']}|{oc.get('signal')}|{oc['site']}"
        head = f"the process died inside {oc['phase']}: {oc['why']}"
    full["expect"] = sig
    ctx.violation(sig, f"{full['kind']} ({full.get('origin')}) + {len(muts)} mutation(s) {muts}: {head}\n"
                       f"  mutations: {whats}\n  mutated proto:\n{_text_proto(witness)}", full)


# =====================================================================================================
# watchdog self-check: the diagnosis must recognise a loop and must not call a finished case a hang
# =====================================================================================================


def _selfcheck_watchdog(ctx) -> None:
    """A child that spins inside a function whose code object claims to live in onnx_ir must be diagnosed
    as a hang there; this exercises the CPU-time trigger, the signal-driven sampling and the parser."""
    tmp = os.environ.get("VF_SHARD_TMP") or "."
    stack_path = os.path.join(tmp, f"c17_selfcheck_{os.getpid()}.txt")
    src = "def spin_forever():\n    x = 0\n    while True:\n        x += 1\n"
    ns: dict = {}
    exec(compile(src, "/selfcheck/onnx_ir/_fake.py", "exec"), ns)  # noqa: S102 - harness self-test only
    pid = os.fork()
    if pid == 0:
        try:
            f = open(stack_path, "a")  # noqa: SIM115
            faulthandler.register(signal.SIGUSR1, file=f, all_threads=True, chain=False)
            ns["spin_forever"]()
        finally:
            os._exit(0)
    try:
        t0 = time.monotonic()
        while _cpu_seconds(pid) < 0.3 and time.monotonic() - t0 < 60:
            time.sleep(0.05)
        site, expl = _diagnose_hang(pid, stack_path)
    finally:
        with contextlib.suppress(OSError):
            os.kill(pid, signal.SIGKILL)
        os.waitpid(pid, 0)
        with contextlib.suppress(OSError):
            os.remove(stack_path)
    if site == "_fake.spin_forever":
        ctx.count("watchdog_selfcheck_ok")
    else:
        ctx.note(f"watchdog self-check failed: {site!r} {expl}")


def _selfcheck_steps(ctx) -> None:
    """The step counter must stop an exponential recursion and a spinning loop inside code that claims to live in
    onnx_ir, name the function, and must leave a cheap call alone."""
    if not STEPS.ok:
        ctx.note("step counter unavailable: sys.monitoring missing or its tool id taken")
        return
    src = ("def fib(n):\n    return n if n < 2 else fib(n - 1) + fib(n - 2)\n\n"
           "def spin(n):\n    x = 0\n    while True:\n        x += 1\n")
    ns: dict = {}
    exec(compile(src, "/selfcheck/onnx_ir/_fake.py", "exec"), ns)  # noqa: S102 - harness self-test only
    STEPS.refresh(extra=[ns["fib"].__code__, ns["spin"].__code__])
    seen = []
    for name, arg in (("fib", 60), ("spin", 0)):
        try:
            with STEPS.budget(50_000):
                ns[name](arg)
            seen.append("returned")
        except StepBudgetExceeded as e:
            seen.append(_budget_site(e)[0])
    with STEPS.budget(50_000):
        ns["fib"](10)
    cheap = STEPS.used()
    if seen == ["_fake.fib", "_fake.spin"] and 100 <= cheap <= 1000:
        ctx.count("step_budget_selfcheck_ok")
    else:
        ctx.note(f"step counter self-check failed: {seen} cheap={cheap}")
    ctx.count("step_counter_code_objects", STEPS.codes if ctx.shard == 0 else 0)


def _selfcheck_fs(ctx) -> None:
    with FS.window("selfcheck"):
        try:
            os.stat(f"/nonexistent/{mp.CANARY}selfcheck")
        except OSError:
            pass
        try:
            open(f"/nonexistent/{mp.CANARY}selfcheck2")  # noqa: SIM115
        except OSError:
            pass
    calls = {(c, k) for c, _p, _s, k in FS.events}
    if ("os.stat", "canary") in calls and ("open", "canary") in calls:
        ctx.count("fs_observer_selfcheck_ok")
    else:
        raise RuntimeError(f"C17 file observer self-check failed: {FS.events}")


# =====================================================================================================
# strace observer (thorough tier)
# =====================================================================================================

_ST_LINE = re.compile(r"^(\d+)\s+(\w+)\((.*)$")
_ST_STR = re.compile(r'"((?:[^"\\]|\\.)*)"')
_ST_INTERNAL = (".py", ".pyc", ".so", ".pth", ".cfg", ".egg-info", ".dist-info")


def _strace_internal(path: str) -> bool:
    return (path.endswith(_ST_INTERNAL) or "__pycache__" in path or "/site-packages" in path
            or "/lib/python3" in path or path.startswith(("/proc/", "/sys/", "/dev/", "/etc/")))


def parse_strace(log_path: str) -> tuple[dict[tuple[str, str], list[tuple[str, str]]], int]:
    """-> ({(case tag, phase): [(syscall, first path argument)]}, number of bracketed windows)"""
    seen: dict[tuple[str, str], list[tuple[str, str]]] = {}
    cur: tuple[str, str] | None = None
    windows = 0
    with open(log_path, errors="surrogateescape") as f:
        for line in f:
            if MARK in line:
                m = re.search(re.escape(MARK) + r"([^/\"]*)/([\w]+):([be])", line)
                if not m:
                    continue
                if m.group(3) == "b":
                    cur = (m.group(1), m.group(2))
                    seen.setdefault(cur, [])
                    windows += 1
                else:
                    cur = None
                continue
            if cur is None:
                continue
            m = _ST_LINE.match(line.rstrip("\n"))
            if not m:
                continue
            s = _ST_STR.search(m.group(3))
            seen[cur].append((m.group(2), s.group(1) if s else ""))
    return seen, windows


def _strace_batch(ctx, n: int) -> None:
    strace = shutil.which("strace")
    tmp = os.environ.get("VF_SHARD_TMP")
    if not strace or not tmp:
        ctx.note("strace observer unavailable: strace or scratch directory missing")
        ctx.count("strace_unavailable")
        return
    cases = [10_000_000 + ctx.shard + k * ctx.nshards for k in range(n)]
    cases_p, out_p, log_p = (os.path.join(tmp, f"c17_strace_{x}") for x in ("cases.json", "out.json", "log.txt"))
    with open(cases_p, "w") as f:
        json.dump({"seed": ctx.seed, "tier": ctx.tier, "cases": cases}, f)
    root = os.environ.get("VF_ROOT") or os.path.dirname(os.path.dirname(os.path.dirname(os.path.abspath(__file__))))
    cmd = [strace, "-f", "-qq", "-s", "4096", "-e", "trace=%file", "-o", log_p,
           sys.executable, "-m", "vfpy.c17_strace_child", cases_p, out_p]
    proc = None
    for extra in (["--seccomp-bpf"], []):
        try:
            proc = subprocess.run(cmd[:1] + extra + cmd[1:], cwd=root, capture_output=True, text=True, timeout=900)
        except subprocess.TimeoutExpired:
            ctx.note("strace observer: child timed out")
            ctx.count("strace_unavailable")
            return
        if proc.returncode == 0 and os.path.exists(out_p):
            break
    if proc is None or proc.returncode != 0 or not os.path.exists(out_p):
        ctx.note(f"strace observer unavailable: rc={proc.returncode if proc else '?'} {(proc.stderr if proc else '')[-300:]}")
        ctx.count("strace_unavailable")
        return
    with open(out_p) as f:
        results = json.load(f)
    seen, windows = parse_strace(log_p)
    ctx.count("strace_windows_observed", windows)
    ctx.count("strace_cases", len(results.get("cases", [])))
    judged_phases = {"from_proto", "inspect", "reload", "inspect2"}
    for (tag, phase), calls in seen.items():
        for syscall, path in calls:
            if path == "":
                ctx.count("strace_calls_on_descriptors")  # f*at(fd, "", AT_EMPTY_PATH): no path is named
                continue
            if mp.CANARY not in path and _strace_internal(path):
                ctx.count("strace_calls_interpreter_internal")
                continue
            if syscall == "getcwd":
                ctx.count("report_only_strace_getcwd")
                continue
            if phase not in judged_phases:
                ctx.count(f"report_only_strace_call_during_{phase}")
                continue
            spec = _explicit(ctx, {"case": int(tag)}, _corpus_paths()) if tag.isdigit() else None
            sig = f"file-access:strace|{phase}|{syscall}"
            ctx.violation(sig, f"[strace observer] {syscall}({path!r}) between the markers of phase {phase} of case {tag}"
                          + (" [canary path]" if mp.CANARY in path else ""), dict(spec or {}, expect=sig))
    for p in (cases_p, out_p, log_p):
        with contextlib.suppress(OSError):
            os.remove(p)


# =====================================================================================================
# shard
# =====================================================================================================

_READY = [False]


def setup() -> None:
    if _READY[0]:
        return
    _READY[0] = True
    # warnings of third-party helpers (e.g. onnx's ExternalDataInfo about unknown keys) are not observations;
    # displaying them would also make the interpreter read source lines and fill the shard's output pipe
    import warnings

    warnings.simplefilter("ignore")
    FS.install()
    _install_progress()
    # warm-up: lazy imports and caches are filled before any window opens
    import random

    for i in range(6):
        rng = random.Random(f"c17-warmup:{i}")
        for kind in ("ModelProto", "TensorProto", "FunctionProto"):
            p = gp.ProtoGen(rng, force={"external", "functions", "attr_tensor", "string_tensor"}).build(kind)
            try:
                obj = ir.from_proto(p)
                w = _world_of(obj)
                for t in _tensors_of(obj, w):
                    t.name, t.dtype, t.shape, t.size, t.nbytes  # noqa: B018
                ir.to_proto(obj)
            except Exception:  # noqa: BLE001 - warm-up only
                pass
    STEPS.install()


def run(ctx) -> None:
    setup()
    _selfcheck_fs(ctx)
    _selfcheck_steps(ctx)
    if ctx.shard == 0:
        _selfcheck_watchdog(ctx)
    corpus = _corpus_paths()
    if not corpus:
        ctx.note("corpus not found: no ONNX backend test data")
    state = {"strikes": 0, "undiagnosed": []}
    cpu_limit = float(ctx.params.get("case_cpu_s", 8.0))
    wall_limit = float(ctx.params.get("case_wall_s", 150.0))
    it = ctx.case_ids()
    while True:
        batch = list(itertools.islice(it, BATCH))
        if not batch:
            break
        plain = [{"case": c} for c in batch if not is_seq_case(ctx, c)]
        groups = [plain] if plain else []
        # a stateful case gets a child of its own: it starts from a process that has deserialised nothing hostile
        groups += [[{"case": c, "seq": True}] for c in batch if is_seq_case(ctx, c)]
        for specs in groups:
            outcomes = _exec(ctx, specs, corpus, apply=True, cpu_limit=cpu_limit, wall_limit=wall_limit)
            for spec, oc in zip(specs, outcomes):
                if oc["status"] != "done":
                    _report_abnormal(ctx, spec, oc, corpus, state)
        if state["strikes"] >= 2:
            ctx.note("stopped: two cases hung or crashed in this shard")
            break
    n_strace = int(ctx.params.get("strace_batch", 0) or 0)
    if n_strace:
        _strace_batch(ctx, n_strace)
    if state["undiagnosed"]:
        raise RuntimeError("watchdog fired without a structural diagnosis (inconclusive): " + " | ".join(state["undiagnosed"][:3]))


def replay(replay_data, ctx) -> None:
    setup()
    if "seq" in replay_data:
        spec = {"seq": replay_data["seq"], "label": replay_data["seq"].get("case", "replay")}
    else:
        spec = {"kind": replay_data["kind"], "origin": replay_data.get("origin", "replay"),
                "base_b64": replay_data["base_b64"], "muts": replay_data["muts"], "label": replay_data.get("case", "replay")}
    state = {"strikes": 1, "undiagnosed": []}  # strikes=1: no further shrinking on replay
    outcomes = _exec(ctx, [spec], _corpus_paths(), apply=True, cpu_limit=float(ctx.params.get("case_cpu_s", 8.0)),
                     wall_limit=float(ctx.params.get("case_wall_s", 150.0)))
    for oc in outcomes:
        if oc["status"] != "done":
            _report_abnormal(ctx, spec, oc, _corpus_paths(), state)
    for text in state["undiagnosed"]:
        ctx.note("watchdog without diagnosis: " + text)
