"""C05 - every built-in pass, alone or composed, preserves what the model computes.

Monitor: a generated checker-valid, executable model M (vfpy/gen_exec.py) is transformed by a random
sequence P of 1-4 built-in passes (all 19 exported by ``onnx_ir.passes.common``, default and varied
constructor parameters; applied one by one, or composed with ``Sequential`` / ``PassManager``).
Refuting events: P(M) cannot be serialised or ``onnx.checker`` rejects it although it accepted M;
P(M) reaches a call of a model-local function that M defined and P(M) no longer defines (it computes
nothing; decided structurally); the number/order of graph outputs or of non-initializer inputs changed; an evaluator that executed
BOTH M and P(M) on the same inputs returns different outputs at some position (exact: dtype, shape,
values, NaN == NaN).  Evaluators: ``onnx.reference.ReferenceEvaluator`` and onnxruntime without graph
optimisations.  A pass that raises produces no transformed model (counted ``pass_error:<Pass>``; the
successful prefix is judged instead).

Input classes added for code the workload did not reach (all ``extra`` gen_exec features; ``reach:*`` counters with
floors show that the code was put to work): Constant nodes in the string forms and STRING initializers (string outputs
are compared exactly, as UTF-8 bytes); functions with trailing optional inputs called with fewer inputs than declared or
with "" in the middle; functions importing a domain the model does not import; twin NON-DETERMINISTIC nodes without a
seed, observed only through ``all(a == b)`` - 0 with probability 1 (< 2**-60 otherwise) for two independent draws, 1 for
one shared draw - so that merging them is an ordinary output difference; Identity between symbolic declared shapes
(reached, but a wrong merged shape has no observable in this property); names that a pass DERIVES when it has to make a
name unique (``<base>_<k>``) already in use next to the collision that makes it derive them: same-named initializers in
sibling / nested subgraphs with ``c_1``, ``c_2``, ``c_1_1`` held by other initializers (of the same, an earlier or a later
subgraph, of the main graph, or one that is an output of its branch and cannot leave it), by node outputs or by a Loop
body input; function-internal values ``t`` / ``t_2`` of a function called several times where ``t``, ``t_2``, ``t_3`` ... are
in use (``reach:subgraph_init_lifted_next_to_derived_names``, ``reach:call_inlined_next_to_derived_names``; decided
on the protos, whatever planted them); values whose ROLE and PAYLOAD disagree in a legal way - ``const_value`` on a value that
is not a registered initializer is a hint that serialisation ignores: required main-graph inputs that carry one (built that
way, or registered as initializer and popped from ``graph.initializers`` again) next to a real initializer with the same
bytes, Loop-body and function formal inputs that carry one, node outputs with a truthful one (``reach:*_on_hinted_*``, read
from the rebuilt IR model - deserialisation drops hints); attribute values that Python calls FALSY and that are values
all the same (0, 0.0, "", empty lists; gen_exec ``fn_attr_falsy``, a fixed stratum of the case plan - ``FALSY_STRATUM`` -
whose first sequence holds an InlinePass): as the DEFAULT of a function's attribute parameter with call sites that omit
it, as the explicit value at a call site whose parameter has another default, forwarded through a wrapper function, on
plain operator nodes next to a twin without the attribute - always on operator attributes whose own default is another
value or that are required (``reach:call_relying_on_falsy_default_inlined``, ``reach:call_giving_falsy_attribute_value_inlined``,
decided on the protos).  A reachable ``Constant`` node left without any value attribute is a refuting event of its
own (``constant-without-value``; P(M) computes nothing there, the default-mode checker does not look and onnxruntime
refuses to load the model, so no evaluator could tell).  Outside the judged domain: initializers
without a tensor (the library itself calls them invalid), function parameters of GRAPH type (the inliner documents
that it refuses them), string tensors with trailing NUL bytes (both evaluators drop them when handing out strings).

Models are drawn with the ``extra`` gen_exec features (function chains forwarding attribute parameters under other
names; function-internal names reused from the call site's name space), and InlinePass is also driven with criteria
that split a call chain at different levels (leaf / non-leaf / name parity), so that kept functions receive inlined
bodies.  The reference evaluator is not asked about a P(M) in which a nested body re-declares an enclosing name
(probe: it resolves such a name to the enclosing value).

Signature of a violation: the pass sequence is shrunk (ddmin), the pass after which the clause first
holds is the culprit, and the model is regenerated with one planted gen_exec feature at a time to
find a feature that alone suffices: ``<clause>|<Pass>|<feature>`` (``<clause>|<Pass>`` for checker
clauses unless one pass on one planted feature reproduces it; 'base'/'multi' for output clauses when
no single feature suffices).
"""

from __future__ import annotations

import logging
import os
import random
import re
import warnings
import zlib
from collections import Counter

import onnx
import onnx_ir as ir
import onnx_ir.passes.common as common_passes

from vfpy import gen_exec as GE
from vfpy.ctx import stable_hash
from vfpy.shrink import ddmin

ID = "C05"
LEVEL = "exploration"
RULE = ("a case is one admitted gen_exec model (default + extra features; passes onnx.checker, executed by >=1 evaluator on 3 input sets incl. "
        "zeros/negatives/NaN/inf) x 3 (quick) / 4 (thorough) random sequences of 1-4 built-in passes with default or varied "
        "parameters, applied to a rebuilt or a deserialised copy; every sequence is one evaluation; non-trivial = the "
        "sequence reported modified=True at least once and the model has a subgraph, a function or a planted duplicate; "
        "distinct = hash of (planted features, pass sequence with parameters, copy kind)")
ASSUMPTIONS = [
    "onnx.checker.check_model (default mode) decides validity; onnx.reference.ReferenceEvaluator and onnxruntime "
    "(ORT_DISABLE_ALL, 1 thread) are deterministic: the same evaluator on an unchanged model returns identical outputs",
    "a verdict on outputs is taken only from an evaluator that executed both M and P(M) on the same input set; if one "
    "evaluator sees a difference on an input set and the other compares the same set equal the case is report-only "
    "(evaluators_split), so a silently wrong evaluator cannot raise an alarm on its own when the other one can judge",
    "the reference evaluator is not used on models with function overloads (probe: it resolves calls by (domain,name) "
    "only and silently runs the wrong body)",
    "the reference evaluator is not asked about a P(M) in which a nested body declares or defines a name that an "
    "enclosing graph uses too (probe: onnx/reference/ops/op_loop.py copies every enclosing result over the body's inputs, "
    "so a same-named formal input starts with the enclosing graph's value; onnxruntime lets the innermost declaration "
    "win, as scoping demands)",
    "inputs are fed positionally to the non-initializer graph inputs; names of inputs/outputs may change (report-only)",
    "initializer-backed graph inputs are inputs too: up to 2 extra runs per model override them by name; such a run is "
    "replayed on P(M) only if every overridden name is still an initializer-backed input with the same default there",
    "'for all inputs' is sampled by 3 input sets per model; +0.0 and -0.0 compare equal (IEEE), NaN equals NaN",
    "string outputs are compared as UTF-8 bytes element by element (an evaluator returns str, bytes or object arrays "
    "depending on whether the value came from a Constant attribute or an initializer)",
    "onnx.inliner.inline_local_functions (used only to probe an EVALUATOR's self-consistency) ignores the defaults of "
    "function attribute parameters (probe, onnx 1.22): it is handed a copy in which every call lists the defaulted "
    "parameters it relies on (proto-level rewrite by the harness), and is not used when a call omits a parameter that "
    "has no default",
    "a standard-domain Constant node must carry one of the value attributes (ONNX operator specification); a reachable "
    "one without any is judged structurally, only when M has none and no call of M omits a default-less parameter",
    "two seedless non-deterministic nodes (RandomNormal/Uniform[Like] 16 floats, Multinomial 40 draws of 3 classes, "
    "Bernoulli / training Dropout 64 elements at p=0.5) do not produce identical tensors: probability < 2**-60 per run",
]


# ---- the 19 built-in passes with default and varied constructor parameters -------------------------
class _Names:
    def generate_node_name(self, node):
        return f"{node.op_type}_n"

    def generate_value_name(self, value):
        return "val"


def _single_input(function) -> bool:
    return len(function.inputs) == 1


# partial inlining: criteria that split a call chain main -> F -> G -> H at different levels (a kept function
# then receives the inlined body of a function it calls)
def _is_leaf(function) -> bool:
    """The function calls no model-local function (anywhere in its body, nested subgraphs included)."""
    return all(_norm(n.domain) in _STANDARD_DOMAINS for n in function.all_nodes())


def _name_parity(function) -> int:
    return zlib.crc32(function.name.encode()) & 1


def _as_first_seen(predicate):
    """The predicate's verdict on a function as it was when the pass first asked about it, whatever the pass has
    done to the function's body since (one memo per pass instance)."""
    memo: dict = {}

    def criteria(function) -> bool:
        key = function.identifier()
        if key not in memo:
            memo[key] = bool(predicate(function))
        return memo[key]
    return criteria


# InlinePass variants whose criteria looks at the function BODY, which the pass itself rewrites: the verdict on a
# function may change while the pass runs.  Each has a twin that freezes the first verdict; report() re-runs a
# witness with the twin to tell "the criteria changed its mind during the pass" from any other mechanism.
STABLE_TWIN = {"criteria=leaf": "criteria=leaf,as_first_seen"}


PASS_VARIANTS: dict[str, dict[str, object]] = {
    "AddDefaultAttributesPass": {"": lambda: common_passes.AddDefaultAttributesPass()},
    "AddInitializersToInputsPass": {"": lambda: common_passes.AddInitializersToInputsPass()},
    "CheckerPass": {
        "": lambda: common_passes.CheckerPass(),
        "full": lambda: common_passes.CheckerPass(full_check=True),
        "lenient": lambda: common_passes.CheckerPass(skip_opset_compatibility_check=True, check_custom_domain=True),
    },
    "ClearMetadataAndDocStringPass": {"": lambda: common_passes.ClearMetadataAndDocStringPass()},
    "CommonSubexpressionEliminationPass": {
        "": lambda: common_passes.CommonSubexpressionEliminationPass(),
        "size_limit=0": lambda: common_passes.CommonSubexpressionEliminationPass(size_limit=0),
        "size_limit=1000": lambda: common_passes.CommonSubexpressionEliminationPass(size_limit=1000),
    },
    "DeduplicateHashedInitializersPass": {
        "": lambda: common_passes.DeduplicateHashedInitializersPass(),
        "size_limit=4": lambda: common_passes.DeduplicateHashedInitializersPass(size_limit=4),
    },
    "DeduplicateInitializersPass": {
        "": lambda: common_passes.DeduplicateInitializersPass(),
        "size_limit=4": lambda: common_passes.DeduplicateInitializersPass(size_limit=4),
        "size_limit=0": lambda: common_passes.DeduplicateInitializersPass(size_limit=0),
    },
    "IdentityEliminationPass": {"": lambda: common_passes.IdentityEliminationPass()},
    "InlinePass": {
        "": lambda: common_passes.InlinePass(),
        "criteria=small": lambda: common_passes.InlinePass(criteria=lambda f: len(f) <= 2),
        "criteria=single_input": lambda: common_passes.InlinePass(criteria=_single_input),
        "criteria=never": lambda: common_passes.InlinePass(criteria=lambda f: False),
        "criteria=leaf": lambda: common_passes.InlinePass(criteria=_is_leaf),
        "criteria=leaf,as_first_seen": lambda: common_passes.InlinePass(criteria=_as_first_seen(_is_leaf)),
        "criteria=nonleaf": lambda: common_passes.InlinePass(criteria=lambda f: not _is_leaf(f)),
        "criteria=name_parity_0": lambda: common_passes.InlinePass(criteria=lambda f: _name_parity(f) == 0),
        "criteria=name_parity_1": lambda: common_passes.InlinePass(criteria=lambda f: _name_parity(f) == 1),
    },
    "LiftConstantsToInitializersPass": {
        "": lambda: common_passes.LiftConstantsToInitializersPass(),
        "all": lambda: common_passes.LiftConstantsToInitializersPass(lift_all_constants=True),
        "all,size_limit=0": lambda: common_passes.LiftConstantsToInitializersPass(lift_all_constants=True, size_limit=0),
        "size_limit=1": lambda: common_passes.LiftConstantsToInitializersPass(size_limit=1),
        "all,size_limit=3": lambda: common_passes.LiftConstantsToInitializersPass(lift_all_constants=True, size_limit=3),
    },
    "LiftSubgraphInitializersToMainGraphPass": {"": lambda: common_passes.LiftSubgraphInitializersToMainGraphPass()},
    "NameFixPass": {
        "": lambda: common_passes.NameFixPass(),
        "custom": lambda: common_passes.NameFixPass(name_generator=_Names()),
    },
    "OutputFixPass": {"": lambda: common_passes.OutputFixPass()},
    "RemoveInitializersFromInputsPass": {"": lambda: common_passes.RemoveInitializersFromInputsPass()},
    "RemoveUnusedFunctionsPass": {"": lambda: common_passes.RemoveUnusedFunctionsPass()},
    "RemoveUnusedNodesPass": {"": lambda: common_passes.RemoveUnusedNodesPass()},
    "RemoveUnusedOpsetsPass": {
        "": lambda: common_passes.RemoveUnusedOpsetsPass(),
        "process_functions=False": lambda: common_passes.RemoveUnusedOpsetsPass(process_functions=False),
    },
    "ShapeInferencePass": {
        "": lambda: common_passes.ShapeInferencePass(),
        "lenient": lambda: common_passes.ShapeInferencePass(check_type=False, strict_mode=False, data_prop=False),
        "no_data_prop": lambda: common_passes.ShapeInferencePass(data_prop=False),
    },
    "TopologicalSortPass": {"": lambda: common_passes.TopologicalSortPass()},
}
assert sorted(PASS_VARIANTS) == sorted(common_passes.__all__), "a built-in pass is not driven by C05"
# rewriting passes are drawn twice as often as the purely cosmetic / analysing ones
_WEIGHT = {n: 1 for n in ("CheckerPass", "ClearMetadataAndDocStringPass", "TopologicalSortPass", "RemoveUnusedOpsetsPass",
                          "ShapeInferencePass", "AddDefaultAttributesPass")}
PASS_POOL = [n for n in sorted(PASS_VARIANTS) for _ in range(_WEIGHT.get(n, 2))]


def draw_sequence(rng: random.Random) -> list[list[str]]:
    n = rng.choice([1, 1, 1, 2, 2, 2, 3, 3, 4, 4])
    seq = []
    for _ in range(n):
        name = rng.choice(PASS_POOL)
        variants = sorted(PASS_VARIANTS[name])
        seq.append([name, "" if rng.random() < 0.5 else rng.choice(variants)])
    return seq


def make_pass(spec):
    return PASS_VARIANTS[spec[0]][spec[1]]()


def label(spec) -> str:
    return spec[0] + (f"({spec[1]})" if spec[1] else "")


# ---- copies of M ---------------------------------------------------------------------------------------
def fresh_copy(case: GE.Case, source: str) -> ir.Model:
    if source == "built":
        model, _ = GE.model_from_seed(case.info["seed"], case.info["size"], case.info["features"])
        return model
    proto = onnx.ModelProto()
    proto.CopyFrom(case.proto)
    return ir.from_proto(proto)


def apply_flat(case: GE.Case, source: str, specs, ctx=None):
    """Apply the passes one by one to a fresh copy of M.  Returns (model or None, applied specs,
    modified flags, error or None).  When pass k raises, the model of the successful prefix is
    rebuilt from scratch (an in-place pass that raised may have left its input half-rewritten)."""
    model = fresh_copy(case, source)
    applied, flags = [], []
    for k, spec in enumerate(specs):
        try:
            result = make_pass(spec)(model)
        except Exception as e:  # noqa: BLE001 - a raising pass yields no transformed model; counted
            if ctx is not None:
                ctx.count("pass_error:" + spec[0])
                ctx.count(f"pass_error_kind:{spec[0]}:{type(e).__name__}")
            if not applied:
                return None, [], [], e
            model, applied, flags, _ = apply_flat(case, source, specs[:k])
            return model, applied, flags, e
        if ctx is not None:
            ctx.count("pass_ok:" + spec[0])
            if result.modified:
                ctx.count("pass_modified:" + spec[0])
        model = result.model
        applied.append(spec)
        flags.append(bool(result.modified))
    return model, applied, flags, None


# ---- the oracle -----------------------------------------------------------------------------------------
def _sig_io(proto):
    req = GE.required_inputs(proto)
    return ([(i.name, i.type.tensor_type.elem_type) for i in req],
            [(o.name, o.type.tensor_type.elem_type) for o in proto.graph.output])


_STANDARD_DOMAINS = {"", "ai.onnx", "ai.onnx.ml", "ai.onnx.training", "ai.onnx.preview.training", "com.microsoft"}


def _norm(domain: str) -> str:
    return "" if domain == "ai.onnx" else domain


def _all_nodes(nodes):
    for n in nodes:
        yield n
        for a in n.attribute:
            for g in ([a.g] if a.type == onnx.AttributeProto.GRAPH else list(a.graphs)):
                yield from _all_nodes(g.node)


def dangling_calls(proto, once_defined=None) -> set[tuple[str, str, str]]:
    """Operator identifiers (domain, op_type, overload) of calls that are *reachable* from the main
    graph (through subgraphs and through the bodies of the defined functions that are called) but
    are not defined in ``proto.functions``.  Only non-standard domains count, or - with
    ``once_defined`` - exactly the identifiers in that set."""
    defined = {(_norm(f.domain), f.name, f.overload): f for f in proto.functions}
    dangling, seen = set(), set()
    work = [proto.graph.node]
    while work:
        for n in _all_nodes(work.pop()):
            ident = (_norm(n.domain), n.op_type, n.overload)
            if ident in defined:
                if ident not in seen:
                    seen.add(ident)
                    work.append(defined[ident].node)
            elif (ident in once_defined) if once_defined is not None else (ident[0] not in _STANDARD_DOMAINS):
                dangling.add(ident)
    return dangling


_CONSTANT_VALUE_FORMS = {"value", "sparse_value", "value_float", "value_floats", "value_int", "value_ints",
                         "value_string", "value_strings"}


def valueless_constants(proto) -> list[str]:
    """Outputs of the standard-domain Constant nodes, reachable from the main graph (through subgraphs and the
    bodies of the model-local functions that are called), that carry NO value attribute at all - neither a literal
    nor a reference to an attribute parameter.  ONNX: exactly one of the value forms must be given; such a node
    computes nothing (``onnx.checker`` in its default mode does not look; onnxruntime refuses to load the model)."""
    defined = {(_norm(f.domain), f.name, f.overload): f for f in proto.functions}
    found, seen = [], set()
    work = [proto.graph.node]
    while work:
        for n in _all_nodes(work.pop()):
            ident = (_norm(n.domain), n.op_type, n.overload)
            if ident in defined:
                if ident not in seen:
                    seen.add(ident)
                    work.append(defined[ident].node)
            elif ident[0] == "" and n.op_type == "Constant" and not any(a.name in _CONSTANT_VALUE_FORMS for a in n.attribute):
                found.append(n.output[0] if n.output else n.name)
    return found


def shadowed_names(proto, declared_only: bool = False) -> set[str]:
    """Names that a nested graph declares or defines (input, initializer; node output unless ``declared_only``)
    although the name is VISIBLE there: an input, an initializer or the output of an earlier node of an enclosing
    graph (of the same model graph / function body).  A later node of an enclosing graph may reuse a name local
    to an earlier sibling subgraph - the generator plants that; it never produces a hidden visible name.  A pass
    may (the checker tolerates a subgraph *input* or *initializer* that hides an outer name)."""
    found: set[str] = set()

    def declared(g) -> set[str]:
        return {i.name for i in g.input} | {t.name for t in g.initializer}

    def walk(nodes, visible: set[str]) -> None:
        visible = set(visible)
        for n in nodes:
            for a in n.attribute:
                for g in ([a.g] if a.type == onnx.AttributeProto.GRAPH else list(a.graphs)):
                    own = declared(g)
                    found.update(own & visible)
                    if not declared_only:
                        found.update({o for m in g.node for o in m.output if o} & visible)
                    walk(g.node, visible | own)
            visible.update(o for o in n.output if o)
    walk(proto.graph.node, declared(proto.graph))
    for f in proto.functions:
        walk(f.node, set(f.input))
    return found


# ---- reach monitors: did the workload put the rarely reached rewriting code to work? ----------------------------
_SUFFIX = re.compile(r"_\d+$")  # <base>_<k>: the form of the names that the passes derive from <base>


def _graph_names(graph) -> set[str]:
    """Every value name that the graph and the graphs nested in it declare or define."""
    names: set[str] = set()
    for g in _all_graphs(graph):
        names.update(i.name for i in g.input)
        names.update(t.name for t in g.initializer)
        names.update(o for n in g.node for o in n.output if o)
    return names


def _derived_bases(names) -> set[str]:
    """The bases <b> for which some name <b>_<k>[_<k>...] is among ``names`` (every prefix that ends before a _<k>)."""
    bases: set[str] = set()
    for name in names:
        while True:
            shorter = _SUFFIX.sub("", name)
            if shorter == name or not shorter:
                break
            name = shorter
            bases.add(name)
    return bases


_RANDOM_OPS = {"RandomNormal", "RandomUniform", "RandomNormalLike", "RandomUniformLike", "Multinomial", "Bernoulli"}


def _all_graphs(graph):
    yield graph
    for n in graph.node:
        for a in n.attribute:
            for g in ([a.g] if a.type == onnx.AttributeProto.GRAPH else list(a.graphs)):
                yield from _all_graphs(g)


def _falsy_literal(a) -> bool:
    """The attribute holds a literal that Python calls falsy although it is a value: 0, 0.0, "", an empty list."""
    if a.ref_attr_name:
        return False
    T = onnx.AttributeProto
    return (a.type == T.FLOAT and a.f == 0.0) or (a.type == T.INT and a.i == 0) or (a.type == T.STRING and a.s == b"") or \
        (a.type == T.INTS and not a.ints) or (a.type == T.FLOATS and not a.floats) or (a.type == T.STRINGS and not a.strings)


def falsy_call_stats(proto) -> tuple[int, int]:
    """(calls of model-local functions that OMIT an attribute parameter whose declared default is a falsy literal,
    calls that GIVE a declared attribute parameter as a falsy literal) over the main graph tree and the function
    bodies.  Decided on the proto, whatever planted the pattern."""
    defined = {(_norm(f.domain), f.name, f.overload): f for f in proto.functions}
    omitted = given = 0
    for n in list(_all_nodes(proto.graph.node)) + [n for f in proto.functions for n in _all_nodes(f.node)]:
        callee = defined.get((_norm(n.domain), n.op_type, n.overload))
        if callee is None:
            continue
        listed = {a.name: a for a in n.attribute}
        omitted += any(d.name not in listed and _falsy_literal(d) for d in callee.attribute_proto)
        params = set(callee.attribute) | {d.name for d in callee.attribute_proto}
        given += any(name in params and _falsy_literal(a) for name, a in listed.items())
    return omitted, given


def reach_stats(proto) -> dict:
    """Structural facts of a model that the reach counters compare before / after a pass sequence (never a verdict)."""
    declared = {(_norm(f.domain), f.name, f.overload): len(f.input) for f in proto.functions}
    main_nodes = list(_all_nodes(proto.graph.node))
    everywhere = main_nodes + [n for f in proto.functions for n in _all_nodes(f.node)]
    falsy_default_calls, falsy_value_calls = falsy_call_stats(proto)
    string_consts = sum(1 for n in main_nodes if n.op_type == "Constant" and n.domain in ("", "ai.onnx")
                        and any(a.name in ("value_string", "value_strings") for a in n.attribute))
    string_inits = [sum(1 for t in g.initializer if t.data_type == onnx.TensorProto.STRING) for g in _all_graphs(proto.graph)]
    absent = 0
    for n in everywhere:
        k = declared.get((_norm(n.domain), n.op_type, n.overload))
        if k is not None and (len(n.input) < k or any(i == "" for i in n.input)):
            absent += 1
    imported = {_norm(o.domain) for o in proto.opset_import}
    foreign = {_norm(o.domain) for f in proto.functions for o in f.opset_import} - imported
    symbolic = sum(1 for g in _all_graphs(proto.graph) for vi in list(g.value_info) + list(g.output)
                   if any(not d.HasField("dim_value") for d in vi.type.tensor_type.shape.dim))
    # names that a pass would derive (<base>_<k>) are in use next to the <base> it would have to rename: an initializer
    # name that several subgraphs hold; a value name inside a function that is called from the main graph tree
    main_names = _graph_names(proto.graph)
    taken_bases = _derived_bases(main_names)
    subgraphs = [g for g in _all_graphs(proto.graph)][1:]
    held = Counter(t.name for g in subgraphs for t in g.initializer)
    called = {(_norm(n.domain), n.op_type, n.overload) for n in main_nodes} & set(declared)
    fn_family = 0
    for f in proto.functions:
        if (_norm(f.domain), f.name, f.overload) in called:
            inner = {o for n in _all_nodes(f.node) for o in n.output if o}
            fn_family += bool(inner & taken_bases)
    return {
        "string_consts": string_consts, "string_inits": sum(string_inits), "string_inits_max": max(string_inits),
        "absent_calls": absent, "foreign": foreign, "imported": imported,
        "random_main": sum(1 for n in proto.graph.node if n.op_type in _RANDOM_OPS or (n.op_type == "Dropout" and len(n.input) == 3)),
        "identities": sum(1 for n in main_nodes if n.op_type == "Identity"), "symbolic": symbolic,
        "init_family": sum(1 for name, k in held.items() if k >= 2 and name in taken_bases),
        "subgraph_inits": sum(held.values()), "fn_family": fn_family,
        "local_calls_main": sum(1 for n in main_nodes if (_norm(n.domain), n.op_type, n.overload) in declared),
        "falsy_default_calls": falsy_default_calls, "falsy_value_calls": falsy_value_calls,
    }


def count_reach(ctx, case: GE.Case, proto, applied) -> None:
    before = case.__dict__.get("_c05_reach")
    if before is None:
        before = case.__dict__["_c05_reach"] = reach_stats(case.proto)
    after = reach_stats(proto)
    names = {s[0] for s in applied}
    lift_all = any(s[0] == "LiftConstantsToInitializersPass" and s[1].startswith("all") for s in applied)
    if lift_all and before["string_consts"]:
        ctx.count("reach:lift_all_on_string_constants")
        if after["string_consts"] < before["string_consts"] and after["string_inits"] > before["string_inits"]:
            ctx.count("reach:string_constant_lifted")
    if names & {"DeduplicateInitializersPass", "DeduplicateHashedInitializersPass"} and before["string_inits_max"] >= 2:
        ctx.count("reach:dedup_on_string_initializers")
        if after["string_inits"] < before["string_inits"]:
            ctx.count("reach:string_initializers_merged")
    if "InlinePass" in names and before["absent_calls"]:
        ctx.count("reach:inline_on_calls_with_absent_inputs")
        if after["absent_calls"] < before["absent_calls"]:
            ctx.count("reach:call_with_absent_input_inlined")
    if "InlinePass" in names and before["foreign"]:
        ctx.count("reach:inline_on_function_with_foreign_opset")
        if before["foreign"] & after["imported"]:
            ctx.count("reach:inline_added_opset_import")
    if "CommonSubexpressionEliminationPass" in names and after["random_main"] >= 2:
        ctx.count("reach:cse_on_random_twins")
    if "IdentityEliminationPass" in names and before["symbolic"] and after["identities"] < before["identities"]:
        ctx.count("reach:identity_eliminated_with_symbolic_dims")
    if "LiftSubgraphInitializersToMainGraphPass" in names and before["init_family"]:
        ctx.count("reach:lift_on_subgraph_init_name_family")
        if after["subgraph_inits"] < before["subgraph_inits"]:
            ctx.count("reach:subgraph_init_lifted_next_to_derived_names")
    if "InlinePass" in names and before["fn_family"]:
        ctx.count("reach:inline_on_fn_inner_name_family")
        if after["local_calls_main"] < before["local_calls_main"]:
            ctx.count("reach:call_inlined_next_to_derived_names")
    # falsy attribute values that are values: a call that relies on a falsy DEFAULT of the callee's attribute
    # parameter / that gives a parameter as a falsy literal, and the inliner instantiated such a call
    for key, what in (("falsy_default_calls", "call_relying_on_falsy_default"), ("falsy_value_calls", "call_giving_falsy_attribute_value")):
        if before[key]:
            ctx.count(f"reach:sequence_on_{what}")
            if "InlinePass" in names:
                ctx.count(f"reach:inline_on_{what}")
                if after[key] < before[key]:
                    ctx.count(f"reach:{what}_inlined")


def role_payload_stats(model: ir.Model) -> dict:
    """Values of an IR model whose ROLE and PAYLOAD disagree in a legal way (never a verdict): ``const_value`` on a
    value that is not a registered initializer is a hint that serialisation ignores.  Read from the public API."""
    stats = Counter()
    for k, graph in enumerate(model.graphs()):
        registered = {id(v) for v in graph.initializers.values()}
        for v in graph.inputs:
            if v.const_value is not None and id(v) not in registered:
                stats["hinted_main_input" if k == 0 else "hinted_subgraph_input"] += 1
        for node in graph:
            stats["hinted_node_output"] += sum(1 for o in node.outputs if o.const_value is not None)
    for function in model.functions.values():
        stats["hinted_function_input"] += sum(1 for v in function.inputs if v.const_value is not None)
        for graph in function.subgraphs():
            stats["hinted_subgraph_input"] += sum(1 for v in graph.inputs if v.const_value is not None)
        for node in function.all_nodes():
            stats["hinted_node_output"] += sum(1 for o in node.outputs if o.const_value is not None)
    return stats


# passes that decide by the ROLE of a value (initializer / graph input / constant)
_ROLE_PASSES = {"RemoveInitializersFromInputsPass", "AddInitializersToInputsPass", "DeduplicateInitializersPass",
                "DeduplicateHashedInitializersPass", "LiftSubgraphInitializersToMainGraphPass",
                "LiftConstantsToInitializersPass", "RemoveUnusedNodesPass", "IdentityEliminationPass",
                "CommonSubexpressionEliminationPass", "InlinePass"}


def count_role_payload(ctx, case: GE.Case, source: str, flat) -> None:
    """``reach:*`` counters: a pass sequence ran on a model that still carries the disagreement (the rebuilt copy;
    deserialisation drops every hint)."""
    if source != "built":
        return
    stats = case.__dict__.get("_c05_role_payload")
    if stats is None:
        stats = case.__dict__["_c05_role_payload"] = role_payload_stats(case.model)
    names = {s[0] for s in flat}
    for kind in ("hinted_main_input", "hinted_subgraph_input", "hinted_function_input", "hinted_node_output"):
        if stats[kind]:
            ctx.count(f"reach:sequence_on_{kind}")
            if names & _ROLE_PASSES:
                ctx.count(f"reach:role_deciding_pass_on_{kind}")
            if kind == "hinted_main_input" and names & {"RemoveInitializersFromInputsPass", "AddInitializersToInputsPass"}:
                ctx.count("reach:initializer_input_conversion_on_hinted_main_input")


def overrides_allowed(specs) -> bool:
    """RemoveInitializersFromInputsPass legitimately turns an optional input into a constant; what
    later passes do with that constant (merge it, expose it again under the old name) is then
    legitimate too, so a sequence containing it is judged on the default values only."""
    return all(s[0] != "RemoveInitializersFromInputsPass" for s in specs)


def evaluate(case: GE.Case, model: ir.Model, ctx=None, want: str | None = None, overrides: bool = True, applied=None):
    """All refuting events of the transformed model, as a list of (clause, message).  ``want``
    restricts the work to one clause kind (used while shrinking)."""
    def count(key, n=1):
        if ctx is not None:
            ctx.count(key, n)

    try:
        proto = ir.to_proto(model)
        proto = onnx.ModelProto.FromString(proto.SerializeToString())
    except Exception as e:  # noqa: BLE001
        return [("serialize-raises", f"P(M) cannot be serialised: {type(e).__name__}: {e}")]
    found = []
    if ctx is not None and applied is not None:
        count_reach(ctx, case, proto, applied)
    msg = GE.check(proto)
    count("checker_decided")
    if msg is not None:
        found.append(("checker-rejects:" + GE.checker_class(msg), "onnx.checker accepted M but rejects P(M): " + msg[:500]))
    # a call that the pass left without its definition: M defined the function, P(M) still reaches a call
    # of it but no longer defines it -> P(M) computes nothing (decided on the structure of the two
    # protos, not on what an evaluator says).  M itself must be free of such calls.
    defined0 = {(_norm(f.domain), f.name, f.overload) for f in case.proto.functions}
    if defined0 and not dangling_calls(case.proto, defined0):
        count("dangling_calls_decided")
        lost = dangling_calls(proto, defined0)
        if lost:
            found.append(("dangling-function-call", "P(M) still calls " + ", ".join(
                f"{d}::{n}" + (f":{o}" if o else "") for d, n, o in sorted(lost)) +
                " (reachable from the main graph) but no longer defines it; M defined it"))
    # a Constant node left without any value attribute: P(M) computes nothing there (decided on the structure of
    # the two protos).  Only for an M that is itself free of such nodes and in which no call omits an attribute
    # parameter that was declared without default (a reference to such a parameter legitimately resolves to
    # 'absent' when the call is inlined).
    judged = case.__dict__.get("_c05_constants_judged")
    if judged is None:
        judged = case.__dict__["_c05_constants_judged"] = \
            not valueless_constants(case.proto) and _with_explicit_defaults(case.proto) is not None
    if judged:
        count("valueless_constants_decided")
        hollow = valueless_constants(proto)
        if hollow:
            found.append(("constant-without-value", f"P(M) holds Constant node(s) without any value attribute (outputs "
                          f"{hollow[:4]}), reachable from the main graph; M has none: P(M) computes nothing there"))
    ins0, outs0 = _sig_io(case.proto)
    ins1, outs1 = _sig_io(proto)
    count("io_decided")
    io_broken = False
    for what, a, b in (("inputs", ins0, ins1), ("outputs", outs0, outs1)):
        if len(a) != len(b):
            found.append((f"io-changed:{what}-count", f"{len(a)} {what} before, {len(b)} after: {a} -> {b}"))
            io_broken = True
        elif any(s and t and s != t for (_, s), (_, t) in zip(a, b)):  # 0 = no declared type: nothing to compare
            found.append((f"io-changed:{what}-order", f"element types of the {what} changed position: {a} -> {b}"))
            io_broken = True
        elif [n for n, _ in a] != [n for n, _ in b]:
            if sorted(n for n, _ in a) == sorted(n for n, _ in b) and len(set(n for n, _ in a)) == len(a):
                found.append((f"io-changed:{what}-order", f"the {what} were permuted: {a} -> {b}"))
                io_broken = True
            else:
                count(f"report_only_{what}_renamed")
    if want is not None and not want.startswith("outputs-differ"):
        return found
    if (msg is not None or io_broken or any(c in ("dangling-function-call", "constant-without-value") for c, _ in found)) and want is None:
        # an invalid model has no defined outputs.  (While shrinking an outputs-differ witness the
        # comparison is still made, so that the pass that *introduced* the difference is found even
        # if the model was only made checkable again by a later pass.)
        return found
    # outputs: only evaluators that executed M *and* P(M) on the same input set have a say
    differ: dict[str, dict[int, str]] = {}
    equal: dict[str, set[int]] = {}
    # probe: the reference evaluator resolves a name that a nested body declares AND an enclosing graph defines to the
    # enclosing graph's value (onnxruntime: innermost wins, as scoping demands) - it is not asked about such a P(M)
    gated = {"ref"} if shadowed_names(proto) else set()
    for e in gated:
        if case.ran(e):
            count("evaluator_lost:" + e)
            count("evaluator_lost_reason:ref:gate:shadowed-name")
    for e in GE.EVALUATORS:
        idx = case.ran(e) if e not in gated else []
        if not idx:
            continue
        results = GE.RUNNERS[e](proto, [case.inputs[j] for j in idx])
        for j, r in zip(idx, results):
            if not r.ok:
                count("evaluator_lost:" + e)
                count("evaluator_lost_reason:" + (r.reason or "?"))
                continue
            count("compared:" + e)
            d = GE.same_outputs(case.baseline[e][j].outputs, r.outputs)
            if d is None:
                equal.setdefault(e, set()).add(j)
            else:
                differ.setdefault(e, {})[j] = d
    # the same through the initializer-backed ("optional") graph inputs: an override set is replayed on
    # P(M) only if every overridden name is still an optional input there with the same default;
    # it is applied to M and P(M) identically or not at all
    usable = [j for j, (_, m) in enumerate(case.override_sets)
              if overrides and GE.override_applicable(case.proto, proto, m)]
    count("override_sets_not_applicable", len(case.override_sets) - len(usable))
    for e in GE.EVALUATORS:
        idx = [j for j in case.ran_override(e) if j in usable and e not in gated]
        if not idx:
            continue
        results = GE.RUNNERS[e](proto, [case.inputs[case.override_sets[j][0]] for j in idx],
                                [case.override_sets[j][1] for j in idx])
        for j, r in zip(idx, results):
            if not r.ok:
                count("evaluator_lost_override:" + e)
                continue
            count("compared_override:" + e)
            d = GE.same_outputs(case.override_baseline[e][j].outputs, r.outputs)
            key = 1000 + j  # override runs are numbered after the plain input sets
            if d is None:
                equal.setdefault(e, set()).add(key)
            else:
                differ.setdefault(e, {})[key] = d + f" [optional inputs {sorted(case.override_sets[j][1])} overridden]"
    if not differ and not equal:
        count("inconclusive_no_evaluator")
        if want is not None:
            found.append(("outputs-unknown", "no evaluator could compare"))
        return found
    confirmed = []
    probed: dict[str, bool] = {}
    for e, per_input in differ.items():
        for j, d in per_input.items():
            contradicted = [o for o in GE.EVALUATORS if o != e and j in equal.get(o, set())]
            if contradicted:
                count("report_only_evaluators_split")
                if ctx is not None:
                    ctx.note(f"evaluators split: {e} sees '{d}' on input set {j}, {contradicted} compare equal; "
                             f"seed={case.info['seed']} features={case.info['planted']}")
                continue
            # a lone evaluator sees a difference: is it at least consistent with ITSELF on these two models?
            if e not in probed:
                probed[e] = _evaluator_self_consistent(e, case, proto, j)
                count(f"self_consistency_probe:{e}:" + ("consistent" if probed[e] else "inconsistent"))
            if not probed[e]:
                count("report_only_evaluator_self_inconsistent:" + e)
                if ctx is not None:
                    ctx.note(f"{e} computes different outputs for M (or P(M)) and the same model with its functions "
                             f"inlined by onnx.inliner: no verdict from it; seed={case.info['seed']} features={case.info['planted']}")
                continue
            confirmed.append(f"{e} on input set {j}: {d}")
    if confirmed:
        found.append(("outputs-differ", "P(M) computes different outputs than M - " + "; ".join(confirmed[:4])))
    return found



def _evaluator_self_consistent(e: str, case: GE.Case, proto, j: int) -> bool:
    """Metamorphic probe of an EVALUATOR (never of onnx_ir): M and P(M) are re-encoded by onnx's own function
    inliner (``onnx.inliner.inline_local_functions``, C++, independent of onnx_ir and semantics preserving) and
    the evaluator is asked again on the same inputs.  An evaluator that does not reproduce its own outputs on a
    re-encoding of the same model has no say about that model (observed: onnxruntime 1.30 miscomputes a model
    whose function is called from the main graph and from a control-flow branch, and computes the onnx-inlined
    form of the very same model correctly).  A second re-encoding routes direct input/initializer outputs
    through Identity nodes."""

    if j >= 1000:
        k = j - 1000
        inputs, over = [case.inputs[case.override_sets[k][0]]], [case.override_sets[k][1]]
        base = case.override_baseline[e][k].outputs
    else:
        inputs, over = [case.inputs[j]], None
        base = case.baseline[e][j].outputs

    def run(p):
        rs = GE.RUNNERS[e](p, inputs, over) if over is not None else GE.RUNNERS[e](p, inputs)
        return rs[0] if rs else None

    # M: the evaluator must reproduce its own baseline on every equivalent encoding of M - otherwise there is
    # no baseline to compare P(M) with.
    # P(M): an equivalent encoding of P(M) on which the evaluator returns M's outputs contradicts the
    # difference it reported; an encoding on which it returns yet other outputs does NOT rescue P(M) (a
    # transformed model that is ill-defined - e.g. refers to an attribute parameter that does not exist - is
    # typically evaluated differently by every encoding, and none of them equals M).
    for on_m, original in ((True, case.proto), (False, proto)):
        for reencode in (_reencode_inlined, _reencode_outputs_through_identity):
            try:
                other = reencode(original)
            except Exception:  # noqa: BLE001 - no re-encoding available: nothing learnt
                other = None
            if other is None:
                continue
            r1 = run(other)
            if r1 is not None and not r1.ok and "nondeterministic" in (r1.reason or ""):
                if on_m:
                    return False  # repeated runs of an equivalent encoding of M disagree with each other
                continue
            if r1 is None or not r1.ok:
                continue
            same_as_m = GE.same_outputs(base, r1.outputs) is None
            if on_m and not same_as_m:
                return False
            if not on_m and same_as_m:
                return False
    return True


def _with_explicit_defaults(model_proto):
    """The same model with every call of a model-local function made explicit: an attribute parameter that the
    callee declares WITH a default (``FunctionProto.attribute_proto``) and the call does not list is added to the
    call with that default - what the ONNX specification says the call means.  A proto-level rewrite written for the
    harness.  None when some call omits a parameter declared WITHOUT default (a reference to it inside the body then
    resolves to 'absent', which cannot be written down at the call site).
    Observed need (probe, onnx 1.22): ``onnx.inliner.inline_local_functions`` ignores ``attribute_proto`` altogether -
    a call that relies on a default is inlined with the references simply dropped - so it is semantics preserving
    only on models whose calls list every defaulted parameter."""
    out = onnx.ModelProto()
    out.CopyFrom(model_proto)
    defined = {(_norm(f.domain), f.name, f.overload): f for f in out.functions}
    for n in list(_all_nodes(out.graph.node)) + [n for f in out.functions for n in _all_nodes(f.node)]:
        callee = defined.get((_norm(n.domain), n.op_type, n.overload))
        if callee is None:
            continue
        listed = {a.name for a in n.attribute}
        if any(name not in listed for name in callee.attribute):
            return None
        for default in callee.attribute_proto:
            if default.name not in listed:
                n.attribute.add().CopyFrom(default)
    return out


def _reencode_inlined(model_proto):
    """The same model with its functions inlined by onnx's own inliner (None when it has none), after every call
    was made explicit about the defaulted attribute parameters it relies on (``_with_explicit_defaults``)."""
    import onnx.inliner

    if not model_proto.functions:
        return None
    explicit = _with_explicit_defaults(model_proto)
    if explicit is None:
        return None
    return onnx.inliner.inline_local_functions(explicit)


def _reencode_outputs_through_identity(model_proto):
    """The same model with every graph output that is directly a graph input or an initializer (or is
    listed twice) routed through a fresh Identity node - a proto-level rewrite written for the harness.
    Observed need: onnxruntime 1.30 lets a training-mode BatchNormalization update its running-statistics
    INPUT buffer in place, so an initializer that is also a graph output comes back modified."""
    import onnx

    g = model_proto.graph
    direct = {i.name for i in g.input} | {t.name for t in g.initializer}
    seen: set[str] = set()
    todo = []
    for k, o in enumerate(g.output):
        if o.name in direct or o.name in seen:
            todo.append(k)
        seen.add(o.name)
    if not todo:
        return None
    out = onnx.ModelProto()
    out.CopyFrom(model_proto)
    taken = {n for node in out.graph.node for n in node.output} | direct
    for k in todo:
        o = out.graph.output[k]
        fresh = f"{o.name}__vf_out{k}"
        while fresh in taken:
            fresh += "_"
        taken.add(fresh)
        out.graph.node.append(onnx.helper.make_node("Identity", [o.name], [fresh], name=f"vf_identity_out{k}"))
        o.name = fresh
    return out


# ---- shrinking and signature -------------------------------------------------------------------------------
def _kind(clause: str) -> str:
    """The checker reports only its first complaint, so while shrinking any rejection counts."""
    return clause.split(":")[0] if clause.startswith("checker-rejects") else clause


def _violates(case, source, specs, clause) -> str | None:
    """The clause of the same kind that the sequence violates (None if it does not)."""
    model, applied, _, _ = apply_flat(case, source, specs)
    if model is None or len(applied) != len(specs):
        return None
    for c, _ in evaluate(case, model, want="outputs-differ" if clause == "outputs-unknown" else clause,
                         overrides=overrides_allowed(specs)):
        if _kind(c) == _kind(clause):
            return c
    return None


def shrink(case: GE.Case, source: str, specs, clause: str):
    """1-minimal pass sequence for the kind of ``clause``, the culprit and the exact clause.  The
    culprit is the pass after which the clause first holds; for output differences a prefix after
    which *no evaluator could compare* cannot be certified equal, so the first pass whose prefix is
    not certified equal is named (a later pass may merely have made the difference observable)."""
    minimal = ddmin(list(specs), lambda sub: _violates(case, source, sub, clause) is not None, max_tests=60)
    culprit, exact, suspect = minimal[-1], clause, None
    for k in range(1, len(minimal) + 1):
        hit = _violates(case, source, minimal[:k], clause)
        if hit is not None:
            culprit, exact = (suspect or minimal[k - 1]), hit
            minimal = minimal[:k]
            break
        if clause.startswith("outputs-differ") and suspect is None and \
                _violates(case, source, minimal[:k], "outputs-unknown") is not None:
            suspect = minimal[k - 1]
    return minimal, culprit, exact


def _sufficient(case: GE.Case, source: str, minimal, clause: str, feats) -> bool:
    """Does the model regenerated with only ``feats`` planted show ``clause`` under ``minimal``?"""
    seed, size = case.info["seed"], case.info["size"]
    try:
        model, info = GE.model_from_seed(seed, size, feats)
    except Exception:  # noqa: BLE001 - a feature set that cannot be planted explains nothing
        return False
    small, _ = GE.admit(model, info, random.Random(f"{seed}:inputs"))
    return small is not None and _violates(small, source, minimal, clause) == clause


def attribute(case: GE.Case, source: str, minimal, clause: str, first=(), deep: bool = True):
    """Which planted feature is sufficient: regenerate the model with one planted feature at a time
    (those in ``first`` first; then together with an ambient mode), then with none, and re-run the
    minimal sequence.  Returns (detail, feature list); 'multi' plus a ddmin-minimal feature set
    (only when ``deep``) if no single feature suffices."""
    planted = list(case.info["planted"])
    order = [f for f in first if f in planted] + [f for f in planted if f not in first]
    for f in order:
        if _sufficient(case, source, minimal, clause, [f]):
            return f, [f]
    for mode in ("missing_value_info", "metadata"):  # ambient modes: a pattern may need one of them
        if mode in case.info["features"]:
            for f in order:
                if _sufficient(case, source, minimal, clause, [f, mode]):
                    return f"{f}+{mode}", [f, mode]
    if _sufficient(case, source, minimal, clause, []):
        return "base", []
    if not deep:
        return "multi", list(case.info["features"])
    feats = ddmin(list(case.info["features"]), lambda sub: _sufficient(case, source, minimal, clause, sub), max_tests=40)
    return "multi", feats


def _bn_counts(model):
    """(BatchNormalization nodes, those with training_mode=1) over the graph tree and the functions."""
    total = training = 0
    graphs = [model.graph] + list(model.functions.values())
    for g in graphs:
        for n in g.all_nodes():
            if n.op_type == "BatchNormalization" and n.domain in ("", "ai.onnx"):
                total += 1
                a = n.attributes.get("training_mode")
                if a is not None and a.value == 1:
                    training += 1
    return total, training


def _bn_inference_rewrite_observed(case: GE.Case, source: str, minimal, feats) -> bool:
    """Mechanism marker of the known BatchNormalization finding, observed on the regenerated minimal
    model: the culprit sequence turns a training-mode BatchNormalization into an inference-mode one
    (training_mode=1 nodes decrease although the BatchNormalization node itself stays)."""
    try:
        model, info = GE.model_from_seed(case.info["seed"], case.info["size"], feats)
        small, _ = GE.admit(model, info, random.Random(f"{case.info['seed']}:inputs"))
        if small is None:
            return False
        t0, tr0 = _bn_counts(fresh_copy(small, source))
        after, applied, _, _ = apply_flat(small, source, minimal)
        if after is None or len(applied) != len(minimal):
            return False
        t1, tr1 = _bn_counts(after)
    except Exception:  # noqa: BLE001 - the marker is only ever used to name a mechanism more precisely
        return False
    return tr1 < tr0 and (tr0 - tr1) > (t0 - t1)


FORMAL_REUSE = "fn_subgraph_formal_name_reuse"
RETURNED_FAMILY = "subgraph_init_returned_name_family"
# (culprit pass, planted feature): patterns that often need company to become visible at an output (another feature
# decides which branch the inputs select) and whose mechanism leaves a structural trace - a nested body that declares
# a name an enclosing graph uses - which is looked for on the regenerated minimal model
HIDING_DECLARATION = {"InlinePass": FORMAL_REUSE, "LiftSubgraphInitializersToMainGraphPass": RETURNED_FAMILY}


def _nested_declaration_hides_outer_observed(case: GE.Case, source: str, minimal, feats) -> bool:
    """Mechanism marker, observed on the regenerated minimal model: the culprit sequence leaves a nested body that
    DECLARES (formal input / initializer) a name an enclosing graph uses, and M had no such name."""
    try:
        model, info = GE.model_from_seed(case.info["seed"], case.info["size"], feats)
        small, _ = GE.admit(model, info, random.Random(f"{case.info['seed']}:inputs"))
        if small is None or shadowed_names(small.proto, declared_only=True):
            return False
        after, applied, _, _ = apply_flat(small, source, minimal)
        if after is None or len(applied) != len(minimal):
            return False
        return bool(shadowed_names(ir.to_proto(after), declared_only=True))
    except Exception:  # noqa: BLE001 - the marker is only ever used to name a mechanism more precisely
        return False


def report(ctx, case: GE.Case, source: str, specs, clause: str, message: str) -> None:
    """Shrink the sequence, find the pass that first breaks the clause and name the mechanism:
    ``clause|pass|planted feature that alone suffices``.  For serialisation/checker clauses (the
    checker's message class is part of the clause) the last part is dropped when no single feature
    suffices; for output and signature differences it is then 'base' or 'multi'."""
    memo = ctx.__dict__.setdefault("_c05_memo", {})
    minimal, culprit, clause = shrink(case, source, specs, clause)
    seen = memo.setdefault((clause, culprit[0]), [])
    needs_detail = clause.startswith(("outputs-differ", "io-changed"))
    twin = [[s[0], STABLE_TWIN.get(s[1], s[1])] if s[0] == "InlinePass" else s for s in minimal]
    if culprit[0] == "InlinePass" and twin != minimal and _violates(case, source, twin, clause) is None:
        # the same sequence with the first verdict of the criteria frozen does not violate the clause
        detail, feats, needs_detail = "criteria-verdict-changes-during-pass", list(case.info["features"]), True
    else:
        detail, feats = attribute(case, source, minimal, clause, first=seen, deep=needs_detail)
    hiding = HIDING_DECLARATION.get(culprit[0])
    if needs_detail and hiding is not None and hiding in feats and detail != hiding and \
            (detail == "multi" or detail.startswith(hiding + "+")) and \
            _nested_declaration_hides_outer_observed(case, source, minimal, feats):
        # the planted pattern needs company to become visible at an output (or an ambient mode was planted with it):
        # the hiding declaration in an inlined body / next to a lifted initializer is observed, the mechanism is that
        # of the feature alone
        detail = hiding
    if detail == "multi" and needs_detail:
        # no single planted feature suffices: name the 1-minimal feature set; when that set needs the
        # training-mode BatchNormalization and the inference-mode rewrite is observed on it, the other
        # features only make the difference visible at an output - the mechanism is 'bn_training'
        if "bn_training" in feats and _bn_inference_rewrite_observed(case, source, minimal, feats):
            detail = "bn_training"
        else:
            detail = "multi:" + "+".join(sorted(feats))
    if detail not in seen:
        seen.append(detail)
    # checker clauses: the feature is named only when one pass on one planted feature reproduces it
    single = detail in GE.ALL_FEATURES and len(minimal) == 1
    signature = f"{clause}|{culprit[0]}" + (f"|{detail}" if needs_detail or single else "")
    replay = {
        "seed": case.info["seed"], "size": case.info["size"], "features": feats, "source": source,
        "seq": minimal, "clause": clause, "signature": signature,
        "original": {"features": case.info["features"], "seq": list(specs)},
    }
    text = (f"{message}\n minimal pass sequence: {[label(s) for s in minimal]} (first broken by {label(culprit)}); "
            f"sufficient planted features: {feats} (model seed {case.info['seed']}, size {case.info['size']}, "
            f"copy={source}); original sequence {[label(s) for s in specs]} on features {case.info['planted']}")
    ctx.violation(signature, text, replay)


# ---- driver -------------------------------------------------------------------------------------------------
def plan(tier: str) -> dict:
    quick = tier == "quick"
    # ~75 ms CPU per case (model + 3 sequences) on an idle core; on a loaded machine the shards stop at
    # budget_s, so the floors are what a run at ~1/8 of the idle throughput still reaches
    floors = {"pass_ok:" + n: (25 if quick else 250) for n in PASS_VARIANTS}
    floors.update({"compared:ref": 600 if quick else 8000, "compared:ort": 800 if quick else 10000,
                   "checker_decided": 500 if quick else 6000, "models_admitted": 150 if quick else 2000})
    # the rarely reached rewriting code must have been put to work (observed on quick, ~2000 models: 43 / 257 / 120 /
    # 97 / 120 / 100): string constants lifted, string initializers merged, calls with omitted / "" inputs inlined,
    # an opset import added by the inliner, CSE run over twin non-deterministic nodes, Identity between symbolic shapes
    for key, floor in (("reach:string_constant_lifted", 3), ("reach:string_initializers_merged", 15),
                       ("reach:call_with_absent_input_inlined", 8), ("reach:inline_added_opset_import", 6),
                       ("reach:cse_on_random_twins", 8), ("reach:identity_eliminated_with_symbolic_dims", 6),
                       # names derived by a pass already in use (observed on a loaded machine, 723 models: 48 / 21)
                       ("reach:subgraph_init_lifted_next_to_derived_names", 6), ("reach:call_inlined_next_to_derived_names", 4),
                       # role / payload disagreement (const_value hints on non-initializers) met by the passes that decide by
                       # role (observed on a heavily loaded machine, 332 models: 23 / 67 / 24 / 16 / 31)
                       ("reach:initializer_input_conversion_on_hinted_main_input", 4),
                       ("reach:role_deciding_pass_on_hinted_main_input", 12), ("reach:role_deciding_pass_on_hinted_subgraph_input", 4),
                       ("reach:role_deciding_pass_on_hinted_function_input", 3), ("reach:role_deciding_pass_on_hinted_node_output", 5),
                       # falsy attribute values (fixed stratum, see FALSY_STRATUM): calls that rely on a falsy default of an
                       # attribute parameter / give a falsy literal were instantiated by the inliner
                       ("reach:call_relying_on_falsy_default_inlined", 10), ("reach:call_giving_falsy_attribute_value_inlined", 10),
                       ("reach:sequence_on_call_relying_on_falsy_default", 40)):
        floors[key] = floor if quick else 10 * floor
    return {
        "cases": 8000 if quick else 110000,
        "shards": 16,
        "budget_s": 38 if quick else 470,
        "floors": floors,
        "min_nontrivial": 200 if quick else 2500,
        "params": {"sequences": 3 if quick else 4},
    }


# fixed stratum of the case plan: every FALSY_STRATUM[0]-th case plants ``fn_attr_falsy`` on top of the drawn
# features and its first sequence holds an InlinePass (a drawn variant), so that the reach floors for falsy attribute
# values do not depend on chance
FALSY_STRATUM = (8, 5)
FALSY_FEATURE = "fn_attr_falsy"


def run_sequence(ctx, case: GE.Case, rng: random.Random, number: int, with_inline: bool = False) -> None:
    specs = draw_sequence(rng)
    if with_inline and all(s[0] != "InlinePass" for s in specs):
        variants = [v for v in sorted(PASS_VARIANTS["InlinePass"]) if v != "criteria=never"]
        spec = ["InlinePass", "" if rng.random() < 0.5 else rng.choice(variants)]
        if len(specs) >= 4:
            specs[rng.randrange(len(specs))] = spec
        else:
            specs.insert(rng.randrange(len(specs) + 1), spec)
    source = rng.choice(["built", "deserialized"])
    mode = rng.choice(["single", "single", "single", "sequential", "manager"])
    ctx.count("mode:" + mode)
    ctx.count("copy:" + source)
    flat = list(specs)
    if mode == "single":
        model, applied, flags, error = apply_flat(case, source, specs, ctx)
        flat = applied
    else:
        passes = [make_pass(s) for s in specs]
        steps = 2 if mode == "manager" else 1
        composite = ir.passes.Sequential(*passes) if mode == "sequential" else \
            ir.passes.PassManager(passes, steps=steps, early_stop=False)
        model = fresh_copy(case, source)
        try:
            result = composite(model)
        except Exception as e:  # noqa: BLE001 - which pass raised is found by the one-by-one application
            ctx.count("composite_error:" + type(e).__name__)
            model, applied, flags, error = apply_flat(case, source, specs, ctx)
            flat = applied
        else:
            ctx.count("composite_ok")
            for s in specs:
                ctx.count("pass_ok:" + s[0], steps)
            model, flags, flat = result.model, [bool(result.modified)], list(specs) * steps
    if model is None or not flat:
        ctx.count("sequences_without_transformed_model")
        return
    count_role_payload(ctx, case, source, flat)
    found = evaluate(case, model, ctx, overrides=overrides_allowed(flat), applied=flat)
    info = case.info
    nontrivial = any(flags) and (info["has_subgraph"] or info["has_function"] or info["has_planted_duplicate"])
    ctx.evaluation(key=stable_hash([info["planted"], flat, source]), nontrivial=nontrivial)
    ctx.count("sequences_judged")
    ctx.count(f"sequence_length:{len(flat)}")
    if any(flags):
        ctx.count("sequences_modified")
    if number == 0 and len(ctx.samples) < ctx.MAX_SAMPLES:
        ctx.sample({"model_seed": info["seed"], "features": info["planted"], "opset": info["opset"],
                    "nodes_main": info["n_nodes_main"], "subgraphs": info["n_subgraphs"], "functions": info["n_functions"],
                    "sequence": [label(s) for s in flat], "modified": flags, "copy": source, "mode": mode,
                    "evaluators_that_ran_M": {e: len(case.ran(e)) for e in GE.EVALUATORS},
                    "refuting_events": [c for c, _ in found]})
    for clause, message in found:
        ctx.count("raw:" + clause.split(":")[0])
        report(ctx, case, source, flat, clause, message)


def _quiet() -> None:
    """The passes log a warning per skipped initializer etc.; the shard's stderr is a pipe that is
    only read at the end, so a chatty shard would block on it."""
    logging.getLogger("onnx_ir").setLevel(logging.CRITICAL)
    logging.disable(logging.WARNING)
    warnings.simplefilter("ignore")


def run(ctx) -> None:
    _quiet()
    # native libraries (onnxruntime, onnx) may also write; results travel through the shard's JSON file
    devnull = os.open(os.devnull, os.O_WRONLY)
    for fd in (1, 2):
        try:
            os.dup2(devnull, fd)
        except OSError:
            pass
    rejected: Counter = Counter()
    n_seq = int(ctx.params.get("sequences", 3))
    for case_id in ctx.case_ids():
        rng = ctx.rng(case_id)
        stratum = case_id % FALSY_STRATUM[0] == FALSY_STRATUM[1]
        features = None
        if stratum:
            features = sorted(GE.choose_features(random.Random(rng.getrandbits(48)), extra=True) | {FALSY_FEATURE})
            ctx.count("stratum:falsy_attribute_values")
        case = GE.gen_checked(rng, size=rng.choice([3, 6, 10, 14]), features=features, rejected=rejected, extra=True)
        if case is None:
            ctx.count("generator_gave_up")
            continue
        ctx.count("models_admitted")
        info = case.info
        for f in info["planted"]:
            ctx.count("feature:" + f)
        for e in GE.EVALUATORS:
            ctx.count(f"baseline_ran:{e}", len(case.ran(e)))
            for r in case.baseline[e]:
                if not r.ok:
                    ctx.count("baseline_cannot_run:" + (r.reason or "?"))
        if case.ran("ref") and case.ran("ort"):
            ctx.count("models_run_by_both_evaluators")
        ctx.count("models_with_subgraph", int(info["has_subgraph"]))
        ctx.count("models_with_function", int(info["has_function"]))
        ctx.count("models_with_planted_duplicate", int(info["has_planted_duplicate"]))
        for number in range(n_seq):
            run_sequence(ctx, case, rng, number, with_inline=stratum and number == 0)
            if ctx.out_of_time():
                break
    for k, v in rejected.items():
        ctx.count(k, v)


def replay(replay_data, ctx) -> None:
    _quiet()
    model, info = GE.model_from_seed(replay_data["seed"], replay_data["size"], replay_data["features"])
    case, reason = GE.admit(model, info, random.Random(f"{replay_data['seed']}:inputs"))
    if case is None:
        ctx.note("replay: the witness model is no longer admitted: " + reason)
        return
    specs = [list(s) for s in replay_data["seq"]]
    model, applied, _, error = apply_flat(case, replay_data["source"], specs)
    if model is None or len(applied) != len(specs):
        ctx.note(f"replay: a pass of the witness sequence now raises: {error!r}")
        return
    for clause, message in evaluate(case, model, want=replay_data["clause"], overrides=overrides_allowed(specs)):
        if clause == replay_data["clause"]:
            ctx.violation(replay_data["signature"], message + f"\n sequence {[label(s) for s in specs]} on model seed "
                          f"{replay_data['seed']} size {replay_data['size']} features {replay_data['features']}", replay_data)


