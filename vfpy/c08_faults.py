"""Fault machinery of the C08 check (interrupted external-data saves).

Everything here works from *outside* the code under test:

* ``LineMonitor`` - ``sys.monitoring`` LINE events restricted to the code objects of chosen
  modules: counts them (recording run) or calls ``os._exit`` at the n-th one (process death).
* ``Plan`` - counted fault positions.  Every wrapper calls ``plan.hit(site)``; the plan numbers
  the calls per site and tells the wrapper what to do at the k-th one (raise / write half then
  raise / die / write half then die).
* ``patched(plan, ...)`` - puts counting wrappers on the attributes the save resolves at call
  time.  Fault sites are the *effects the property names*, whichever stdlib function implements
  them (``EFFECTS``): temp creation (``tempfile.mkdtemp`` / ``mkstemp``), mode copy
  (``shutil.copymode`` / ``copystat``, ``os.chmod`` / ``fchmod`` / ``lchmod``), rename (``os.replace`` /
  ``rename`` / ``renames``, ``shutil.move``), cleanup (``os.remove`` / ``unlink``; ``os.rmdir``) - plus
  ``os.copy_file_range``.  A call is one effect of the save when it is made by ``onnx_ir`` code
  directly or through ``shutil`` / ``tempfile`` / ``pathlib`` on its behalf, and it is the outermost
  wrapped call of its thread (``shutil.copymode`` calling ``os.chmod`` is ONE mode copy; the
  ``os.unlink`` / ``os.rmdir`` calls inside a ``shutil.rmtree`` of the library are cleanup effects).
  ``open`` as seen from ``onnx_ir.external_data`` (destination side, returns a wrapping file object) and
  from ``onnx_ir._core`` (source side of ``ExternalTensor``).
* descriptor exhaustion - action ``exhaust`` at any counted call (or at a LINE event): from that
  point until the save ends the process cannot obtain another file descriptor.  Enforced by the
  kernel (``RLIMIT_NOFILE`` soft limit 0), so EVERY descriptor-consuming call fails with EMFILE
  whatever Python function makes it (``open``, ``os.open``, ``os.scandir`` / ``listdir``, ``mmap``,
  ``shutil.rmtree`` ...) while path-based calls (``mkdir``, ``rename``, ``unlink``, ``rmdir``, ``chmod``)
  keep working - cleanup code that itself needs a descriptor is thereby exercised.
* ``DataFile`` / ``DataFileFd`` - the wrapping file object for the data file being produced.
  ``DataFileFd`` exposes ``fileno`` (numpy ``tofile`` and ``copy_file_range`` go to the
  descriptor directly); ``DataFile`` hides it so that every byte passes through ``write``.
* ``DeviceRaw`` - the raw (unbuffered) layer *below* CPython's own ``io.BufferedWriter`` /
  ``io.BufferedRandom`` of the data file being produced.  Its ``write`` is the fault position
  ``raw.write`` = "the device stops accepting bytes at the k-th write(2) and stays that way"
  (ENOSPC / EFBIG / EIO / EDQUOT).  ``write()`` on the buffered object then still succeeds whenever
  the bytes fit the buffer; the error surfaces wherever the real buffered layer flushes - the next
  ``seek`` / ``tell`` / ``flush`` / ``truncate`` / ``close`` - and the buffered bytes never reach the
  file, exactly as with a full disk.
* ``ProbeTensorToFile`` / ``ProbeTensorBytes`` - independent ``TensorProtocol`` implementations
  whose ``tofile`` / ``tobytes`` / ``numpy`` are fault positions.
"""

from __future__ import annotations

import builtins
import contextlib
import errno as _errno
import io
import itertools
import os
import resource
import shutil
import sys
import tempfile
import threading
import types
from collections import Counter
from typing import Any

EXIT_DIED = 77  # exit status of a child that reached its death position

_REAL = {
    "copy_file_range": getattr(os, "copy_file_range", None),
    "open": builtins.open,
}

# effect class (= fault site) -> the (module, attribute) pairs that implement it.  The site ids are
# historical (``copymode`` = mode copy, ``replace`` = rename, ``mkdtemp`` = temp creation).
EFFECTS: dict[str, list[tuple[Any, str]]] = {
    "mkdtemp": [(tempfile, "mkdtemp"), (tempfile, "mkstemp")],
    "copymode": [(shutil, "copymode"), (shutil, "copystat"), (os, "chmod"), (os, "fchmod"), (os, "lchmod")],
    "replace": [(os, "replace"), (os, "rename"), (os, "renames"), (shutil, "move")],
    "remove": [(os, "remove"), (os, "unlink")],
    "rmdir": [(os, "rmdir")],
}
_REAL_EFFECTS = {
    (mod.__name__, attr): getattr(mod, attr)
    for pairs in EFFECTS.values() for mod, attr in pairs if hasattr(mod, attr)
}

# sites whose failure is a failure of *cleanup* (judged on destination bytes only)
CLEANUP_SITES = ("remove", "rmdir")

# stdlib modules that make file-system calls on behalf of their caller
_ON_BEHALF = frozenset({"shutil", "tempfile", "pathlib", "contextlib", "os", "posixpath", "genericpath"})

_TLS = threading.local()
_NOFILE = resource.getrlimit(resource.RLIMIT_NOFILE)


class InjectedOSError(OSError):
    """OSError raised by a fault position (a subclass so logs can tell it apart; the code under
    test sees an ordinary OSError with a real errno)."""


class InjectedError(RuntimeError):
    pass


class InjectedInterrupt(KeyboardInterrupt):
    pass


_INJECTED_CLASSES: dict[type, type] = {}


def _injected_oserror_class(code: int) -> type:
    """The class the interpreter itself raises for this errno (``PermissionError`` for EACCES / EPERM,
    ``FileExistsError`` for EEXIST, ... plain ``OSError`` otherwise), so that code under test which
    catches a *specific* subclass (``except PermissionError``) sees the injected failure exactly as it
    would see the real one."""
    real = type(OSError(code, "x"))
    if real is OSError:
        return InjectedOSError
    cls = _INJECTED_CLASSES.get(real)
    if cls is None:
        cls = _INJECTED_CLASSES[real] = type("Injected" + real.__name__, (real,), {})
    return cls


def make_exc(spec: list) -> BaseException:
    kind = spec[0]
    if kind == "OSError":
        code = getattr(_errno, spec[1])
        return _injected_oserror_class(code)(code, os.strerror(code) + " [injected]")
    if kind == "RuntimeError":
        return InjectedError("injected failure")
    if kind == "MemoryError":
        return MemoryError("injected")
    if kind == "KeyboardInterrupt":
        return InjectedInterrupt()
    raise ValueError(f"unknown exception spec {spec!r}")


class Plan:
    """Numbered fault positions.  ``faults`` maps ``(site, k)`` to an action
    ``[how, excspec]`` with how in raise | raise_after_half | die | die_after_half | exhaust |
    raise_always (this call and every later call of the site fail alike)."""

    def __init__(self, faults: list | None = None) -> None:
        self.faults: dict[tuple[str, int], list] = {}
        for site, k, action in faults or []:
            self.faults[(site, int(k))] = list(action)
        self.counts: Counter[str] = Counter()
        self.log: list[tuple[str, int]] = []      # every hit, in order
        self.fired: list[tuple[str, int, str, bool]] = []  # (site, k, how, before_first_replace)
        self.replaced = 0                          # number of os.replace calls that returned
        self.lock = threading.Lock()
        self.counts_at_fire: list[dict[str, int]] = []   # per fired fault: calls counted so far, by site
        self.on_fire = None                        # optional hook (recording runs under a first fault)
        # set by the first fired ``raw.write`` fault: the exception spec every later write(2) on a data
        # file being produced fails with (a full disk stays full)
        self.device_failed: list | None = None
        self.raw_refused = 0                       # write(2) calls refused after the device failed
        self.exhausted = False                     # descriptor exhaustion in force (until ``restore``)
        self.reached: Counter[str] = Counter()     # "<site> via <module.function>": which call implemented the effect
        # persistent faults (how == "raise_always"): from the k-th call on EVERY call of that site fails the
        # same way (an immutable / locked destination, a directory without write permission: retrying
        # does not help).  site -> exception spec, and how many calls were refused per site.
        self.sticky: dict[str, list] = {}
        self.sticky_refused: Counter[str] = Counter()

    def hit(self, site: str) -> list | None:
        with self.lock:
            self.counts[site] += 1
            k = self.counts[site]
            self.log.append((site, k))
            action = self.faults.get((site, k))
            if action is None and site in self.sticky:
                self.sticky_refused[site] += 1
                return ["raise", self.sticky[site]]
            if action is not None:
                if action[0] == "raise_always":
                    self.sticky[site] = action[1]
                    self.sticky_refused[site] += 1
                self.fired.append((site, k, action[0], self.replaced == 0))
                self.counts_at_fire.append(dict(self.counts))
                if self.on_fire is not None:
                    self.on_fire()
                if action[0] == "exhaust":
                    # not a failure of THIS call by decree: the call goes on and fails (or not) for real
                    self._exhaust()
                    return None
            return action

    # -- descriptor exhaustion -------------------------------------------------------------------
    def line_exhaust(self) -> int | None:
        """LINE-event index at which descriptors run out (fault ``["line", n, ["exhaust", None]]``)."""
        return next((k for (site, k), a in self.faults.items() if site == "line" and a[0] == "exhaust"), None)

    def exhaust_at_line(self) -> None:
        with self.lock:
            self.fired.append(("line", self.line_exhaust() or 0, "exhaust", self.replaced == 0))
            self.counts_at_fire.append(dict(self.counts))
            self._exhaust()

    def _exhaust(self) -> None:
        if not self.exhausted:
            self.exhausted = True
            resource.setrlimit(resource.RLIMIT_NOFILE, (0, _NOFILE[1]))

    def restore(self) -> None:
        if self.exhausted:
            self.exhausted = False
            resource.setrlimit(resource.RLIMIT_NOFILE, _NOFILE)

    def note_replaced(self) -> None:
        with self.lock:
            self.replaced += 1
            self.log.append(("replace-done", self.replaced))

    def to_json(self) -> list:
        return [[s, k, a] for (s, k), a in sorted(self.faults.items())]


def _die() -> None:
    os._exit(EXIT_DIED)


def _apply_simple(action: list | None) -> None:
    """For sites without a partial effect: raise or die before the real call."""
    if action is None:
        return
    how = action[0]
    if how in ("die", "die_after_half"):
        _die()
    raise make_exc(action[1])


# ---------------------------------------------------------------------------------------------
# file object wrappers
# ---------------------------------------------------------------------------------------------
class DataFile:
    """Wraps the real (buffered) file object of the data file being produced.  No ``fileno``:
    every byte written by the library passes through ``write``."""

    def __init__(self, real, plan: Plan) -> None:
        self._real = real
        self._plan = plan

    # context manager -----------------------------------------------------------------------
    def __enter__(self):
        return self

    def __exit__(self, *exc):
        self.close()
        return False

    # counted operations --------------------------------------------------------------------
    def seek(self, *args):
        _apply_simple(self._plan.hit("file.seek"))
        return self._real.seek(*args)

    def truncate(self, *args):
        _apply_simple(self._plan.hit("file.truncate"))
        return self._real.truncate(*args)

    def flush(self):
        _apply_simple(self._plan.hit("file.flush"))
        return self._real.flush()

    def tell(self):
        return self._real.tell()

    def write(self, data):
        action = self._plan.hit("file.write")
        if action is not None:
            how = action[0]
            if how in ("raise_after_half", "die_after_half"):
                view = memoryview(data).cast("B")
                self._real.write(view[: len(view) // 2])
                self._real.flush()
            if how.startswith("die"):
                _die()
            raise make_exc(action[1])
        return self._real.write(data)

    def close(self):
        if self._real.closed:
            return None
        action = self._plan.hit("file.close")
        if action is not None:
            if action[0].startswith("die"):
                _die()
            # a failing close still releases the descriptor (as io does), then reports
            try:
                self._real.close()
            finally:
                raise make_exc(action[1])
        return self._real.close()

    @property
    def closed(self):
        return self._real.closed

    def writable(self):
        return True

    def seekable(self):
        return True

    def readable(self):
        return self._real.readable()

    def read(self, *args):
        return self._real.read(*args)


class DeviceRaw(io.RawIOBase):
    """The unbuffered layer of the data file being produced: delegates to a real ``io.FileIO`` and is
    wrapped by a real ``io.BufferedWriter`` / ``io.BufferedRandom``, so *where* a refused write(2)
    is reported (the write itself when the buffer overflows, otherwise the next seek / tell / flush /
    truncate / close) and what happens to the buffered bytes (lost) is decided by CPython's io
    module, not by the harness.

    Fault position ``raw.write`` (k-th write(2) over all data-file objects of the save):
    ``raise`` - refused, and so is every later one (``plan.device_failed``);
    ``raise_after_half`` - a short write of half of the bytes, every later write(2) refused;
    ``die_after_half`` - half of the bytes, then the process dies."""

    def __init__(self, fileio, plan: Plan) -> None:
        super().__init__()
        self._f = fileio
        self._plan = plan

    @property
    def name(self):
        return self._f.name

    @property
    def mode(self):
        return self._f.mode

    def readable(self):
        return self._f.readable()

    def writable(self):
        return self._f.writable()

    def seekable(self):
        return self._f.seekable()

    def fileno(self):
        return self._f.fileno()

    def isatty(self):
        return False

    def seek(self, pos, whence=0):
        return self._f.seek(pos, whence)

    def tell(self):
        return self._f.tell()

    def truncate(self, size=None):
        return self._f.truncate(size)

    def readinto(self, b):
        return self._f.readinto(b)

    def write(self, b):
        plan = self._plan
        with plan.lock:
            failed = plan.device_failed
            if failed is not None:
                plan.raw_refused += 1
        if failed is not None:
            raise make_exc(failed)
        action = plan.hit("raw.write")
        if action is not None:
            how = action[0]
            view = memoryview(b).cast("B")
            if how in ("raise_after_half", "die_after_half") and len(view) > 1:
                done = self._f.write(view[: len(view) // 2])
                if how.startswith("die"):
                    _die()
                with plan.lock:
                    plan.device_failed = list(action[1])
                return done
            if how.startswith("die"):
                _die()
            with plan.lock:
                plan.device_failed = list(action[1])
            raise make_exc(action[1])
        return self._f.write(b)

    def close(self):
        if self.closed:
            return
        try:
            super().close()
        finally:
            self._f.close()


def open_data_file(real_open, plan: Plan, file, mode: str):
    """``open(file, mode)`` for a binary write mode, with ``DeviceRaw`` between CPython's buffered
    object and the descriptor."""
    fileio = real_open(file, mode, buffering=0)
    raw = DeviceRaw(fileio, plan)
    if raw.readable():
        return io.BufferedRandom(raw)
    return io.BufferedWriter(raw)


class DataFileFd(DataFile):
    """Same, but with ``fileno``: numpy ``ndarray.tofile`` and ``os.copy_file_range`` then write
    through the descriptor and bypass ``write``."""

    def fileno(self):
        return self._real.fileno()


# ---------------------------------------------------------------------------------------------
# module attribute wrappers
# ---------------------------------------------------------------------------------------------
def _caller_is_onnx_ir(depth: int = 2) -> bool:
    try:
        name = sys._getframe(depth).f_globals.get("__name__", "")
    except ValueError:
        return False
    return name == "onnx_ir" or name.startswith("onnx_ir.")


def _on_behalf_of_onnx_ir(depth: int = 2) -> bool:
    """The call is made by onnx_ir code, directly or through shutil / tempfile / pathlib frames."""
    try:
        frame = sys._getframe(depth)
    except ValueError:
        return False
    for _ in range(16):
        if frame is None:
            return False
        name = frame.f_globals.get("__name__", "")
        if name == "onnx_ir" or name.startswith("onnx_ir."):
            return True
        if name.split(".")[0] not in _ON_BEHALF:
            return False
        frame = frame.f_back
    return False


def _is_data_write_mode(mode: str) -> bool:
    return "b" in mode and ("w" in mode or "+" in mode or "a" in mode or "x" in mode)


@contextlib.contextmanager
def patched(plan: Plan, *, opaque: bool, external_data_module, core_module):
    """Install the counting wrappers for the duration of one save."""
    real = _REAL

    def effect(site: str, label: str, realfn):
        """One file-system effect of the save, whichever function implements it: counted / failed when
        made by (or on behalf of) onnx_ir code and not nested inside another counted effect."""

        def wrapper(*a, **kw):
            if getattr(_TLS, "depth", 0) or not _on_behalf_of_onnx_ir():
                return realfn(*a, **kw)
            _TLS.depth = 1
            try:
                with plan.lock:
                    plan.reached[f"{site} via {label}"] += 1
                _apply_simple(plan.hit(site))
                result = realfn(*a, **kw)
            finally:
                _TLS.depth = 0
            if site == "replace":
                plan.note_replaced()
            return result

        wrapper.__name__ = getattr(realfn, "__name__", label)
        wrapper.__wrapped__ = realfn
        return wrapper

    pending_cfr: list = []

    def copy_file_range(src, dst, count, offset_src=None, offset_dst=None):
        if not _caller_is_onnx_ir():
            return real["copy_file_range"](src, dst, count, offset_src, offset_dst)
        action = plan.hit("copy_file_range")
        if pending_cfr:
            raise make_exc(pending_cfr.pop())
        if action is not None:
            how = action[0]
            if how in ("raise_after_half", "die_after_half") and count > 1:
                done = real["copy_file_range"](src, dst, count // 2, offset_src, offset_dst)
                if how.startswith("die"):
                    _die()
                # a short copy now, the error on the next call (how ENOSPC really arrives)
                pending_cfr.append(action[1])
                return done
            if how.startswith("die"):
                _die()
            raise make_exc(action[1])
        return real["copy_file_range"](src, dst, count, offset_src, offset_dst)

    def ext_open(file, mode="r", *a, **kw):
        action = plan.hit("open")
        _apply_simple(action)
        if _is_data_write_mode(mode):
            if a or kw:
                # options the harness does not model below the buffer: no raw.write positions (the
                # floor on exc_fired|raw.write then makes the run inconclusive, never 'held')
                f = real["open"](file, mode, *a, **kw)
            else:
                f = open_data_file(real["open"], plan, file, mode)
            return (DataFile if opaque else DataFileFd)(f, plan)
        return real["open"](file, mode, *a, **kw)

    def core_open(file, mode="r", *a, **kw):
        _apply_simple(plan.hit("core.open"))
        return real["open"](file, mode, *a, **kw)

    saved: list[tuple[Any, str, Any, bool]] = []

    def put(obj, name, value):
        had = name in vars(obj)
        saved.append((obj, name, vars(obj).get(name), had))
        setattr(obj, name, value)

    try:
        for site, pairs in EFFECTS.items():
            for mod, attr in pairs:
                realfn = _REAL_EFFECTS.get((mod.__name__, attr))
                if realfn is not None:
                    put(mod, attr, effect(site, f"{mod.__name__}.{attr}", realfn))
        if real["copy_file_range"] is not None:
            put(os, "copy_file_range", copy_file_range)
        put(external_data_module, "open", ext_open)
        put(core_module, "open", core_open)
        yield
    finally:
        plan.restore()      # descriptors are available again before the harness looks at anything
        for obj, name, old, had in reversed(saved):
            if had:
                setattr(obj, name, old)
            else:
                delattr(obj, name)


# ---------------------------------------------------------------------------------------------
# LINE-event monitor
# ---------------------------------------------------------------------------------------------
def _code_objects_of(module) -> list[types.CodeType]:
    filename = getattr(module, "__file__", None)
    seen: dict[int, types.CodeType] = {}

    def walk(code: types.CodeType) -> None:
        if id(code) in seen or code.co_filename != filename:
            return
        seen[id(code)] = code
        for const in code.co_consts:
            if isinstance(const, types.CodeType):
                walk(const)

    def visit(obj, depth=0) -> None:
        if isinstance(obj, (staticmethod, classmethod)):
            obj = obj.__func__
        if isinstance(obj, property):
            for f in (obj.fget, obj.fset, obj.fdel):
                if f is not None:
                    visit(f, depth)
            return
        if isinstance(obj, types.FunctionType):
            walk(obj.__code__)
        elif isinstance(obj, type) and obj.__module__ == module.__name__ and depth < 3:
            for member in vars(obj).values():
                visit(member, depth + 1)

    for value in vars(module).values():
        visit(value)
    return list(seen.values())


class LineMonitor:
    """LINE events of the chosen modules.  mode: off | count | record | kill | call (``action()`` at
    the target event, once)."""

    def __init__(self, modules, tool_id: int | None = None) -> None:
        self.codes = [c for m in modules for c in _code_objects_of(m)]
        self.names = {os.path.basename(m.__file__) for m in modules}
        mon = sys.monitoring
        if tool_id is None:
            for cand in (3, 4, 1, 2, 0, 5):
                if mon.get_tool(cand) is None:
                    tool_id = cand
                    break
        if tool_id is None:
            raise RuntimeError("no free sys.monitoring tool id")
        self.tool = tool_id
        mon.use_tool_id(self.tool, "vf-c08")
        for code in self.codes:
            mon.set_local_events(self.tool, code, mon.events.LINE)
        mon.register_callback(self.tool, mon.events.LINE, self._on_line)
        self.mode = "off"
        self.counter = itertools.count()
        self.target = -1
        self.trace: list[tuple[str, str, int]] = []
        self.seen = 0
        self.action = None

    def _on_line(self, code, lineno):
        mode = self.mode
        if mode == "off":
            return None
        n = next(self.counter)
        if mode == "kill":
            if n == self.target:
                os._exit(EXIT_DIED)
        elif mode == "record":
            self.trace.append((os.path.basename(code.co_filename), code.co_name, lineno))
        elif mode == "call":
            if n == self.target and self.action is not None:
                self.action()
        return None

    def start(self, mode: str, target: int = -1, action=None) -> None:
        self.counter = itertools.count()
        self.target = target
        self.trace = []
        self.action = action
        self.mode = mode

    def stop(self) -> int:
        self.mode = "off"
        self.seen = next(self.counter)
        return self.seen


# ---------------------------------------------------------------------------------------------
# independent TensorProtocol implementations with fault positions
# ---------------------------------------------------------------------------------------------
class _ProbeBase:
    """A tensor implementing ``TensorProtocol`` from scratch (no onnx_ir base class)."""

    def __init__(self, payload: bytes, np_dtype, shape_obj, dtype_enum, name: str, plan_ref: list) -> None:
        self._payload = payload
        self._np_dtype = np_dtype
        self.name = name
        self.shape = shape_obj
        self.dtype = dtype_enum
        self.doc_string = None
        self.raw = payload
        self.metadata_props: dict[str, str] = {}
        self.meta: dict[str, Any] = {}
        self._plan_ref = plan_ref   # one-element list holding the current Plan

    @property
    def _plan(self) -> Plan:
        return self._plan_ref[0]

    @property
    def size(self) -> int:
        return len(self._payload) // self._np_dtype.itemsize

    @property
    def nbytes(self) -> int:
        return len(self._payload)

    def numpy(self):
        import numpy as np

        action = self._plan.hit("tensor.numpy")
        _apply_simple(action)
        return np.frombuffer(self._payload, dtype=self._np_dtype).reshape(tuple(self.shape))

    def __array__(self, dtype=None, copy=None):
        arr = self.numpy()
        return arr if dtype is None else arr.astype(dtype)

    def __dlpack__(self, *, stream=None):
        raise NotImplementedError

    def __dlpack_device__(self):
        raise NotImplementedError

    def __repr__(self) -> str:
        return f"{type(self).__name__}(name={self.name!r}, nbytes={self.nbytes})"


class ProbeTensorBytes(_ProbeBase):
    """No ``tofile``: the writer uses ``file.write(tensor.tobytes())``; ``tobytes`` goes through
    ``numpy`` (two fault positions)."""

    def tobytes(self) -> bytes:
        _apply_simple(self._plan.hit("tensor.tobytes"))
        return self.numpy().tobytes()


class ProbeTensorToFile(_ProbeBase):
    """Has ``tofile`` writing in two chunks; may fail or die before, or between the chunks."""

    def tobytes(self) -> bytes:
        _apply_simple(self._plan.hit("tensor.tobytes"))
        return bytes(self._payload)

    def tofile(self, file) -> None:
        action = self._plan.hit("tensor.tofile")
        half = len(self._payload) // 2
        if action is not None and action[0] in ("raise", "die"):
            _apply_simple(action)
        file.write(self._payload[:half])
        if action is not None:
            if hasattr(file, "flush"):
                with contextlib.suppress(Exception):
                    file._real.flush() if hasattr(file, "_real") else file.flush()
            if action[0].startswith("die"):
                _die()
            raise make_exc(action[1])
        file.write(self._payload[half:])
