"""C03 helpers: value names that collide across scopes, opset-import variety, and the oracles for both.

The ONNX format refers to values by name and resolves a name lexically: the graph of the using node
first, then the enclosing graphs from the innermost outwards (serde documents "inner scopes shadowing
outer ones").  A model is therefore representable exactly when

  * the named values owned by one graph (inputs, initializers, node outputs) have distinct names, and
  * every use of a value (node input, graph output, sharding reference) finds that very value when its
    name is looked up innermost-first from the graph of the use.

Nothing requires names to be unique over the whole model: sibling subgraphs, function bodies and the
main graph, and a graph and the graphs nested in it may all use the same names ("every graph counts
its own values from val_0").  `lexical_problems` decides the two conditions independently of serde;
`collide_names` renames values of a (uniquely named) model through the public `Value.name` setter so
that names repeat across scopes while both conditions keep holding.
"""

from __future__ import annotations

import onnx_ir as ir

from vfpy import iso_ir

DEFAULT_DOMAIN_SPELLINGS = ("", "ai.onnx")
OPSET_DOMAINS = ["", "", "ai.onnx", "ai.onnx", "ai.onnx.ml", "ai.onnx.training", "ai.onnx.preview.training",
                 "custom.domain", "Custom.Domain", "com.microsoft", "other", "ai.onnx.x"]
OPSET_VERSIONS = [1, 2, 7, 13, 17, 18, 20, 21, 23, 1000, 2**40]


# ---- scope tree ---------------------------------------------------------------------------------
def subgraphs(node: ir.Node) -> list[ir.Graph]:
    out = []
    for a in node.attributes.values():
        if isinstance(a, ir.Attr) and not a.is_ref():
            if a.type == ir.AttributeType.GRAPH:
                out.append(a.value)
            elif a.type == ir.AttributeType.GRAPHS:
                out.extend(a.value)
    return out


def owned(g: ir.Graph) -> list[ir.Value]:
    """The values a graph defines (each once)."""
    vals = list(g.inputs) + list(g.initializers.values()) + [o for n in g for o in n.outputs]
    return list({id(v): v for v in vals}.values())


def scope_tree(model: ir.Model) -> list[tuple[ir.Graph, tuple[ir.Graph, ...]]]:
    """[(graph, enclosing graphs outermost first)] for the main graph, function bodies and all nested graphs."""
    out: list[tuple[ir.Graph, tuple[ir.Graph, ...]]] = []
    seen: set[int] = set()

    def walk(g, chain):
        if id(g) in seen:
            return
        seen.add(id(g))
        out.append((g, chain))
        for n in g:
            for sg in subgraphs(n):
                walk(sg, chain + (g,))

    walk(model.graph, ())
    for f in model.functions.values():
        walk(f.graph, ())
    return out


def lexical_problems(model: ir.Model) -> list[str]:
    """Harness precondition (not a verdict): reasons why a name-based, lexically scoped format cannot
    represent the model's value references."""
    problems: list[str] = []
    tree = scope_tree(model)
    owner_count: dict[int, int] = {}
    tables: dict[int, dict[str, ir.Value]] = {}
    for g, _ in tree:
        table: dict[str, ir.Value] = {}
        for v in owned(g):
            owner_count[id(v)] = owner_count.get(id(v), 0) + 1
            if not v.name:
                continue
            if v.name in table and table[v.name] is not v:
                problems.append(f"duplicate value names in one scope: {v.name!r}")
            table[v.name] = v
        for k, v in g.initializers.items():
            if k != v.name:
                problems.append("initializer registered under a key that is not its name")
        tables[id(g)] = table
    if any(c > 1 for c in owner_count.values()):
        problems.append("duplicate owner: a value is defined by more than one graph")

    def resolve(name, g, chain):
        for scope in (g,) + tuple(reversed(chain)):
            hit = tables[id(scope)].get(name)
            if hit is not None:
                return hit
        return None

    for g, chain in tree:
        for n in g:
            refs = [v for v in n.inputs if v is not None]
            for cfg in getattr(n, "device_configurations", None) or ():
                refs.extend(s.value for s in cfg.sharding_specs if getattr(s, "value", None) is not None)
            for v in refs:
                if v.name and resolve(v.name, g, chain) is not v:
                    problems.append(f"shadowed reference: name {v.name!r} used in a graph where it resolves to another value")
        for v in g.outputs:
            if v.name and tables[id(g)].get(v.name) is not v:
                problems.append(f"shadowed reference: graph output {v.name!r} is not the graph's own value of that name")
    return problems


def cross_scope_collisions(model: ir.Model) -> dict[str, int]:
    """How the names of a (representable) model repeat across scopes: counts by relation."""
    tree = scope_tree(model)
    names = {id(g): {v.name for v in owned(g) if v.name} for g, _ in tree}
    rel = {"nested": 0, "nested_2_levels": 0, "sibling_or_unrelated": 0}
    for i, (g, chain) in enumerate(tree):
        anc = {id(c) for c in chain}
        for h, hchain in tree[i + 1:]:
            common = names[id(g)] & names[id(h)]
            if not common:
                continue
            if id(g) in {id(c) for c in hchain} or id(h) in anc:
                rel["nested"] += 1
                if abs(len(hchain) - len(chain)) >= 2:
                    rel["nested_2_levels"] += 1
            else:
                rel["sibling_or_unrelated"] += 1
    return rel


def shadowed_captures(model: ir.Model) -> int:
    """Number of node inputs that capture a value of an enclosing graph whose name is ALSO the name of a
    value of a graph further out (the reference must resolve to the nearer one)."""
    tree = scope_tree(model)
    names = {id(g): {v.name: v for v in owned(g) if v.name} for g, _ in tree}
    count = 0
    for g, chain in tree:
        for n in g:
            for v in n.inputs:
                if v is None or not v.name or names[id(g)].get(v.name) is v:
                    continue
                hits = [c for c in chain if v.name in names[id(c)]]
                if len(hits) >= 2:
                    count += 1
    return count


def collide_names(model: ir.Model, rng, mode: str | None = None) -> int:
    """Rename values so that names repeat across scopes, keeping the model representable (each rename is
    kept only if `lexical_problems` stays empty).  Modes: 'per_graph_counters' (every graph names its own
    values val_0, val_1, ... as independently built graphs do), 'borrow' (single values take the name of a
    value of another graph, preferably of an enclosing / nested one), 'shadow' (the name of a value that is
    captured by a nested graph is also given to values of other graphs: graphs further out, sibling graphs,
    function bodies - wherever the capture keeps resolving to the captured value).  Returns the number of
    renames kept."""
    if lexical_problems(model):
        return 0
    tree = scope_tree(model)
    mode = mode or rng.choice(["per_graph_counters", "per_graph_counters", "borrow", "shadow", "shadow"])
    kept = 0

    def attempt(v, new):
        nonlocal kept
        old = v.name
        if not old or old == new:
            return
        try:
            v.name = new
        except ValueError:
            return  # e.g. an initializer of that name exists in the graph
        if lexical_problems(model):
            v.name = old
        else:
            kept += 1

    if mode == "shadow":
        own = {id(g): {id(v) for v in owned(g)} for g, _ in tree}
        captures = []   # (captured value, its graph, the chain of that graph)
        for g, chain in tree:
            for n in g:
                for v in n.inputs:
                    if v is not None and v.name and id(v) not in own[id(g)]:
                        for k, c in enumerate(chain):
                            if id(v) in own[id(c)]:
                                captures.append((v, c, chain[:k]))
        if not captures:
            mode = "borrow"
        for _ in range(rng.randint(1, 4) if captures else 0):
            v, a, outer = rng.choice(captures)
            if outer and rng.random() < 0.6:
                h = rng.choice(outer)            # a graph further out than the one that defines v
            else:
                h = rng.choice(tree)[0]
            cands = [x for x in owned(h) if x.name and x is not v]
            if h is a or not cands:
                continue
            attempt(rng.choice(cands), v.name)
    if mode == "per_graph_counters":
        prefix = rng.choice(["val_", "val_", "x", "t"])
        for g, _ in tree:
            if rng.random() < 0.15:
                continue  # some graphs keep their unique names
            vals = [v for v in owned(g) if v.name]
            if rng.random() < 0.3:
                rng.shuffle(vals)
            for i, v in enumerate(vals):
                attempt(v, f"{prefix}{i}")
    elif mode == "borrow":
        by_graph = [(g, chain, [v for v in owned(g) if v.name]) for g, chain in tree]
        by_graph = [x for x in by_graph if x[2]]
        if len(by_graph) < 2:
            return 0
        for _ in range(rng.randint(1, 6)):
            g, chain, vals = rng.choice(by_graph)
            related = [x for x in by_graph if x[0] is not g and (x[0] in chain or g in x[1])]
            others = related if (related and rng.random() < 0.7) else [x for x in by_graph if x[0] is not g]
            if not others:
                continue
            attempt(rng.choice(vals), rng.choice(rng.choice(others)[2]).name)
    return kept


# ---- opset imports ------------------------------------------------------------------------------------
def vary_opset_imports(model: ir.Model, rng) -> set[str]:
    """Replace the opset imports of the model and of some functions by a random mapping over the domain
    spellings the format allows (both spellings of the default domain, standard and custom domains,
    domains no node uses, small and large versions).  Returns feature tags."""
    feats: set[str] = set()
    targets = [model.graph] + [f.graph for f in model.functions.values() if rng.random() < 0.6]
    for g in targets:
        new: dict[str, int] = {}
        for _ in range(rng.choice([1, 1, 2, 3, 4])):
            new[rng.choice(OPSET_DOMAINS)] = rng.choice(OPSET_VERSIONS)
        if rng.random() < 0.35:
            # both spellings of the default domain, usually with different versions
            a, b = rng.sample(OPSET_VERSIONS, 2)
            new[""] = a
            new["ai.onnx"] = b if rng.random() < 0.8 else a
        items = list(new.items())
        rng.shuffle(items)
        g.opset_imports.clear()
        g.opset_imports.update(items)
        if "ai.onnx" in new:
            feats.add("opset_alias_spelling")
        if "ai.onnx" in new and "" in new:
            feats.add("opset_both_default_spellings")
        if "" not in new and "ai.onnx" not in new:
            feats.add("opset_no_default_domain")
    feats.add("opset_variety")
    return feats


def canonical_imports(imports) -> set[tuple[str, int]]:
    return {("" if d in DEFAULT_DOMAIN_SPELLINGS else d, v) for d, v in dict(imports).items()}


class Iso(iso_ir.Iso):
    """iso_ir.Iso with the C03 reading of "same opset imports": every (domain, version) import must be
    present after the round trip and nothing else, where the two spellings of the default domain name the
    same domain (so `{'': 20, 'ai.onnx': 21} -> {'': 21}` is a lost import).  A mere respelling
    ('ai.onnx' <-> '') or reordering is recorded in `report_only`, not judged."""

    def __init__(self, **kw):
        super().__init__(**kw)
        self.report_only: list[str] = []

    def opset_imports(self, path, a, b):
        da, db = dict(a), dict(b)
        if da == db:
            if list(da) != list(db):
                self.report_only.append("opset_import_order")
            return
        ca, cb = canonical_imports(da), canonical_imports(db)
        if ca != cb:
            lost, new = sorted(ca - cb), sorted(cb - ca)
            what = "lost" if lost and not new else ("appeared" if new and not lost else "changed")
            self.d(path, f"opset_imports entry {what}: {da} != {db} (lost {lost}, new {new})")
        else:
            self.report_only.append("opset_alias_respelled")


# ---- deeper capturing graphs --------------------------------------------------------------------------
def add_deep_captures(model: ir.Model, rng) -> int:
    """Attach, through the public API, small graphs one level BELOW already nested graphs (so that three or
    more scopes are stacked); their nodes capture values of the graph they are nested in and of graphs
    further out.  Returns the number of graphs attached."""
    tree = [(g, chain) for g, chain in scope_tree(model) if chain and len(g)]
    made = 0
    for _ in range(rng.randint(1, 2) if tree else 0):
        g, chain = rng.choice(tree)
        near = [v for v in owned(g) if v.name]
        far = [v for c in chain for v in owned(c) if v.name]
        if not near:
            continue
        k = rng.randrange(10**6)
        formal = [ir.Value(name=f"deep_in_{k}")] if rng.random() < 0.3 else []
        nodes, local = [], list(formal)
        for j in range(rng.randint(1, 2)):
            pool = near + (far if rng.random() < 0.5 else []) + local
            ins = [rng.choice(near)] + [rng.choice(pool) for _ in range(rng.randint(0, 2))]
            rng.shuffle(ins)
            out = ir.Value(name=f"deep_{k}_{j}")
            if rng.random() < 0.5:
                out.type = ir.TensorType(ir.DataType.FLOAT)
            nodes.append(ir.Node(rng.choice(["", "custom.domain"]), rng.choice(["Add", "Deep", "Identity"]), ins,
                                 outputs=[out], name=rng.choice([None, f"deep_node_{k}_{j}"])))
            local.append(out)
        inner = ir.Graph(formal, [local[-1]], nodes=nodes, name=rng.choice([None, f"deep_graph_{k}"]))
        host = rng.choice(list(g))
        name = f"deep_body_{k}"
        host.attributes[name] = ir.AttrGraph(name, inner)
        made += 1
    return made
