"""C18 execution oracle: run the *source* graph once with every value of its own scope exposed as a graph
output, record the values, then run an extracted region (wrapped in a model with the source's opset
imports / functions / ir_version) on the recorded boundary-input values.

The instrumented source is built on the ONNX proto of the admitted gen_exec case (the proto that passed
``onnx.checker``): the main graph, a model-local function body turned into a graph (typed by the function's
value_info; reference attributes replaced by the declared defaults, otherwise not executable), or a nested
graph that captures nothing.  Evaluators and comparison are those of ``vfpy.gen_exec``.
"""

from __future__ import annotations

import random
from typing import Any, Sequence

import numpy as np
import onnx
import onnx_ir as ir
from onnx import numpy_helper

from vfpy import gen_exec as GE


def _subgraph_protos(graph: onnx.GraphProto):
    for n in graph.node:
        for a in n.attribute:
            if a.type == onnx.AttributeProto.GRAPH:
                yield a.g
                yield from _subgraph_protos(a.g)
            elif a.type == onnx.AttributeProto.GRAPHS:
                for g in a.graphs:
                    yield g
                    yield from _subgraph_protos(g)


def _resolve_ref_attrs(graph: onnx.GraphProto, defaults: dict[str, onnx.AttributeProto]) -> str | None:
    """Replace reference attributes by the function's declared defaults, in place.  Returns a reason when a
    reference has no default (the body is then not executable on its own)."""
    for g in [graph, *list(_subgraph_protos(graph))]:
        for n in g.node:
            for a in n.attribute:
                if a.ref_attr_name:
                    d = defaults.get(a.ref_attr_name)
                    if d is None:
                        return "ref-attr-without-default"
                    name = a.name
                    a.CopyFrom(d)
                    a.name = name
                    a.ref_attr_name = ""
    return None


def _locate(graph: onnx.GraphProto, path: Sequence[Sequence]) -> onnx.GraphProto:
    for node_index, attr_name, j in path:
        node = graph.node[node_index]
        attr = next(a for a in node.attribute if a.name == attr_name)
        graph = attr.g if attr.type == onnx.AttributeProto.GRAPH else attr.graphs[j]
    return graph


def _function_as_graph(fp: onnx.FunctionProto) -> onnx.GraphProto:
    g = onnx.GraphProto()
    g.name = fp.name or "function_body"
    types = {vi.name: vi for vi in fp.value_info}
    for name in fp.input:
        vi = g.input.add()
        if name in types:
            vi.CopyFrom(types[name])
        vi.name = name
    for name in fp.output:
        vi = g.output.add()
        if name in types:
            vi.CopyFrom(types[name])
        vi.name = name
    g.node.extend(fp.node)
    return g


def _has_training_batchnorm(model_proto: onnx.ModelProto) -> bool:
    graphs = [model_proto.graph, *list(_subgraph_protos(model_proto.graph))]
    bodies = [g.node for g in graphs] + [f.node for f in model_proto.functions]
    for nodes in bodies:
        for n in nodes:
            if n.op_type == "BatchNormalization" and any(a.name == "training_mode" and a.i == 1 for a in n.attribute):
                return True
            for a in n.attribute:
                subs = [a.g] if a.type == onnx.AttributeProto.GRAPH else list(a.graphs)
                for g in subs:
                    for gg in [g, *list(_subgraph_protos(g))]:
                        if any(m.op_type == "BatchNormalization" and any(b.name == "training_mode" and b.i == 1 for b in m.attribute)
                               for m in gg.node):
                            return True
    return False


class Source:
    """The instrumented source of one graph-like root: recorded values per evaluator and input set."""

    def __init__(self, model_proto: onnx.ModelProto, root: Sequence, path: Sequence = ()):
        """``root`` is ["main"] or ["fn", i]; ``path`` locates a nested graph below it."""
        self.reason: str | None = None
        self.defaults: dict[str, onnx.AttributeProto] = {}
        q = onnx.ModelProto()
        q.CopyFrom(model_proto)
        if root[0] == "main":
            graph = q.graph
        else:
            fp = model_proto.functions[root[1]]
            self.defaults = {a.name: a for a in fp.attribute_proto}
            graph = _function_as_graph(fp)
            have = {(o.domain, o.version) for o in q.opset_import}
            doms = {o.domain for o in q.opset_import}
            for o in fp.opset_import:
                if o.domain not in doms and (o.domain, o.version) not in have:
                    q.opset_import.add().CopyFrom(o)
        if path:
            sub = onnx.GraphProto()
            sub.CopyFrom(_locate(graph, path))
            graph = sub
        if graph is not q.graph:
            q.graph.CopyFrom(graph)
        if self.defaults or root[0] != "main":
            self.reason = _resolve_ref_attrs(q.graph, self.defaults)
        self.base_outputs = [o.name for o in q.graph.output]
        have = set(self.base_outputs)
        for n in q.graph.node:
            for o in n.output:
                if o and o not in have:
                    q.graph.output.add().name = o
                    have.add(o)
        self.proto = q
        self.opset_import = list(q.opset_import)
        self.out_names = [o.name for o in q.graph.output]
        self.init_values = {t.name: numpy_helper.to_array(t) for t in q.graph.initializer}
        self.required = [vi.name for vi in GE.required_inputs(q)]
        self.input_sets: list[list[np.ndarray]] = []
        self.recorded: dict[str, list[dict[str, np.ndarray] | None]] = {}
        self.cannot: dict[str, str] = {}

    def run(self, rng: random.Random, k: int, evaluators: Sequence[str]) -> None:
        if self.reason is not None:
            return
        try:
            self.input_sets = GE.make_inputs(rng, self.proto, k)
        except Exception as e:  # noqa: BLE001 - an input of unknown type: the source cannot be fed
            self.reason = f"make_inputs:{type(e).__name__}"
            return
        for e in evaluators:
            if e == "ort" and _has_training_batchnorm(self.proto):
                # probe: onnxruntime's BatchNormalization(training_mode=1) updates its mean/var *input* buffers in
                # place, so an initializer read later (or returned as a graph output) has another value than the
                # model says - what it returns then depends on node placement, not on the graph
                self.cannot[e] = "ort:gate:batchnorm-training-updates-inputs-in-place"
                self.recorded[e] = [None] * len(self.input_sets)
                continue
            results = GE.RUNNERS[e](self.proto, self.input_sets)
            recs: list[dict[str, np.ndarray] | None] = []
            for inputs, r in zip(self.input_sets, results):
                if not r.ok:
                    recs.append(None)
                    self.cannot[e] = r.reason or "?"
                    continue
                rec = dict(self.init_values)
                rec.update(dict(zip(self.required, inputs)))  # a fed value overrides an initializer default
                rec.update(dict(zip(self.out_names, r.outputs)))
                recs.append(rec)
            self.recorded[e] = recs

    def ran(self, evaluator: str) -> list[int]:
        return [j for j, r in enumerate(self.recorded.get(evaluator, [])) if r is not None]


def wrap_extracted(extracted: ir.Graph, src_model: ir.Model, source: Source, sample_rec: dict[str, np.ndarray]) -> onnx.ModelProto:
    """The extracted graph as a model with the source's ir_version, functions and opset imports.  Graph
    inputs that carry no type in the IR are typed from the recorded boundary value (an accommodation of the
    harness for onnxruntime, which needs typed inputs; it does not touch the extracted IR graph)."""
    model = ir.Model(extracted, ir_version=src_model.ir_version, producer_name="vfpy.c18",
                     functions=list(src_model.functions.values()))
    p = ir.to_proto(model)
    del p.opset_import[:]
    p.opset_import.extend(source.opset_import)
    if source.defaults:
        _resolve_ref_attrs(p.graph, source.defaults)
    for vi in p.graph.input:
        if not vi.type.HasField("tensor_type") or vi.type.tensor_type.elem_type == 0:
            arr = sample_rec.get(vi.name)
            if arr is not None:
                vi.type.CopyFrom(onnx.helper.make_tensor_type_proto(
                    onnx.helper.np_dtype_to_tensor_dtype(arr.dtype), list(arr.shape)))
    return p


def run_extracted(p: onnx.ModelProto, evaluator: str, recs: Sequence[dict[str, np.ndarray]]) -> list[GE.RunResult]:
    """Run the wrapped region on the recorded boundary values (one RunResult per record)."""
    names = [vi.name for vi in GE.required_inputs(p)]
    sets = []
    for rec in recs:
        if any(n not in rec for n in names):
            return [GE.RunResult(False, None, "feeds:boundary-value-not-recorded", ",".join(n for n in names if n not in rec))] * len(recs)
        sets.append([rec[n] for n in names])
    return GE.RUNNERS[evaluator](p, sets)


def function_has_ref_attrs(fp: onnx.FunctionProto) -> bool:
    g = _function_as_graph(fp)
    return any(a.ref_attr_name for gg in [g, *list(_subgraph_protos(g))] for n in gg.node for a in n.attribute)
